// shared by the fuzz targets: turn a check result into a libFuzzer crash with a replay file
use jv::engine::{CaseResult, ReplayFile};

pub fn root() -> std::path::PathBuf {
    std::path::PathBuf::from(std::env::var("VERIF_ROOT").unwrap_or_else(|_| "/verif".into()))
}

pub fn known_keys(property: &str) -> Vec<String> {
    jv::engine::load_known(&root()).into_iter().filter(|k| k.property == property).map(|k| k.key).collect()
}

/// Pass / Discard / listed known finding: return. Anything else: write the replay file, print
/// the VIOLATION line and abort (libFuzzer then also saves the raw input as its artifact).
pub fn settle(property: &str, check: &str, case: serde_json::Value, r: CaseResult) {
    let msg = match r {
        CaseResult::Pass(_) | CaseResult::Discard(_) => return,
        CaseResult::Known { key, what, .. } => {
            if known_keys(property).iter().any(|k| k == key) {
                return;
            }
            format!("[unlisted signature {}] {}", key, what)
        }
        CaseResult::Fail(m) => m,
    };
    let rf = ReplayFile { property: property.to_string(), check: check.to_string(), case: case.clone(), note: format!("found by the libFuzzer target: {}", msg) };
    let dir = root().join("findings");
    let _ = std::fs::create_dir_all(&dir);
    let path = dir.join(format!("{}-fuzz-{:016x}.json", check.replace('.', "-"), jv::engine::hash_str(&case.to_string())));
    let _ = std::fs::write(&path, serde_json::to_string_pretty(&rf).unwrap());
    println!("VIOLATION property={} replay={}", property, path.display());
    println!("  check={} {}", check, jv::runner::trunc(&msg, 2000));
    std::process::abort();
}

pub fn tape_of(data: &[u8]) -> Vec<u32> {
    data.chunks(4).map(|c| {
        let mut b = [0u8; 4];
        b[..c.len()].copy_from_slice(c);
        u32::from_le_bytes(b)
    }).collect()
}
