#![no_main]
// bytes -> jawk: C05 (never a panic) for every input, policy and pipeline; C01 (stream
// fidelity) and C02 (valid rows in every style, fixpoint) whenever the bytes are a conforming
// stream; C06 via the clean-stream clause of C01
use jv::engine::Check;
use jv::gen::BytesS;
use libfuzzer_sys::fuzz_target;
mod common;

fuzz_target!(|data: &[u8]| {
    if data.is_empty() {
        return;
    }
    let sel = data[0];
    let input = data[1..].to_vec();
    let c5 = jv::p05::CaseBytes { input: BytesS(input.clone()), policy: sel & 3, pipeline: (sel >> 2) & 7 };
    let r = jv::p05::C05Bytes.check(&c5);
    common::settle("C05", "C05.bytes", serde_json::to_value(&c5).unwrap(), r);
    let c1 = jv::p01::Case01 { input: BytesS(input.clone()), touching: 0 };
    let r = jv::p01::C01Stream.check(&c1);
    common::settle("C01", "C01.stream", serde_json::to_value(&c1).unwrap(), r);
    let c2 = jv::p02::Case02 { input: BytesS(input), expr: jv::p02::Expr02::None, style: (sel >> 5) & 3, utf8: sel & 0x80 != 0, sep: "\n".to_string() };
    let r = jv::p02::C02Print.check(&c2);
    common::settle("C02", "C02.print", serde_json::to_value(&c2).unwrap(), r);
});
