#![no_main]
// bytes -> choice tape -> (options, expressions, inputs): C03 (stage composition, option order)
use jv::engine::Check;
use libfuzzer_sys::fuzz_target;
mod common;

fuzz_target!(|data: &[u8]| {
    if data.len() < 8 {
        return;
    }
    let a = u16::from_le_bytes([data[0], data[1]]) as u64 + 1;
    let b = u16::from_le_bytes([data[2], data[3]]) as u64 + 1;
    let tape = common::tape_of(&data[4..]);
    let c3 = jv::p03::decode_case03(&tape, a, b);
    let r = jv::p03::C03Pipeline.check(&c3);
    common::settle("C03", "C03.pipeline", serde_json::to_value(&c3).unwrap(), r);
});
