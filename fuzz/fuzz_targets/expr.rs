#![no_main]
// bytes -> choice tape -> (expression, bindings, inputs): C04 (documented value) and C05
use jv::engine::Check;
use libfuzzer_sys::fuzz_target;
mod common;

fuzz_target!(|data: &[u8]| {
    if data.len() < 8 {
        return;
    }
    let root = u16::from_le_bytes([data[0], data[1]]) as usize;
    let (alias, sep, depth) = (data[2] & 1 == 1, data[2] >> 1 & 3, 1 + (data[3] % 5) as u32);
    let tape = common::tape_of(&data[4..]);
    let c4 = jv::p04::decode_case04(&tape, root, alias, sep, data[3] as u64, depth);
    let r = jv::p04::C04Eval.check(&c4);
    common::settle("C04", "C04.eval", serde_json::to_value(&c4).unwrap(), r);
});
