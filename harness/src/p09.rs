//! C09 --group-by / --merge.

use crate::engine::*;
use crate::pipe::*;
use crate::rjson::*;
use crate::rows::*;
use crate::runner::*;
use proptest::prelude::*;
use serde::{Deserialize, Serialize};
use serde_json::json;

#[derive(Clone, Debug, Serialize, Deserialize)]
pub struct Case09 {
    pub recs: Vec<Rec>,
    pub pipe: Pipe,
    /// 0 one-line, 1 consise, 2 pretty, 3 default, 4 text output
    pub out: u8,
}

pub struct C09Group;
impl Check for C09Group {
    type Case = Case09;
    fn name(&self) -> &'static str {
        "C09.group"
    }
    fn cases(&self, tier: Tier) -> u64 {
        tier.pick(40_000, 800_000)
    }
    fn strategy(&self, _t: Tier) -> BoxedStrategy<Case09> {
        let recs = prop_oneof![
            8 => arb_pipe_recs(40),
            1 => Just(Vec::<Rec>::new()),
            1 => arb_pipe_recs(3),
        ];
        (recs, arb_pipe(2, true), 0u8..5)
            .prop_map(|(recs, mut pipe, out)| {
                if pipe.group == 0 {
                    pipe.group = 1 + (out % 2);
                }
                Case09 { recs, pipe, out }
            })
            .boxed()
    }
    fn check(&self, case: &Case09) -> CaseResult {
        let p = &case.pipe;
        let input = p.input(&case.recs);
        // the rows the same pipeline prints without grouping
        let flat = run(&p.args(true, false), &input);
        if !flat.res.is_ok() {
            return CaseResult::Fail(format!("ungrouped run failed: {}", flat.res.short()));
        }
        let rows = match parse_rows(&flat.stdout) {
            Ok(r) => r,
            Err(e) => return CaseResult::Fail(e),
        };
        let model = if p.group == 1 { group_model(&rows) } else { RVal::Arr(rows.clone()) };
        let mut args = p.args(true, true);
        match case.out {
            0 => args.push("--style=one-line".into()),
            1 => args.push("--style=consise".into()),
            2 => args.push("--style=pretty".into()),
            4 => args.push("--output-style=text".into()),
            _ => {}
        }
        let out = run(&args, &input);
        if !out.res.is_ok() {
            return CaseResult::Fail(format!("grouped run failed: {}", out.res.short()));
        }
        let got = match parse_rows(&out.stdout) {
            Ok(r) => r,
            Err(e) => return CaseResult::Fail(format!("grouped output: {} in {}", e, esc_trunc(&out.stdout, 300))),
        };
        if got.len() != 1 {
            return CaseResult::Fail(format!("{} rows printed instead of exactly one collection: {}", got.len(), esc_trunc(&out.stdout, 300)));
        }
        if !same_value(&model, &got[0]) {
            return CaseResult::Fail(format!("collection differs from the documented grouping of the ungrouped rows: expected {} got {}", trunc(&model.to_json(), 500), trunc(&got[0].to_json(), 500)));
        }
        let (nkeys, repeated, dropped) = match &model {
            RVal::Obj(o) => (o.len(), o.iter().any(|m| matches!(&m.1, RVal::Arr(a) if a.len() > 1)), o.iter().map(|m| if let RVal::Arr(a) = &m.1 { a.len() } else { 0 }).sum::<usize>() < rows.len()),
            RVal::Arr(a) => (0, a.len() > 1, false),
            _ => (0, false, false),
        };
        let nt = if p.group == 1 { nkeys >= 2 && repeated && dropped } else { rows.len() >= 2 && (p.unique || !p.sort.is_empty() || p.take.is_some() || p.filter != 0 || p.split.is_some()) };
        CaseResult::Pass(
            Info::new(nt)
                .class(if p.group == 1 { "group_by" } else { "merge" })
                .class_if(rows.is_empty(), "no_row_survives")
                .class_if(case.recs.is_empty(), "empty_input")
                .class_if(case.out == 4, "text_output")
                .class_if(case.out == 2, "pretty")
                .class_if(p.take.is_some() || p.skip > 0, "limiter_in_front")
                .class_if(!p.sort.is_empty(), "sorted")
                .class_if(p.select != 0, "selected_rows")
                .class_if(dropped, "non_string_or_absent_key_dropped")
                .obs(json!({"rows": rows.len(), "stdout": esc_trunc(&out.stdout, 300)})),
        )
    }
}

pub fn run_all(ctx: &mut Ctx) {
    ctx.rule = "0..40 records whose group key ranges over strings (incl. \"\", non-ASCII, escaped spellings, numeric-looking), numbers, null, true, [], {} and absent x upstream split/filter/select/unique/sort/skip/take x json (3 styles) or text output; oracle: exactly one output row, equal to the documented grouping (first-seen string keys, arrival order, non-string/absent dropped) of the rows the same run prints without --group-by/--merge. non-trivial (group-by) = >= 2 distinct string keys, a repeated key and a dropped row; (merge) = >= 2 rows behind at least one upstream stage; empty inputs are generated explicitly (class empty_input / no_row_survives)".into();
    ctx.assumptions = vec!["the ungrouped run of the same pipeline defines 'the surviving rows' (metamorphic); the key is read from the printed row's g member".into()];
    C09Group.run(ctx);
}

pub fn checks() -> Vec<Box<dyn DynCheck>> {
    vec![Box::new(C09Group)]
}
