//! C09 --group-by / --merge.

use crate::engine::*;
use crate::pipe::*;
use crate::rjson::*;
use crate::rows::*;
use crate::runner::*;
use proptest::prelude::*;
use serde::{Deserialize, Serialize};
use serde_json::json;

#[derive(Clone, Debug, Serialize, Deserialize)]
pub struct Case09 {
    pub recs: Vec<Rec>,
    pub pipe: Pipe,
    /// 0 one-line, 1 consise, 2 pretty, 3 default, 4 text output
    pub out: u8,
}

pub struct C09Group;
impl Check for C09Group {
    type Case = Case09;
    fn name(&self) -> &'static str {
        "C09.group"
    }
    fn cases(&self, tier: Tier) -> u64 {
        tier.pick(40_000, 800_000)
    }
    fn strategy(&self, _t: Tier) -> BoxedStrategy<Case09> {
        let recs = prop_oneof![
            8 => arb_pipe_recs(40),
            1 => Just(Vec::<Rec>::new()),
            1 => arb_pipe_recs(3),
        ];
        (recs, arb_pipe(2, true), 0u8..5)
            .prop_map(|(recs, mut pipe, out)| {
                if pipe.group == 0 {
                    pipe.group = 1 + (out % 2);
                }
                Case09 { recs, pipe, out }
            })
            .boxed()
    }
    fn check(&self, case: &Case09) -> CaseResult {
        let p = &case.pipe;
        let input = p.input(&case.recs);
        // the rows the same pipeline prints without grouping
        let flat = run(&p.args(true, false), &input);
        if !flat.res.is_ok() {
            return CaseResult::Fail(format!("ungrouped run failed: {}", flat.res.short()));
        }
        let rows = match parse_rows(&flat.stdout) {
            Ok(r) => r,
            Err(e) => return CaseResult::Fail(e),
        };
        let model = if p.group == 1 { group_model(&rows) } else { RVal::Arr(rows.clone()) };
        let mut args = p.args(true, true);
        match case.out {
            0 => args.push("--style=one-line".into()),
            1 => args.push("--style=consise".into()),
            2 => args.push("--style=pretty".into()),
            4 => args.push("--output-style=text".into()),
            _ => {}
        }
        let out = run(&args, &input);
        if !out.res.is_ok() {
            return CaseResult::Fail(format!("grouped run failed: {}", out.res.short()));
        }
        let got = match parse_rows(&out.stdout) {
            Ok(r) => r,
            Err(e) => return CaseResult::Fail(format!("grouped output: {} in {}", e, esc_trunc(&out.stdout, 300))),
        };
        if got.len() != 1 {
            return CaseResult::Fail(format!("{} rows printed instead of exactly one collection: {}", got.len(), esc_trunc(&out.stdout, 300)));
        }
        if !same_value(&model, &got[0]) {
            return CaseResult::Fail(format!("collection differs from the documented grouping of the ungrouped rows: expected {} got {}", trunc(&model.to_json(), 500), trunc(&got[0].to_json(), 500)));
        }
        let (nkeys, repeated, dropped) = match &model {
            RVal::Obj(o) => (o.len(), o.iter().any(|m| matches!(&m.1, RVal::Arr(a) if a.len() > 1)), o.iter().map(|m| if let RVal::Arr(a) = &m.1 { a.len() } else { 0 }).sum::<usize>() < rows.len()),
            RVal::Arr(a) => (0, a.len() > 1, false),
            _ => (0, false, false),
        };
        let nt = if p.group == 1 { nkeys >= 2 && repeated && dropped } else { rows.len() >= 2 && (p.unique || !p.sort.is_empty() || p.take.is_some() || p.filter != 0 || p.split.is_some()) };
        CaseResult::Pass(
            Info::new(nt)
                .class(if p.group == 1 { "group_by" } else { "merge" })
                .class_if(rows.is_empty(), "no_row_survives")
                .class_if(case.recs.is_empty(), "empty_input")
                .class_if(case.out == 4, "text_output")
                .class_if(case.out == 2, "pretty")
                .class_if(p.take.is_some() || p.skip > 0, "limiter_in_front")
                .class_if(!p.sort.is_empty(), "sorted")
                .class_if(p.select != 0, "selected_rows")
                .class_if(dropped, "non_string_or_absent_key_dropped")
                .obs(json!({"rows": rows.len(), "stdout": esc_trunc(&out.stdout, 300)})),
        )
    }
}

// ---------------------------------------------------------------- thousands of rows, thousands of keys

#[derive(Clone, Debug, Serialize, Deserialize)]
pub struct Case09L {
    pub n: u32,
    pub seed: u64,
    /// number of distinct group keys
    pub nkeys: u32,
    pub merge: bool,
    /// one row in `odd_every` has a key that is not a string, or none (0 = never)
    pub odd_every: u8,
    /// 0 default, 1 consise, 2 pretty
    pub style: u8,
    /// rows arrive in runs of consecutive equal keys (lengths 1, 2, 3, 511..513, 1023..1025 and
    /// random ones) instead of independently drawn keys
    #[serde(default)]
    pub runs: bool,
}

pub struct C09Large;
impl Check for C09Large {
    type Case = Case09L;
    fn name(&self) -> &'static str {
        "C09.large"
    }
    fn cases(&self, tier: Tier) -> u64 {
        tier.pick(320, 4_000)
    }
    fn strategy(&self, t: Tier) -> BoxedStrategy<Case09L> {
        let max_n: u32 = t.pick(6_000, 70_000);
        (prop_oneof![18 => 1_030u32..3_000, 6 => 3_000u32..max_n, 6 => 100u32..1_030, 1 => 65_530u32..70_000], any::<u64>(), prop_oneof![Just(3u32), Just(17), Just(50), Just(1_000), 1_024u32..5_000], prop::bool::weighted(0.3), prop_oneof![Just(0u8), 2u8..30], 0u8..3, prop::bool::weighted(0.4))
            .prop_map(|(n, seed, nkeys, merge, odd_every, style, runs)| Case09L { n, seed, nkeys, merge, odd_every, style, runs })
            .boxed()
    }
    fn check(&self, c: &Case09L) -> CaseResult {
        let mut x = c.seed | 1;
        let mut next = || {
            x ^= x << 13;
            x ^= x >> 7;
            x ^= x << 17;
            x
        };
        let mut input = String::with_capacity(c.n as usize * 32);
        let mut keys: Vec<String> = Vec::new();
        let mut index: std::collections::HashMap<String, usize> = std::collections::HashMap::new();
        let mut groups: Vec<Vec<RVal>> = Vec::new();
        let mut all: Vec<RVal> = Vec::new();
        let mut dropped = 0usize;
        let (mut run_key, mut run_left) = (0u64, 0u64);
        for i in 0..c.n {
            let mut h = next();
            if c.runs {
                if run_left == 0 {
                    run_key = h % c.nkeys.max(1) as u64;
                    run_left = [1u64, 2, 3, 511, 512, 513, 1023, 1024, 1025, 1 + (h >> 12) % 300, 1 + (h >> 12) % 40][((h >> 32) % 11) as usize];
                }
                run_left -= 1;
                // same key for the whole run (the low bits of h choose the key below)
                h = (h / c.nkeys.max(1) as u64) * c.nkeys.max(1) as u64 + run_key;
            }
            let odd = !c.runs && c.odd_every > 0 && (h >> 40) % c.odd_every as u64 == 0;
            let row = if odd {
                match (h >> 50) % 4 {
                    0 => format!("{{\"i\":{}}}", i),
                    1 => format!("{{\"i\":{},\"g\":{}}}", i, h % 7),
                    2 => format!("{{\"i\":{},\"g\":null}}", i),
                    _ => format!("{{\"i\":{},\"g\":[\"k1\"]}}", i),
                }
            } else {
                format!("{{\"i\":{},\"g\":\"k{}\"}}", i, h % c.nkeys.max(1) as u64)
            };
            let v = parse_one(row.as_bytes()).unwrap();
            if c.merge {
                all.push(v);
            } else if let Some(RVal::Str(k)) = v.get("g").cloned() {
                match index.get(&k) {
                    Some(p) => groups[*p].push(v),
                    None => {
                        index.insert(k.clone(), keys.len());
                        keys.push(k);
                        groups.push(vec![v]);
                    }
                }
            } else {
                dropped += 1;
            }
            input.push_str(&row);
            input.push('\n');
        }
        let nk = keys.len();
        let model = if c.merge { RVal::Arr(all) } else { RVal::Obj(keys.into_iter().zip(groups.into_iter().map(RVal::Arr)).collect()) };
        let mut args: Vec<String> = vec![if c.merge { "--merge".to_string() } else { "--group-by=.g".to_string() }];
        match c.style {
            1 => args.push("--style=consise".into()),
            2 => args.push("--style=pretty".into()),
            _ => {}
        }
        let out = run(&args, input.as_bytes());
        if !out.res.is_ok() {
            return CaseResult::Fail(format!("grouped run failed: {} (args {:?})", out.res.short(), args));
        }
        let got = match parse_rows(&out.stdout) {
            Ok(r) => r,
            Err(e) => return CaseResult::Fail(format!("grouped output: {} in {}", e, esc_trunc(&out.stdout, 300))),
        };
        if got.len() != 1 {
            return CaseResult::Fail(format!("{} rows printed instead of exactly one collection (args {:?}, {} input rows)", got.len(), args, c.n));
        }
        if !same_value(&model, &got[0]) {
            // where do they differ? (key order, or the first group that differs)
            let what = match (&model, &got[0]) {
                (RVal::Obj(e), RVal::Obj(g)) => {
                    let ek: Vec<&String> = e.iter().map(|m| &m.0).collect();
                    let gk: Vec<&String> = g.iter().map(|m| &m.0).collect();
                    if ek != gk {
                        let p = ek.iter().zip(gk.iter()).position(|(a, b)| a != b).unwrap_or(ek.len().min(gk.len()));
                        format!("{} keys expected, {} found; the key order differs first at position {} (expected {:?}, got {:?})", ek.len(), gk.len(), p, ek.get(p), gk.get(p))
                    } else {
                        let p = e.iter().zip(g.iter()).position(|(a, b)| !same_value(&a.1, &b.1)).unwrap_or(0);
                        format!("group {:?} differs: expected {} got {}", e[p].0, trunc(&e[p].1.to_json(), 200), trunc(&g[p].1.to_json(), 200))
                    }
                }
                (RVal::Arr(e), RVal::Arr(g)) => format!("{} elements expected, {} found", e.len(), g.len()),
                _ => "wrong type".to_string(),
            };
            return CaseResult::Fail(format!("collection differs from the documented grouping of the {} input rows (args {:?}): {}", c.n, args, what));
        }
        CaseResult::Pass(
            Info::new(c.n >= 1000 && (c.merge || nk >= 2))
                .class(if c.merge { "merge" } else { "group_by" })
                .class_if(nk >= 500, "five_hundred_keys_or_more")
                .class_if(dropped > 0, "non_string_or_absent_key_dropped")
                .class_if(c.runs, "runs_of_equal_keys")
                .class_if(c.n > 65_536, "more_than_65536_rows")
                .obs(json!({"rows": c.n, "keys": nk, "stdout_bytes": out.stdout.len()})),
        )
    }
}

/// The group key is read from the input, not from the printed row: two selections that may both
/// be absent, a key member that is not selected, optionally --unique. Rows that print as {} stay
/// in their group; --unique is decided over the whole stream before grouping, so equal rows
/// under different keys leave only the first.
#[derive(Clone, Debug, Serialize, Deserialize)]
pub struct Case09K {
    /// (a, b, k): indices into the value / key pools, 0 = absent
    pub recs: Vec<(u8, u8, u8)>,
    pub unique: bool,
    pub style: u8,
}
const K_VALS: [&str; 6] = ["", "1", "2", "\"x\"", "null", "[1]"];
const K_KEYS: [&str; 9] = ["", "\"x\"", "\"y\"", "\"\"", "\"\u{e9}\"", "7", "null", "true", "\"z z\""];

pub struct C09Key;
impl Check for C09Key {
    type Case = Case09K;
    fn name(&self) -> &'static str {
        "C09.unselected_key"
    }
    fn cases(&self, tier: Tier) -> u64 {
        tier.pick(16_000, 300_000)
    }
    fn strategy(&self, _t: Tier) -> BoxedStrategy<Case09K> {
        (proptest::collection::vec((0u8..6, 0u8..6, 0u8..9), 0..24), any::<bool>(), 0u8..3).prop_map(|(recs, unique, style)| Case09K { recs, unique, style }).boxed()
    }
    fn check(&self, c: &Case09K) -> CaseResult {
        let mut input = String::new();
        for (a, b, k) in &c.recs {
            let mut m: Vec<String> = Vec::new();
            if *a > 0 {
                m.push(format!("\"a\":{}", K_VALS[*a as usize]));
            }
            if *k > 0 {
                m.push(format!("\"k\":{}", K_KEYS[*k as usize]));
            }
            if *b > 0 {
                m.push(format!("\"b\":{}", K_VALS[*b as usize]));
            }
            input.push_str(&format!("{{{}}}\n", m.join(",")));
        }
        // the documented result, computed from the records: --unique keeps the first of equal
        // (a, b) pairs over the whole stream (the pool values have one spelling each), then the
        // survivors are filed under their string key in first-seen order
        let mut seen: Vec<(u8, u8)> = Vec::new();
        let mut keys: Vec<String> = Vec::new();
        let mut groups: Vec<Vec<RVal>> = Vec::new();
        let (mut dropped, mut empty_rows, mut dup_other_key) = (0, 0, 0);
        let mut first_key_of: Vec<((u8, u8), u8)> = Vec::new();
        for (a, b, k) in &c.recs {
            if c.unique {
                if seen.contains(&(*a, *b)) {
                    if first_key_of.iter().any(|(p, k0)| *p == (*a, *b) && k0 != k) {
                        dup_other_key += 1;
                    }
                    continue;
                }
                seen.push((*a, *b));
                first_key_of.push(((*a, *b), *k));
            }
            let key = match parse_one(K_KEYS[*k as usize].as_bytes()) {
                Ok(RVal::Str(s)) if *k > 0 => s,
                _ => {
                    dropped += 1;
                    continue;
                }
            };
            let mut row: Vec<(String, RVal)> = Vec::new();
            if *a > 0 {
                row.push(("a".into(), parse_one(K_VALS[*a as usize].as_bytes()).unwrap()));
            }
            if *b > 0 {
                row.push(("b".into(), parse_one(K_VALS[*b as usize].as_bytes()).unwrap()));
            }
            if row.is_empty() {
                empty_rows += 1;
            }
            match keys.iter().position(|x| *x == key) {
                Some(p) => groups[p].push(RVal::Obj(row)),
                None => {
                    keys.push(key);
                    groups.push(vec![RVal::Obj(row)]);
                }
            }
        }
        let model = RVal::Obj(keys.into_iter().zip(groups.into_iter().map(RVal::Arr)).collect());
        let mut args: Vec<String> = vec!["--select=.a=a".into(), "--select=.b=b".into(), "--group-by=.k".into()];
        if c.unique {
            args.push("--unique".into());
        }
        args.push(format!("--style={}", ["one-line", "consise", "pretty"][c.style as usize % 3]));
        let out = run(&args, input.as_bytes());
        if !out.res.is_ok() {
            return CaseResult::Fail(format!("run failed: {} (args {:?})", out.res.short(), args));
        }
        let got = match parse_rows(&out.stdout) {
            Ok(r) => r,
            Err(e) => return CaseResult::Fail(format!("output: {} in {}", e, esc_trunc(&out.stdout, 300))),
        };
        if got.len() != 1 {
            return CaseResult::Fail(format!("{} rows printed instead of exactly one collection: {}", got.len(), esc_trunc(&out.stdout, 300)));
        }
        if !same_value(&model, &got[0]) {
            return CaseResult::Fail(format!("the collection is not the documented grouping of the surviving rows by the unselected key: expected {} got {} (args {:?}, input {})", trunc(&model.to_json(), 300), trunc(&got[0].to_json(), 300), args, esc_trunc(input.as_bytes(), 300)));
        }
        CaseResult::Pass(
            Info::new(c.recs.len() >= 3 && (empty_rows > 0 || dup_other_key > 0 || dropped > 0))
                .class_if(empty_rows > 0, "row_without_any_selected_value_in_a_group")
                .class_if(dup_other_key > 0, "duplicate_row_under_another_key")
                .class_if(dropped > 0, "row_dropped_for_its_key")
                .class_if(c.unique, "unique")
                .obs(json!({"records": c.recs.len(), "stdout": esc_trunc(&out.stdout, 160)})),
        )
    }
}

pub fn run_all(ctx: &mut Ctx) {
    ctx.rule = "0..40 records whose group key ranges over strings (incl. \"\", non-ASCII, escaped spellings, numeric-looking), numbers, null, true, [], {} and absent x upstream split/filter/select/unique/sort/skip/take x json (3 styles) or text output; oracle: exactly one output row, equal to the documented grouping (first-seen string keys, arrival order, non-string/absent dropped) of the rows the same run prints without --group-by/--merge. non-trivial (group-by) = >= 2 distinct string keys, a repeated key and a dropped row; (merge) = >= 2 rows behind at least one upstream stage; empty inputs are generated explicitly (class empty_input / no_row_survives). C09.large: 100..6000 rows (70000 thorough) derived from a seed with 3..5000 distinct keys, rows whose key is absent / a number / null / a list, keys drawn independently or in runs of consecutive equal keys (lengths 1, 2, 3, 511..513, 1023..1025, random), three styles; oracle: the documented grouping computed by the harness from the input itself (first-seen key order, arrival order inside each list, one collection); non-trivial = >= 1000 rows".into();
    ctx.assumptions = vec!["the ungrouped run of the same pipeline defines 'the surviving rows' (metamorphic); the key is read from the printed row's g member".into()];
    C09Group.run(ctx);
    C09Large.run(ctx);
    ctx.rule.push_str(". C09.unselected_key: 0..23 records with two selections that may both be absent and a group key member that is not selected (strings incl. \"\" and non-ASCII, a number, null, true, absent), optionally --unique, three styles; oracle: the documented grouping computed from the records (--unique over the whole stream first, rows that print as {} stay in their group); non-trivial = a row without any selected value, a duplicate row under another key, or a row dropped for its key");
    C09Key.run(ctx);
}

pub fn checks() -> Vec<Box<dyn DynCheck>> {
    vec![Box::new(C09Group), Box::new(C09Large), Box::new(C09Key)]
}
