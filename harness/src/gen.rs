//! JSON value generator and conforming serialiser with independent spellings (DESIGN §2.3).

use crate::rjson::RVal;
use proptest::collection::vec;
use proptest::prelude::*;
use serde::{Deserialize, Serialize};

/// Bytes that serialise as a reversible escaped string (readable replay files).
#[derive(Clone, Debug, PartialEq, Eq, Hash, Default)]
pub struct BytesS(pub Vec<u8>);
impl Serialize for BytesS {
    fn serialize<S: serde::Serializer>(&self, s: S) -> Result<S::Ok, S::Error> {
        s.serialize_str(&crate::runner::esc(&self.0))
    }
}
impl<'de> Deserialize<'de> for BytesS {
    fn deserialize<D: serde::Deserializer<'de>>(d: D) -> Result<Self, D::Error> {
        let s = String::deserialize(d)?;
        Ok(BytesS(unesc(&s)))
    }
}
pub fn unesc(s: &str) -> Vec<u8> {
    let b = s.as_bytes();
    let mut out = Vec::new();
    let mut i = 0;
    while i < b.len() {
        if b[i] == b'\\' && i + 1 < b.len() {
            match b[i + 1] {
                b'n' => {
                    out.push(b'\n');
                    i += 2;
                }
                b'r' => {
                    out.push(b'\r');
                    i += 2;
                }
                b't' => {
                    out.push(b'\t');
                    i += 2;
                }
                b'\\' => {
                    out.push(b'\\');
                    i += 2;
                }
                b'x' if i + 4 <= b.len() => {
                    let h = std::str::from_utf8(&b[i + 2..i + 4]).unwrap_or("00");
                    out.push(u8::from_str_radix(h, 16).unwrap_or(0));
                    i += 4;
                }
                _ => {
                    out.push(b[i]);
                    i += 1;
                }
            }
        } else {
            out.push(b[i]);
            i += 1;
        }
    }
    out
}

/// deterministic mixer used only to expand a *generated* u64 into spelling choices
#[derive(Clone)]
pub struct Mix(pub u64);
impl Mix {
    pub fn next(&mut self) -> u64 {
        self.0 = self.0.wrapping_add(0x9e3779b97f4a7c15);
        let mut z = self.0;
        z = (z ^ (z >> 30)).wrapping_mul(0xbf58476d1ce4e5b9);
        z = (z ^ (z >> 27)).wrapping_mul(0x94d049bb133111eb);
        z ^ (z >> 31)
    }
    pub fn below(&mut self, n: u64) -> u64 {
        if n == 0 {
            0
        } else {
            self.next() % n
        }
    }
    pub fn chance(&mut self, num: u64, den: u64) -> bool {
        self.below(den) < num
    }
}

/// exact decimal: value = (-1)^neg * digits * 10^exp ; digits has no leading zeros ("0" for zero)
#[derive(Clone, Debug, PartialEq, Eq, Hash, Serialize, Deserialize)]
pub struct Dec {
    pub neg: bool,
    pub digits: String,
    pub exp: i32,
}

impl Dec {
    pub fn int(i: i128) -> Dec {
        Dec { neg: i < 0, digits: i.unsigned_abs().to_string(), exp: 0 }
    }
    pub fn from_f64(f: f64) -> Dec {
        // shortest round-trip decimal of a finite double
        let s = format!("{:e}", f.abs());
        let (m, e) = s.split_once('e').unwrap();
        let e: i32 = e.parse().unwrap();
        let (ip, fp) = m.split_once('.').unwrap_or((m, ""));
        let mut digits = format!("{}{}", ip, fp);
        let exp = e - fp.len() as i32;
        while digits.len() > 1 && digits.starts_with('0') {
            digits.remove(0);
        }
        Dec { neg: f.is_sign_negative(), digits, exp }
    }
    pub fn is_zero(&self) -> bool {
        self.digits.bytes().all(|c| c == b'0')
    }
    /// canonical spelling: plain integer if it is one (and short), plain decimal if short, else exponent
    pub fn canonical(&self) -> String {
        let sign = if self.neg { "-" } else { "" };
        if self.exp >= 0 && self.digits.len() as i32 + self.exp <= 40 {
            if self.is_zero() {
                return format!("{}0", sign);
            }
            return format!("{}{}{}", sign, self.digits, "0".repeat(self.exp as usize));
        }
        if self.exp < 0 && self.exp >= -30 {
            return format!("{}{}", sign, plain_decimal(&self.digits, self.exp));
        }
        format!("{}{}e{}", sign, self.digits, self.exp)
    }
    /// a random conforming spelling of the same exact decimal
    pub fn spell(&self, level: u8, mix: &mut Mix) -> String {
        if level == 0 || !mix.chance(level as u64, 4) {
            return self.canonical();
        }
        let sign = if self.neg { "-" } else { "" };
        let mut digits = self.digits.clone();
        let mut exp = self.exp;
        // optionally strip / add trailing zeros in the mantissa
        match mix.below(4) {
            0 => {
                while digits.len() > 1 && digits.ends_with('0') {
                    digits.pop();
                    exp += 1;
                }
            }
            1 => {
                let k = mix.below(4) as i32;
                for _ in 0..k {
                    digits.push('0');
                }
                exp -= k;
            }
            _ => {}
        }
        let form = mix.below(5);
        if form == 0 && exp >= 0 && digits.len() as i32 + exp <= 40 {
            // integer digits followed by .0…
            let z = "0".repeat(1 + mix.below(3) as usize);
            return format!("{}{}{}.{}", sign, trim_lead(&digits), "0".repeat(exp as usize), z);
        }
        if form == 1 && exp < 0 && exp >= -80 {
            let mut s = plain_decimal(&digits, exp);
            for _ in 0..mix.below(3) {
                s.push('0');
            }
            return format!("{}{}", sign, s);
        }
        // exponent form with the point shifted `shift` places into the mantissa
        let shift = mix.below(digits.len() as u64 + 2) as i32; // digits after the point
        let e = exp + shift;
        let mant = if shift == 0 {
            trim_lead(&digits).to_string()
        } else {
            plain_decimal(&digits, -shift)
        };
        let ech = if mix.chance(1, 2) { 'e' } else { 'E' };
        let esign = if e < 0 {
            "-"
        } else if mix.chance(1, 3) {
            "+"
        } else {
            ""
        };
        let ezeros = "0".repeat(mix.below(3) as usize);
        format!("{}{}{}{}{}{}", sign, mant, ech, esign, ezeros, e.abs())
    }
}

fn trim_lead(d: &str) -> &str {
    let t = d.trim_start_matches('0');
    if t.is_empty() {
        "0"
    } else {
        t
    }
}

/// digits * 10^exp with exp < 0 as a plain decimal (at least one digit on each side)
fn plain_decimal(digits: &str, exp: i32) -> String {
    let k = (-exp) as usize;
    let d = digits;
    if d.len() > k {
        let ip = trim_lead(&d[..d.len() - k]);
        format!("{}.{}", ip, &d[d.len() - k..])
    } else {
        format!("0.{}{}", "0".repeat(k - d.len()), d)
    }
}

#[derive(Clone, Debug, PartialEq, Serialize, Deserialize)]
pub enum GVal {
    Null,
    Bool(bool),
    Num(Dec),
    Str(String),
    Arr(Vec<GVal>),
    Obj(Vec<(String, GVal)>),
}

#[derive(Clone, Copy, Debug, Serialize, Deserialize)]
pub struct Spelling {
    pub ws: u8,
    pub esc: u8,
    pub num: u8,
    pub seed: u64,
}
impl Spelling {
    pub const CANON: Spelling = Spelling { ws: 0, esc: 0, num: 0, seed: 0 };
}

pub fn arb_spelling() -> impl Strategy<Value = Spelling> {
    (0u8..=3, 0u8..=3, 0u8..=3, any::<u64>()).prop_map(|(ws, esc, num, seed)| Spelling { ws, esc, num, seed })
}

fn ws_run(level: u8, mix: &mut Mix, out: &mut String) {
    if level == 0 || !mix.chance(level as u64, 5) {
        return;
    }
    let n = 1 + mix.below(3);
    for _ in 0..n {
        out.push([' ', '\t', '\n', '\r'][mix.below(4) as usize]);
    }
}

pub fn spell_string(s: &str, level: u8, mix: &mut Mix, out: &mut String) {
    out.push('"');
    for ch in s.chars() {
        let c = ch as u32;
        let must = ch == '"' || ch == '\\' || c < 0x20;
        let short = match ch {
            '"' => Some("\\\""),
            '\\' => Some("\\\\"),
            '/' => Some("\\/"),
            '\u{8}' => Some("\\b"),
            '\u{c}' => Some("\\f"),
            '\n' => Some("\\n"),
            '\r' => Some("\\r"),
            '\t' => Some("\\t"),
            _ => None,
        };
        let want_escape = must || (level > 0 && mix.chance(level as u64, 8));
        if !want_escape {
            out.push(ch);
            continue;
        }
        if c > 0xFFFF {
            // no surrogate escapes in the domain: astral characters are always raw
            out.push(ch);
            continue;
        }
        let use_short = short.is_some() && (level == 0 || mix.chance(2, 3));
        if use_short {
            out.push_str(short.unwrap());
        } else {
            match if level == 0 { 0 } else { mix.below(3) } {
                0 => out.push_str(&format!("\\u{:04x}", c)),
                1 => out.push_str(&format!("\\u{:04X}", c)),
                _ => {
                    let h = format!("{:04x}", c);
                    out.push_str("\\u");
                    for d in h.chars() {
                        if mix.chance(1, 2) {
                            out.push(d.to_ascii_uppercase());
                        } else {
                            out.push(d);
                        }
                    }
                }
            }
        }
    }
    out.push('"');
}

pub fn spell_value(v: &GVal, sp: &Spelling, mix: &mut Mix, out: &mut String) {
    match v {
        GVal::Null => out.push_str("null"),
        GVal::Bool(true) => out.push_str("true"),
        GVal::Bool(false) => out.push_str("false"),
        GVal::Num(d) => out.push_str(&d.spell(sp.num, mix)),
        GVal::Str(s) => spell_string(s, sp.esc, mix, out),
        GVal::Arr(a) => {
            out.push('[');
            ws_run(sp.ws, mix, out);
            for (i, x) in a.iter().enumerate() {
                if i > 0 {
                    out.push(',');
                    ws_run(sp.ws, mix, out);
                }
                spell_value(x, sp, mix, out);
                ws_run(sp.ws, mix, out);
            }
            out.push(']');
        }
        GVal::Obj(o) => {
            out.push('{');
            ws_run(sp.ws, mix, out);
            for (i, (k, x)) in o.iter().enumerate() {
                if i > 0 {
                    out.push(',');
                    ws_run(sp.ws, mix, out);
                }
                spell_string(k, sp.esc, mix, out);
                ws_run(sp.ws, mix, out);
                out.push(':');
                ws_run(sp.ws, mix, out);
                spell_value(x, sp, mix, out);
                ws_run(sp.ws, mix, out);
            }
            out.push('}');
        }
    }
}

pub fn serialise(v: &GVal, sp: &Spelling) -> String {
    let mut mix = Mix(sp.seed);
    let mut out = String::new();
    spell_value(v, sp, &mut mix, &mut out);
    out
}

pub fn canonical(v: &GVal) -> String {
    serialise(v, &Spelling::CANON)
}

impl GVal {
    pub fn depth(&self) -> usize {
        match self {
            GVal::Arr(a) => 1 + a.iter().map(|x| x.depth()).max().unwrap_or(0),
            GVal::Obj(o) => 1 + o.iter().map(|x| x.1.depth()).max().unwrap_or(0),
            _ => 0,
        }
    }
    pub fn to_rval(&self) -> RVal {
        crate::rjson::parse_one(canonical(self).as_bytes()).expect("generator produced a non-conforming value")
    }
    pub fn any_str(&self, f: &dyn Fn(&str) -> bool) -> bool {
        match self {
            GVal::Str(s) => f(s),
            GVal::Arr(a) => a.iter().any(|x| x.any_str(f)),
            GVal::Obj(o) => o.iter().any(|(k, x)| f(k) || x.any_str(f)),
            _ => false,
        }
    }
    pub fn any_num(&self, f: &dyn Fn(&Dec) -> bool) -> bool {
        match self {
            GVal::Num(d) => f(d),
            GVal::Arr(a) => a.iter().any(|x| x.any_num(f)),
            GVal::Obj(o) => o.iter().any(|(_, x)| x.any_num(f)),
            _ => false,
        }
    }
}

pub fn has_astral(s: &str) -> bool {
    s.chars().any(|c| (c as u32) > 0xFFFF)
}

// ---------------------------------------------------------------- strategies

pub const SPECIAL_CHARS: &[char] = &[
    // both sides of every UTF-8 length boundary, and code points in between
    '\u{7ff}', '\u{800}', '\u{fff}', '\u{2000}', '\u{905}', '\u{e01}', '\u{fffe}',
    '\u{80}', '\u{e9}', '\u{2028}', '\u{2029}', '\u{d7ff}', '\u{e000}', '\u{ffff}', '\u{7f}', '\u{fffd}', '\u{5d0}', '\u{3042}',
];
pub const ASTRAL_CHARS: &[char] = &['\u{1f603}', '\u{10000}', '\u{10ffff}', '\u{d8000}', '\u{1d11e}'];

#[derive(Clone, Copy, Debug, PartialEq, Eq)]
pub enum CharSet {
    /// everything incl. astral
    Full,
    /// everything except astral (> U+FFFF)
    Bmp,
    /// printable ASCII only
    Ascii,
}

pub fn arb_char(set: CharSet) -> BoxedStrategy<char> {
    let ascii = prop_oneof![
        6 => (b'a'..=b'z').prop_map(|c| c as char),
        2 => (b'0'..=b'9').prop_map(|c| c as char),
        2 => (0x20u8..=0x7e).prop_map(|c| c as char),
        1 => Just(' '),
    ];
    match set {
        CharSet::Ascii => ascii.boxed(),
        CharSet::Bmp | CharSet::Full => {
            let astral_w = if set == CharSet::Full { 2 } else { 0 };
            prop_oneof![
                12 => ascii,
                3 => prop::sample::select(vec!['"', '\\', '/']),
                3 => (0u8..0x20).prop_map(|c| c as char),
                3 => prop::sample::select(SPECIAL_CHARS.to_vec()),
                astral_w => prop::sample::select(ASTRAL_CHARS.to_vec()),
                1 => any::<char>().prop_filter_map("bmp", move |c| if set == CharSet::Full || (c as u32) <= 0xFFFF { Some(c) } else { None }),
            ]
            .boxed()
        }
    }
}

pub fn arb_string(set: CharSet) -> BoxedStrategy<String> {
    prop_oneof![
        8 => vec(arb_char(set), 0..6).prop_map(|v| v.into_iter().collect::<String>()),
        2 => vec(arb_char(set), 6..40).prop_map(|v| v.into_iter().collect::<String>()),
        1 => Just(String::new()),
    ]
    .boxed()
}

pub fn arb_dec() -> BoxedStrategy<Dec> {
    let two63: i128 = 1i128 << 63;
    let two64: i128 = 1i128 << 64;
    let two53: i128 = 1i128 << 53;
    prop_oneof![
        6 => (-100i128..100).prop_map(Dec::int),
        3 => (0u32..64, -2i128..=2, any::<bool>()).prop_map(|(p, k, n)| { let v = (1i128 << p) + k; Dec::int(if n { -v } else { v }) }),
        3 => (-4i128..=4, any::<bool>()).prop_map(move |(k, n)| Dec::int(if n { -(two53 + k) } else { two53 + k })),
        3 => (0i128..=3).prop_map(move |k| Dec::int(-two63 + k)),
        3 => (0i128..=3).prop_map(move |k| Dec::int(two64 - 1 - k)),
        2 => (-2i128..=2).prop_map(move |k| Dec::int(two63 + k)),
        2 => any::<u64>().prop_map(|u| Dec::int(u as i128)),
        2 => any::<i64>().prop_map(|u| Dec::int(u as i128)),
        // beyond 64 bits: nearest double expected
        2 => (0i128..=3).prop_map(move |k| Dec::int(two64 + k)),
        1 => (0i128..=3).prop_map(move |k| Dec::int(-two63 - 1 - k)),
        2 => ("[1-9][0-9]{20,32}", any::<bool>()).prop_map(|(d, n)| Dec { neg: n, digits: d, exp: 0 }),
        // dyadic and short decimal fractions
        4 => (-100000i64..100000, 1i32..6).prop_map(|(m, s)| Dec { neg: m < 0, digits: m.unsigned_abs().to_string(), exp: -s }),
        // arbitrary finite doubles (shortest round-trip digits)
        4 => any::<u64>().prop_filter_map("finite", |b| { let f = f64::from_bits(b); if f.is_finite() { Some(Dec::from_f64(f)) } else { None } }),
        // extremes
        1 => prop::sample::select(vec![5e-324f64, 1.7976931348623157e308, -1.7976931348623157e308, 2.2250738585072014e-308, 4.9e-324, 1e22, 1e23, 9007199254740993.0, 0.1, 0.30000000000000004]).prop_map(Dec::from_f64),
        1 => Just(Dec { neg: true, digits: "0".into(), exp: 0 }),
        // long decimal expansions (more digits than a double holds) and underflow to zero
        1 => ("[1-9][0-9]{17,30}", -40i32..-1, any::<bool>()).prop_map(|(d, e, n)| Dec { neg: n, digits: d, exp: e }),
        1 => ("[1-9][0-9]{0,5}", -400i32..-330).prop_map(|(d, e)| Dec { neg: false, digits: d, exp: e }),
        // more than 32 digits after the point where the late digits decide the value: tiny numbers
        // in plain notation, and decimals just above / below the midpoint of two adjacent doubles
        1 => ("[1-9][0-9]{0,8}", -75i32..-33).prop_map(|(d, e)| Dec { neg: false, digits: d, exp: e }),
        1 => prop::sample::select(vec![
            ("100000000000000011102230246251565404236316680908203126", -53),
            ("100000000000000011102230246251565404236316680908203124", -53),
            ("1000000000000000055511151231257827021181583404541015625", -55),
            ("29999999999999998889776975374843459576368331909179687", -52),
            ("9007199254740992500000000000000000000000000000000000001", -39),
            ("179769313486231570814527423731704356798070567525844996598917476803157260780028538760589558632766878171540458953514382464234321326889464182768467546703537516986049910576551282076245490090389328944075868508455133942304583236903222948165808559332123348274797826204144723168738177180919299881250404026184124858368", 0),
        ]).prop_map(|(d, e)| Dec { neg: false, digits: d.to_string(), exp: e }),
        1 => ("[1-9][0-9]{0,5}", 0i32..300).prop_map(|(d, e)| Dec { neg: false, digits: d, exp: e }),
        // literals of 700..2000 characters (a digit buffer of any fixed size is exceeded): a late
        // digit that decides the rounding, a long run of zeros before an exponent, a long integer
        1 => (700usize..2000, 0u8..4, any::<bool>()).prop_map(|(n, k, neg)| match k {
            0 => Dec { neg, digits: format!("1{}1", "0".repeat(n)), exp: -(n as i32 + 1) },
            1 => Dec { neg, digits: format!("1{}", "0".repeat(n)), exp: -(n as i32) + 2 },
            2 => Dec { neg, digits: format!("10000000000000001110223024625156540423631668090820312{}1", "0".repeat(n)), exp: -(n as i32 + 53) },
            _ => Dec { neg, digits: format!("{}7", "123456789".repeat(n / 9)), exp: -((n / 9 * 9) as i32) + 5 },
        }),
    ]
    .boxed()
}

fn dedup_keys(mut o: Vec<(String, GVal)>) -> Vec<(String, GVal)> {
    let mut seen = std::collections::HashSet::new();
    o.retain(|(k, _)| seen.insert(k.clone()));
    o
}

pub fn arb_leaf(set: CharSet) -> BoxedStrategy<GVal> {
    prop_oneof![
        1 => Just(GVal::Null),
        2 => any::<bool>().prop_map(GVal::Bool),
        5 => arb_dec().prop_map(GVal::Num),
        5 => arb_string(set).prop_map(GVal::Str),
        1 => Just(GVal::Arr(vec![])),
        1 => Just(GVal::Obj(vec![])),
    ]
    .boxed()
}

pub fn arb_gval(set: CharSet, depth: u32, size: u32) -> BoxedStrategy<GVal> {
    arb_leaf(set)
        .prop_recursive(depth, size, 5, move |inner| {
            prop_oneof![
                3 => vec(inner.clone(), 0..5).prop_map(GVal::Arr),
                3 => vec((arb_string(set), inner), 0..5).prop_map(|o| GVal::Obj(dedup_keys(o))),
            ]
        })
        .boxed()
}

/// a small value wrapped in `levels` nested single-element arrays/objects
pub fn arb_deep(set: CharSet, lo: usize, hi: usize) -> BoxedStrategy<GVal> {
    (arb_gval(set, 1, 4), lo..=hi, any::<u64>())
        .prop_map(|(v, levels, bits)| {
            let inner = v.depth();
            let mut cur = v;
            let mut b = bits;
            for i in 0..levels.saturating_sub(inner) {
                if (b >> (i % 64)) & 1 == 0 {
                    cur = GVal::Arr(vec![cur]);
                } else {
                    cur = GVal::Obj(vec![("k".to_string(), cur)]);
                }
                if i % 64 == 63 {
                    b = b.rotate_left(7) ^ 0x5555;
                }
            }
            cur
        })
        .boxed()
}

/// One generated stream: the bytes, and the byte span + intended canonical text of every value.
#[derive(Clone, Debug, Serialize, Deserialize)]
pub struct Stream {
    pub bytes: BytesS,
    pub spans: Vec<(usize, usize)>,
    pub touching: usize,
}

pub fn can_touch(prev: &str, next: &str) -> bool {
    let p = *prev.as_bytes().last().unwrap();
    let n = next.as_bytes()[0];
    match p {
        b'"' | b']' | b'}' => true,
        b'e' | b'l' => true, // true false null
        b'0'..=b'9' => matches!(n, b'"' | b'[' | b'{' | b't' | b'f' | b'n' | b'-'),
        _ => false,
    }
}

/// Build a stream from value texts and per-gap choices.
/// gaps has len texts.len()+1 : (touch_if_legal, ws seed)
pub fn build_stream(texts: &[String], gaps: &[(bool, u64)]) -> Stream {
    let mut out: Vec<u8> = Vec::new();
    let mut spans = Vec::new();
    let mut touching = 0;
    let wsb = [b' ', b'\t', b'\n', b'\r'];
    let push_ws = |out: &mut Vec<u8>, seed: u64, min1: bool| {
        let mut m = Mix(seed);
        let n = if min1 { 1 + m.below(3) } else { m.below(3) };
        if n == 1 && m.chance(2, 3) {
            out.push(b'\n');
            return;
        }
        for _ in 0..n {
            out.push(wsb[m.below(4) as usize]);
        }
    };
    for (i, t) in texts.iter().enumerate() {
        let (touch, seed) = gaps.get(i).copied().unwrap_or((false, 1));
        if i == 0 {
            push_ws(&mut out, seed, false);
        } else if touch && can_touch(&texts[i - 1], t) {
            touching += 1;
        } else {
            push_ws(&mut out, seed, true);
        }
        let s = out.len();
        out.extend_from_slice(t.as_bytes());
        spans.push((s, out.len()));
    }
    if let Some((_, seed)) = gaps.get(texts.len()) {
        push_ws(&mut out, *seed, false);
    }
    Stream { bytes: BytesS(out), spans, touching }
}

pub fn arb_stream_texts(set: CharSet, max_len: usize) -> BoxedStrategy<Vec<String>> {
    let item = prop_oneof![
        10 => (arb_gval(set, 4, 24), arb_spelling()).prop_map(|(v, sp)| serialise(&v, &sp)),
        1 => (arb_deep(set, 30, 64), arb_spelling()).prop_map(|(v, sp)| serialise(&v, &sp)),
        // 1-byte and very short tokens that can touch
        3 => prop::sample::select(vec!["[]", "{}", "\"\"", "true", "null", "false", "1", "0", "-1", "\"a\"", "[[]]", "{\"\":{}}"]).prop_map(|s| s.to_string()),
    ];
    vec(item, 0..=max_len).boxed()
}

pub fn arb_stream(set: CharSet, max_len: usize) -> BoxedStrategy<Stream> {
    (arb_stream_texts(set, max_len), vec((prop::bool::weighted(0.35), any::<u64>()), max_len + 1))
        .prop_map(|(texts, gaps)| build_stream(&texts, &gaps))
        .boxed()
}

/// A stream with one huge value (70-300 KiB when printed) among small ones: buffers that are
/// reused between rows, size-triggered code paths, anything that only happens above 64 KiB.
pub fn arb_huge_value_stream() -> BoxedStrategy<Stream> {
    let huge = prop_oneof![
        (9000usize..30000, 0u8..4).prop_map(|(n, k)| match k {
            0 => format!("[{}0]", "12345678,".repeat(n)),
            1 => format!("\"{}\"", "abcdefghij".repeat(n)),
            3 => format!("\"{}\"", "a\u{e9}\u{65e5}\u{e9}\u{20ac}b\u{7ff}".repeat(n)),
            _ => format!("{{\"k\":[{}\"end\"]}}", "\"v\\u00e9\",".repeat(n)),
        }),
    ];
    let small = prop::sample::select(vec!["1", "\"a\"", "[1,2]", "{\"a\":null}", "true", "[]", "\"\\u00e9\""]).prop_map(|s| s.to_string());
    (vec(small.clone(), 0..3), huge, vec(small, 1..4), any::<u64>())
        .prop_map(|(before, h, after, seed)| {
            let mut texts = before;
            texts.push(h);
            texts.extend(after);
            let gaps: Vec<(bool, u64)> = (0..=texts.len()).map(|i| (false, seed.wrapping_add(i as u64))).collect();
            build_stream(&texts, &gaps)
        })
        .boxed()
}

/// Long streams (hundreds to thousands of values, 10-100 KiB): state that accumulates over
/// a run (counters, buffers refilled at block boundaries, caches) only shows on inputs far
/// longer than one buffer. The pool is dominated by long digit runs, strings with escapes
/// and small containers, so a block boundary falls inside every kind of token.
pub fn arb_long_stream() -> BoxedStrategy<Stream> {
    let pool = prop_oneof![
        4 => "[1-9][0-9]{12,17}",
        2 => "-[1-9][0-9]{5,17}",
        2 => "[1-9][0-9]{0,3}\\.[0-9]{3,12}",
        1 => "[1-9]\\.[0-9]{1,6}[eE][+-]?[0-9]{1,2}",
        3 => "[a-z \u{e9}\u{65e5}]{0,24}".prop_map(|t| { let mut o = String::new(); crate::rjson::write_json_string(&t, &mut o); o }),
        2 => "[a-z]{0,12}".prop_map(|t| format!("\"{}\\n\\u00e9\\\"{}\"", t, t)),
        // dense multi-byte text (2- and 3-byte characters at every alignment): a block boundary
        // of any size falls inside a character more often than not
        4 => "[a\u{e9}\u{7ff}\u{65e5}\u{20ac}\u{ffff}]{8,60}".prop_map(|t| format!("\"{}\"", t)),
        3 => Just("{}".to_string()),
        2 => Just("[]".to_string()),
        2 => "[a-z]{1,6}".prop_map(|k| format!("{{\"{}\":[1,{{\"x\":null}},\"y\"]}}", k)),
        1 => Just("true".to_string()),
        1 => Just("null".to_string()),
        1 => Just("[[[[{}]]]]".to_string()),
    ];
    (vec(pool, 4..40), vec((any::<u16>(), prop::bool::weighted(0.2), any::<u64>()), 200..3000))
        .prop_map(|(pool, picks)| {
            let texts: Vec<String> = picks.iter().map(|(p, _, _)| pool[crate::engine::pick_idx(*p, pool.len())].clone()).collect();
            let mut gaps: Vec<(bool, u64)> = picks.iter().map(|(_, t, s)| (*t, *s)).collect();
            gaps.push((false, 7));
            build_stream(&texts, &gaps)
        })
        .boxed()
}

#[cfg(test)]
mod tests {
    use super::*;
    use proptest::test_runner::{Config, TestRunner};
    #[test]
    fn spellings_denote_the_same_value() {
        let mut r = TestRunner::new(Config { cases: 3000, failure_persistence: None, ..Config::default() });
        r.run(&(arb_gval(CharSet::Full, 4, 24), arb_spelling()), |(v, sp)| {
            let a = crate::rjson::parse_one(canonical(&v).as_bytes()).unwrap();
            let t = serialise(&v, &sp);
            let b = crate::rjson::parse_one(t.as_bytes()).map_err(|e| TestCaseError::fail(format!("{} : {}", t, e)))?;
            // numerically identical: compare as f64 / exact
            prop_assert!(num_same(&a, &b), "{} vs {}", canonical(&v), t);
            Ok(())
        })
        .unwrap();
    }
    fn num_same(a: &RVal, b: &RVal) -> bool {
        match (a, b) {
            (RVal::Arr(x), RVal::Arr(y)) => x.len() == y.len() && x.iter().zip(y).all(|(p, q)| num_same(p, q)),
            (RVal::Obj(x), RVal::Obj(y)) => x.len() == y.len() && x.iter().zip(y).all(|(p, q)| p.0 == q.0 && num_same(&p.1, &q.1)),
            (p, q) if p.is_num() && q.is_num() => p.as_f64() == q.as_f64(),
            (RVal::Str(p), RVal::Str(q)) => p == q,
            (RVal::Null, RVal::Null) => true,
            (RVal::Bool(p), RVal::Bool(q)) => p == q,
            _ => false,
        }
    }
    #[test]
    fn bytes_roundtrip() {
        let b: Vec<u8> = (0..=255u8).collect();
        assert_eq!(unesc(&crate::runner::esc(&b)), b);
    }
}
