//! C14 --take stops reading.

use crate::engine::*;
use crate::runner::*;
use proptest::collection::vec;
use proptest::prelude::*;
use serde::{Deserialize, Serialize};
use serde_json::json;
use std::io::Write;
use std::sync::atomic::{AtomicBool, AtomicU64, Ordering};
use std::sync::Arc;

#[derive(Clone, Debug, Serialize, Deserialize)]
pub struct Case14 {
    /// finite prefix: value texts (qualifying or not)
    pub prefix: Vec<String>,
    pub set: bool,
    /// also predefine a macro (`--set @m=.n`); filter 3 uses it
    #[serde(default)]
    pub set_macro: bool,
    pub split: bool,
    /// 0 none, 1 (number? .n), 2 (not (= .n -1)), 3 (number? @m) with --set @m=.n
    pub filter: u8,
    /// 0 none, 1 one selection, 2 two selections
    pub select: u8,
    pub unique: bool,
    pub only_objects: bool,
    pub skip: u64,
    pub take: u64,
    /// read from a FIFO given as input file instead of stdin
    pub file: bool,
    /// number of elements in the `items` array of every value of the endless tail (1..=3)
    #[serde(default = "two")]
    pub tail_items: u8,
    /// 0 = endless qualifying values; 1 = endless line feeds; 2 = endless blanks and tabs (the
    /// rows must then come from the prefix)
    #[serde(default)]
    pub tail_kind: u8,
    /// with `file`: the prefix is a regular file given first, the endless part a FIFO given second
    #[serde(default)]
    pub two_files: bool,
}
fn two() -> u8 {
    2
}

/// one value of the endless tail; every `#` becomes the repetition counter
pub fn tail_text(items: u8) -> Vec<u8> {
    let els: Vec<String> = (1..=items.max(1)).map(|k| format!("{{\"n\":#,\"k\":{}}}", k)).collect();
    format!("{{\"n\":#,\"items\":[{}]}}\n", els.join(",")).into_bytes()
}

impl Case14 {
    pub fn args(&self) -> Vec<String> {
        let mut a = Vec::new();
        if self.set {
            a.push("--set=v=1".to_string());
        }
        if self.set_macro || self.filter == 3 {
            a.push("--set=@m=.n".to_string());
        }
        if self.split {
            a.push("--split-by=.items".to_string());
        }
        match self.filter {
            1 => a.push("--filter=(number? .n)".to_string()),
            2 => a.push("--filter=(not (= .n -1))".to_string()),
            3 => a.push("--filter=(number? @m)".to_string()),
            _ => {}
        }
        match self.select {
            1 => a.push("--select=.n=n".to_string()),
            2 => {
                a.push("--select=.n=n".to_string());
                a.push("--select=.k=k".to_string());
            }
            _ => {}
        }
        if self.unique {
            a.push("--unique".to_string());
        }
        if self.only_objects {
            a.push("--only-objects-and-arrays".to_string());
        }
        if self.skip > 0 {
            a.push(format!("--skip={}", self.skip));
        }
        a.push(format!("--take={}", self.take));
        a
    }
    fn stages_in_front(&self) -> usize {
        self.set as usize + self.split as usize + (self.filter != 0) as usize + (self.select != 0) as usize + self.unique as usize + self.only_objects as usize
    }
}

fn tmp_dir() -> std::path::PathBuf {
    let base = std::env::var("CARGO_TARGET_DIR").map(std::path::PathBuf::from).unwrap_or_else(|_| std::env::current_exe().unwrap().parent().unwrap().parent().unwrap().to_path_buf());
    let d = base.join("tmp").join(format!("{}", std::process::id()));
    let _ = std::fs::create_dir_all(&d);
    d
}

static FIFO_SEQ: AtomicU64 = AtomicU64::new(0);

/// run jawk on a FIFO fed by a writer thread; returns (outcome, bytes the writer got rid of, writer hit its budget)
fn run_fifo(args: &[String], first_file: Option<&[u8]>, prefix: &[u8], tail: &[u8], budget: u64) -> Result<(Outcome, u64, bool), String> {
    let path = tmp_dir().join(format!("fifo-{}-{:?}", FIFO_SEQ.fetch_add(1, Ordering::Relaxed), std::thread::current().id()).replace(['(', ')'], ""));
    let cpath = std::ffi::CString::new(path.to_str().unwrap()).unwrap();
    if unsafe { libc::mkfifo(cpath.as_ptr(), 0o600) } != 0 {
        return Err(format!("mkfifo {} failed", path.display()));
    }
    let cancel = Arc::new(AtomicBool::new(false));
    let written = Arc::new(AtomicU64::new(0));
    let over = Arc::new(AtomicBool::new(false));
    let writer = {
        let (cancel, written, over) = (cancel.clone(), written.clone(), over.clone());
        let prefix = prefix.to_vec();
        let tail = tail.to_vec();
        let cpath = cpath.clone();
        std::thread::spawn(move || {
            // non-blocking open until a reader shows up (or the run is over)
            let fd = loop {
                let fd = unsafe { libc::open(cpath.as_ptr(), libc::O_WRONLY | libc::O_NONBLOCK) };
                if fd >= 0 {
                    break fd;
                }
                if cancel.load(Ordering::SeqCst) {
                    return;
                }
                std::thread::sleep(std::time::Duration::from_micros(200));
            };
            // back to blocking writes
            unsafe {
                let fl = libc::fcntl(fd, libc::F_GETFL);
                libc::fcntl(fd, libc::F_SETFL, fl & !libc::O_NONBLOCK);
            }
            let mut f = unsafe { <std::fs::File as std::os::fd::FromRawFd>::from_raw_fd(fd) };
            let mut count = 0u64;
            let mut chunk: Vec<u8> = prefix;
            loop {
                if !chunk.is_empty() {
                    match f.write(&chunk) {
                        Ok(n) => {
                            written.fetch_add(n as u64, Ordering::SeqCst);
                            chunk.drain(..n);
                        }
                        Err(_) => return, // EPIPE: the reader went away
                    }
                    continue;
                }
                if written.load(Ordering::SeqCst) >= budget {
                    over.store(true, Ordering::SeqCst);
                    return; // closing the write end gives the reader EOF
                }
                chunk = expand_tail(&tail, count);
                count += 1;
            }
        })
    };
    let mut a = args.to_vec();
    let first_path = path.with_extension("first.json");
    if let Some(bytes) = first_file {
        let _ = std::fs::write(&first_path, bytes);
        a.push(first_path.to_str().unwrap().to_string());
    }
    a.push(path.to_str().unwrap().to_string());
    let out = run(&a, b"");
    let _ = std::fs::remove_file(&first_path);
    cancel.store(true, Ordering::SeqCst);
    let _ = writer.join();
    let _ = std::fs::remove_file(&path);
    Ok((out, written.load(Ordering::SeqCst), over.load(Ordering::SeqCst)))
}

pub struct C14Stop;
impl Check for C14Stop {
    type Case = Case14;
    fn name(&self) -> &'static str {
        "C14.stop"
    }
    fn cases(&self, tier: Tier) -> u64 {
        tier.pick(12_000, 300_000)
    }
    fn strategy(&self, _t: Tier) -> BoxedStrategy<Case14> {
        let pv = prop_oneof![
            4 => (0u32..5, 0u32..3).prop_map(|(n, k)| format!("{{\"n\":{},\"items\":[{{\"n\":{},\"k\":{}}}]}}", n, n, k)),
            1 => prop::sample::select(vec!["1", "\"s\"", "null", "[]", "{}", "{\"n\":-1,\"items\":[]}", "{\"items\":[1,2]}", "{\"n\":\"x\"}"]).prop_map(|s| s.to_string()),
        ];
        (vec(pv, 0..12), any::<[bool; 5]>(), 0u8..4, 0u8..3, 0u64..=3, 0u64..=5, prop::bool::weighted(0.2), 0u8..30)
            .prop_map(|(prefix, b, filter, select, skip, take, file, tail_items)| Case14 { prefix, set: b[0], set_macro: b[4], split: b[1], filter, select, unique: b[2], only_objects: b[3], skip, take, file, tail_items: 1 + tail_items % 3, tail_kind: [0, 0, 0, 1, 2][(tail_items / 3) as usize % 5], two_files: tail_items >= 15 })
            .boxed()
    }
    fn check(&self, case: &Case14) -> CaseResult {
        let args = case.args();
        let mut prefix = String::new();
        for p in &case.prefix {
            prefix.push_str(p);
            prefix.push('\n');
        }
        // every tail value yields at least one surviving row, so skip+take+2 of them are plenty
        let k = case.skip + case.take + 2;
        let tail = match case.tail_kind {
            1 => b"\n\n\n\n\n\n\n\n".to_vec(),
            2 => b" \t  \t \n ".to_vec(),
            _ => tail_text(case.tail_items),
        };
        let mut finite = prefix.clone().into_bytes();
        for i in 0..k {
            finite.extend_from_slice(&expand_tail(&tail, i));
        }
        let reference = run(&args, &finite);
        if !reference.res.is_ok() {
            return CaseResult::Discard(format!("pipeline fails on the finite input: {}", reference.res.short()));
        }
        if case.tail_kind != 0 {
            // nothing but blanks follows the prefix: jawk can only stop if the prefix alone fills the limit
            let rows = reference.stdout.iter().filter(|c| **c == b'\n').count() as u64;
            if case.take == 0 || rows < case.take {
                return CaseResult::Discard("the prefix does not fill the limit; reading on through endless blanks is legitimate".into());
            }
        }
        let slack: u64 = if case.file { 64 * 1024 + 64 * 1024 + 16 * 1024 } else { 64 * 1024 };
        let budget = finite.len() as u64 + slack;
        let (out, pulled, over) = if case.file {
            let r = if case.two_files { run_fifo(&args, Some(prefix.as_bytes()), b"", &tail, budget) } else { run_fifo(&args, None, prefix.as_bytes(), &tail, budget) };
            match r {
                Ok(x) => x,
                Err(e) => return CaseResult::Discard(e),
            }
        } else {
            let spec = RunSpec { args: args.clone(), stdin: prefix.clone().into_bytes(), endless_tail: Some((tail.clone(), budget)), ..Default::default() };
            let (o, x) = run_spec(&spec);
            let pulled = o.bytes_pulled;
            (o, pulled, x.over_budget)
        };
        let info = Info::new(case.stages_in_front() >= 1 && case.take >= 1)
            .class_if(case.split, "split_in_front")
            .class_if(case.select != 0, "select_in_front")
            .class_if(case.filter != 0, "filter_in_front")
            .class_if(case.unique, "unique_in_front")
            .class_if(case.set, "set_in_front")
            .class_if(case.only_objects, "only_objects")
            .class_if(case.file, "fifo_file")
            .class_if(case.file && case.two_files, "regular_file_then_fifo")
            .class_if(case.take == 0, "take_0")
            .class_if(case.split && case.tail_items == 1, "split_single_element_arrays")
            .class_if(case.tail_kind != 0, "endless_blanks_after_the_last_row")
            .obs(json!({"bytes_pulled": pulled, "finite_reference_len": finite.len(), "stdout": esc_trunc(&out.stdout, 200)}));
        if over {
            return CaseResult::Fail(format!(
                "jawk did not stop reading: {} bytes pulled from an endless {} although {} rows had been emitted within the first {} bytes (args {:?})",
                pulled,
                if case.file { "FIFO" } else { "stdin" },
                case.take,
                finite.len(),
                args
            ));
        }
        if !out.res.is_ok() {
            return CaseResult::Fail(format!("run on the endless input failed: {}", out.res.short()));
        }
        if out.stdout != reference.stdout {
            return CaseResult::Fail(format!("rows differ from the run on the finite input: {} vs {}", esc_trunc(&out.stdout, 300), esc_trunc(&reference.stdout, 300)));
        }
        CaseResult::Pass(info)
    }
}

pub fn run_all(ctx: &mut Ctx) {
    ctx.rule = "skip 0..3, take 0..5 x any subset of --set/--split-by/--filter/--select/--unique/--only-objects-and-arrays x a generated finite prefix followed by an endless stream of qualifying values (each carries a fresh counter, is an object, passes the filter and splits into 1, 2 or 3 elements); stdin (instrumented reader, byte-exact count) or a FIFO given as input file (writer thread counts until EPIPE), or the prefix as a regular file followed by the FIFO as a second file. Oracle: jawk must return Ok with exactly the rows of the finite reference run and must have pulled < len(prefix + (skip+take+2) tail values) + 64 KiB (+ pipe/BufReader capacity for the FIFO); reaching that budget = did not stop. non-trivial = at least one stage in front of the limiter and take >= 1".into();
    ctx.assumptions = vec!["termination is checked as a byte budget, not with a clock".into()];
    C14Stop.run(ctx);
    let _ = std::fs::remove_dir_all(tmp_dir());
}

pub fn checks() -> Vec<Box<dyn DynCheck>> {
    vec![Box::new(C14Stop)]
}
