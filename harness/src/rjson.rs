//! Strict RFC 8259 reader, independent of jawk (the "independent parser" of DESIGN §2.2).
//! Rejects raw control characters, leading zeros, `1.`, `.5`, bad escapes, lone surrogates,
//! invalid UTF-8. Yields `RVal` plus (optionally) the token stream including whitespace.

use serde::{Deserialize, Serialize};

#[derive(Clone, Debug, Serialize, Deserialize)]
pub enum RVal {
    Null,
    Bool(bool),
    /// literal without fraction/exponent that fits [-2^63, 2^64)
    Int(i128),
    Float(f64),
    Str(String),
    Arr(Vec<RVal>),
    Obj(Vec<(String, RVal)>),
}

#[derive(Clone, Copy, Debug, PartialEq, Eq)]
pub enum TokKind {
    Ws,
    LBrace,
    RBrace,
    LBracket,
    RBracket,
    Comma,
    Colon,
    Scalar,
    Key,
}

#[derive(Clone, Copy, Debug)]
pub struct Tok {
    pub kind: TokKind,
    pub start: usize,
    pub end: usize,
}

pub const I_MIN: i128 = -(1i128 << 63);
pub const I_MAX: i128 = (1i128 << 64) - 1;

pub struct P<'a> {
    pub b: &'a [u8],
    pub pos: usize,
    pub toks: Option<Vec<Tok>>,
    pub max_depth: usize,
}

pub type PResult<T> = Result<T, String>;

impl<'a> P<'a> {
    pub fn new(b: &'a [u8]) -> Self {
        P { b, pos: 0, toks: None, max_depth: 0 }
    }
    pub fn with_tokens(b: &'a [u8]) -> Self {
        P { b, pos: 0, toks: Some(Vec::new()), max_depth: 0 }
    }
    fn tok(&mut self, kind: TokKind, start: usize) {
        let end = self.pos;
        if let Some(t) = self.toks.as_mut() {
            t.push(Tok { kind, start, end });
        }
    }
    pub fn ws(&mut self) {
        let s = self.pos;
        while self.pos < self.b.len() && matches!(self.b[self.pos], b' ' | b'\t' | b'\n' | b'\r') {
            self.pos += 1;
        }
        if self.pos > s {
            self.tok(TokKind::Ws, s);
        }
    }
    fn err<T>(&self, m: &str) -> PResult<T> {
        Err(format!("{} at byte {}", m, self.pos))
    }
    pub fn value(&mut self, depth: usize) -> PResult<RVal> {
        if depth > self.max_depth {
            self.max_depth = depth;
        }
        if depth > 512 {
            return self.err("too deep");
        }
        if self.pos >= self.b.len() {
            return self.err("unexpected end");
        }
        let s = self.pos;
        match self.b[self.pos] {
            b'n' => self.lit(b"null", RVal::Null),
            b't' => self.lit(b"true", RVal::Bool(true)),
            b'f' => self.lit(b"false", RVal::Bool(false)),
            b'"' => {
                let st = self.string()?;
                self.tok(TokKind::Scalar, s);
                Ok(RVal::Str(st))
            }
            b'-' | b'0'..=b'9' => {
                let v = self.number()?;
                self.tok(TokKind::Scalar, s);
                Ok(v)
            }
            b'[' => {
                self.pos += 1;
                self.tok(TokKind::LBracket, s);
                self.ws();
                let mut items = Vec::new();
                if self.peek() == Some(b']') {
                    let s2 = self.pos;
                    self.pos += 1;
                    self.tok(TokKind::RBracket, s2);
                    return Ok(RVal::Arr(items));
                }
                loop {
                    items.push(self.value(depth + 1)?);
                    self.ws();
                    let s2 = self.pos;
                    match self.peek() {
                        Some(b',') => {
                            self.pos += 1;
                            self.tok(TokKind::Comma, s2);
                            self.ws();
                        }
                        Some(b']') => {
                            self.pos += 1;
                            self.tok(TokKind::RBracket, s2);
                            return Ok(RVal::Arr(items));
                        }
                        _ => return self.err("expected , or ]"),
                    }
                }
            }
            b'{' => {
                self.pos += 1;
                self.tok(TokKind::LBrace, s);
                self.ws();
                let mut items: Vec<(String, RVal)> = Vec::new();
                if self.peek() == Some(b'}') {
                    let s2 = self.pos;
                    self.pos += 1;
                    self.tok(TokKind::RBrace, s2);
                    return Ok(RVal::Obj(items));
                }
                loop {
                    if self.peek() != Some(b'"') {
                        return self.err("expected member name");
                    }
                    let ks = self.pos;
                    let k = self.string()?;
                    self.tok(TokKind::Key, ks);
                    self.ws();
                    let cs = self.pos;
                    if self.peek() != Some(b':') {
                        return self.err("expected :");
                    }
                    self.pos += 1;
                    self.tok(TokKind::Colon, cs);
                    self.ws();
                    let v = self.value(depth + 1)?;
                    items.push((k, v));
                    self.ws();
                    let s2 = self.pos;
                    match self.peek() {
                        Some(b',') => {
                            self.pos += 1;
                            self.tok(TokKind::Comma, s2);
                            self.ws();
                        }
                        Some(b'}') => {
                            self.pos += 1;
                            self.tok(TokKind::RBrace, s2);
                            return Ok(RVal::Obj(items));
                        }
                        _ => return self.err("expected , or }"),
                    }
                }
            }
            _ => self.err("unexpected byte"),
        }
    }
    fn peek(&self) -> Option<u8> {
        self.b.get(self.pos).copied()
    }
    fn lit(&mut self, w: &[u8], v: RVal) -> PResult<RVal> {
        let s = self.pos;
        if self.b.len() >= self.pos + w.len() && &self.b[self.pos..self.pos + w.len()] == w {
            self.pos += w.len();
            self.tok(TokKind::Scalar, s);
            Ok(v)
        } else {
            self.err("bad literal")
        }
    }
    fn hex4(&mut self) -> PResult<u32> {
        if self.pos + 4 > self.b.len() {
            return self.err("short \\u escape");
        }
        let mut v = 0u32;
        for i in 0..4 {
            let c = self.b[self.pos + i];
            let d = match c {
                b'0'..=b'9' => c - b'0',
                b'a'..=b'f' => c - b'a' + 10,
                b'A'..=b'F' => c - b'A' + 10,
                _ => return self.err("bad hex digit in \\u escape"),
            };
            v = (v << 4) | d as u32;
        }
        self.pos += 4;
        Ok(v)
    }
    fn string(&mut self) -> PResult<String> {
        // at opening quote
        self.pos += 1;
        let mut out: Vec<u8> = Vec::new();
        loop {
            let Some(c) = self.peek() else { return self.err("unterminated string") };
            match c {
                b'"' => {
                    self.pos += 1;
                    return String::from_utf8(out).or_else(|_| self.err("invalid utf-8 in string"));
                }
                b'\\' => {
                    self.pos += 1;
                    let Some(e) = self.peek() else { return self.err("unterminated escape") };
                    self.pos += 1;
                    match e {
                        b'"' => out.push(b'"'),
                        b'\\' => out.push(b'\\'),
                        b'/' => out.push(b'/'),
                        b'b' => out.push(8),
                        b'f' => out.push(12),
                        b'n' => out.push(b'\n'),
                        b'r' => out.push(b'\r'),
                        b't' => out.push(b'\t'),
                        b'u' => {
                            let mut cp = self.hex4()?;
                            if (0xD800..0xDC00).contains(&cp) {
                                if self.peek() == Some(b'\\') && self.b.get(self.pos + 1) == Some(&b'u') {
                                    self.pos += 2;
                                    let lo = self.hex4()?;
                                    if !(0xDC00..0xE000).contains(&lo) {
                                        return self.err("lone high surrogate");
                                    }
                                    cp = 0x10000 + ((cp - 0xD800) << 10) + (lo - 0xDC00);
                                } else {
                                    return self.err("lone high surrogate");
                                }
                            } else if (0xDC00..0xE000).contains(&cp) {
                                return self.err("lone low surrogate");
                            }
                            let ch = char::from_u32(cp).ok_or_else(|| "bad code point".to_string())?;
                            let mut buf = [0u8; 4];
                            out.extend_from_slice(ch.encode_utf8(&mut buf).as_bytes());
                        }
                        _ => return self.err("unknown escape"),
                    }
                }
                0..=0x1f => return self.err("raw control character in string"),
                _ => {
                    out.push(c);
                    self.pos += 1;
                }
            }
        }
    }
    fn number(&mut self) -> PResult<RVal> {
        let s = self.pos;
        if self.peek() == Some(b'-') {
            self.pos += 1;
        }
        match self.peek() {
            Some(b'0') => {
                self.pos += 1;
                if matches!(self.peek(), Some(b'0'..=b'9')) {
                    return self.err("leading zero");
                }
            }
            Some(b'1'..=b'9') => {
                while matches!(self.peek(), Some(b'0'..=b'9')) {
                    self.pos += 1;
                }
            }
            _ => return self.err("digit expected"),
        }
        let mut integral = true;
        if self.peek() == Some(b'.') {
            integral = false;
            self.pos += 1;
            if !matches!(self.peek(), Some(b'0'..=b'9')) {
                return self.err("digit expected after .");
            }
            while matches!(self.peek(), Some(b'0'..=b'9')) {
                self.pos += 1;
            }
        }
        if matches!(self.peek(), Some(b'e' | b'E')) {
            integral = false;
            self.pos += 1;
            if matches!(self.peek(), Some(b'+' | b'-')) {
                self.pos += 1;
            }
            if !matches!(self.peek(), Some(b'0'..=b'9')) {
                return self.err("digit expected in exponent");
            }
            while matches!(self.peek(), Some(b'0'..=b'9')) {
                self.pos += 1;
            }
        }
        let txt = std::str::from_utf8(&self.b[s..self.pos]).unwrap();
        if integral && txt.len() <= 40 {
            if let Ok(i) = txt.parse::<i128>() {
                if (I_MIN..=I_MAX).contains(&i) {
                    return Ok(RVal::Int(i));
                }
            }
        }
        match txt.parse::<f64>() {
            Ok(f) if f.is_finite() => Ok(RVal::Float(f)),
            Ok(_) => self.err("number outside the finite double range"),
            Err(_) => self.err("unparsable number"),
        }
    }
}

/// Parse exactly one JSON text (surrounding whitespace allowed).
pub fn parse_one(b: &[u8]) -> PResult<RVal> {
    let mut p = P::new(b);
    p.ws();
    let v = p.value(0)?;
    p.ws();
    if p.pos != b.len() {
        return p.err("trailing bytes");
    }
    Ok(v)
}

/// Parse a stream of concatenated JSON texts separated by optional whitespace.
/// Returns the values with the byte span of each and the max nesting depth seen.
pub fn parse_stream(b: &[u8]) -> PResult<Vec<(RVal, usize, usize)>> {
    let mut p = P::new(b);
    let mut out = Vec::new();
    loop {
        p.ws();
        if p.pos >= b.len() {
            return Ok(out);
        }
        let s = p.pos;
        let v = p.value(0)?;
        out.push((v, s, p.pos));
    }
}

/// Split `out` into rows: each row is one strict JSON text starting exactly at the current
/// position and followed by exactly `sep`. Returns (value, start, end) per row.
pub fn split_rows(out: &[u8], sep: &[u8]) -> PResult<Vec<(RVal, usize, usize)>> {
    let mut p = P::new(out);
    let mut rows = Vec::new();
    while p.pos < out.len() {
        let s = p.pos;
        let v = p.value(0).map_err(|e| format!("row {}: {}", rows.len(), e))?;
        let e = p.pos;
        if out.len() < e + sep.len() || &out[e..e + sep.len()] != sep {
            return Err(format!("row {} is not followed by the row separator at byte {}", rows.len(), e));
        }
        p.pos = e + sep.len();
        rows.push((v, s, e));
    }
    Ok(rows)
}

pub fn tokens(b: &[u8]) -> PResult<(RVal, Vec<Tok>)> {
    let mut p = P::with_tokens(b);
    let v = p.value(0)?;
    if p.pos != b.len() {
        return p.err("trailing bytes");
    }
    Ok((v, p.toks.take().unwrap()))
}

impl RVal {
    pub fn depth(&self) -> usize {
        match self {
            RVal::Arr(a) => 1 + a.iter().map(|x| x.depth()).max().unwrap_or(0),
            RVal::Obj(o) => 1 + o.iter().map(|x| x.1.depth()).max().unwrap_or(0),
            _ => 0,
        }
    }
    pub fn type_rank(&self) -> u8 {
        match self {
            RVal::Null => 0,
            RVal::Bool(false) => 1,
            RVal::Bool(true) => 2,
            RVal::Str(_) => 3,
            RVal::Int(_) | RVal::Float(_) => 4,
            RVal::Obj(_) => 5,
            RVal::Arr(_) => 6,
        }
    }
    pub fn is_num(&self) -> bool {
        matches!(self, RVal::Int(_) | RVal::Float(_))
    }
    pub fn as_f64(&self) -> Option<f64> {
        match self {
            RVal::Int(i) => Some(*i as f64),
            RVal::Float(f) => Some(*f),
            _ => None,
        }
    }
    pub fn get(&self, k: &str) -> Option<&RVal> {
        match self {
            RVal::Obj(o) => o.iter().find(|(n, _)| n == k).map(|x| &x.1),
            _ => None,
        }
    }
    /// canonical concise JSON text (ASCII-only, `\uXXXX` with surrogate pairs) for this value.
    pub fn to_json(&self) -> String {
        let mut s = String::new();
        self.write_json(&mut s);
        s
    }
    pub fn write_json(&self, s: &mut String) {
        match self {
            RVal::Null => s.push_str("null"),
            RVal::Bool(b) => s.push_str(if *b { "true" } else { "false" }),
            RVal::Int(i) => s.push_str(&i.to_string()),
            RVal::Float(f) => s.push_str(&fmt_f64(*f)),
            RVal::Str(x) => write_json_string(x, s),
            RVal::Arr(a) => {
                s.push('[');
                for (i, x) in a.iter().enumerate() {
                    if i > 0 {
                        s.push(',');
                    }
                    x.write_json(s);
                }
                s.push(']');
            }
            RVal::Obj(o) => {
                s.push('{');
                for (i, (k, v)) in o.iter().enumerate() {
                    if i > 0 {
                        s.push(',');
                    }
                    write_json_string(k, s);
                    s.push(':');
                    v.write_json(s);
                }
                s.push('}');
            }
        }
    }
}

pub fn fmt_f64(f: f64) -> String {
    // shortest round trip, JSON-legal
    if f == 0.0 {
        return "0".to_string();
    }
    let s = format!("{:e}", f);
    // Rust prints e.g. 1.5e3, 5e-324 : legal JSON number already
    s
}

pub fn write_json_string(x: &str, s: &mut String) {
    s.push('"');
    for ch in x.chars() {
        match ch {
            '"' => s.push_str("\\\""),
            '\\' => s.push_str("\\\\"),
            '\n' => s.push_str("\\n"),
            '\r' => s.push_str("\\r"),
            '\t' => s.push_str("\\t"),
            c if (' '..='~').contains(&c) => s.push(c),
            c => {
                let mut buf = [0u16; 2];
                for u in c.encode_utf16(&mut buf) {
                    s.push_str(&format!("\\u{:04x}", u));
                }
            }
        }
    }
    s.push('"');
}

/// does the text contain a `\uD800`-`\uDFFF` escape (the quantifiers of C01/C02 exclude them:
/// jawk has no surrogate pairs - the same root as the known finding astral-escape-5hex)
pub fn has_surrogate_escape(b: &[u8]) -> bool {
    let mut i = 0;
    while i + 5 < b.len() {
        if b[i] == b'\\' {
            if b[i + 1] == b'u' && (b[i + 2] == b'd' || b[i + 2] == b'D') && matches!(b[i + 3], b'8' | b'9' | b'a' | b'b' | b'c' | b'd' | b'e' | b'f' | b'A' | b'B' | b'C' | b'D' | b'E' | b'F') {
                return true;
            }
            i += 2;
            continue;
        }
        i += 1;
    }
    false
}

/// JSON string with raw UTF-8 (only the mandatory escapes)
pub fn write_json_string_utf8(x: &str, s: &mut String) {
    s.push('"');
    for ch in x.chars() {
        match ch {
            '"' => s.push_str("\\\""),
            '\\' => s.push_str("\\\\"),
            '\n' => s.push_str("\\n"),
            '\r' => s.push_str("\\r"),
            '\t' => s.push_str("\\t"),
            c if (c as u32) < 0x20 => s.push_str(&format!("\\u{:04x}", c as u32)),
            c => s.push(c),
        }
    }
    s.push('"');
}

/// Value equality as C01 states it: same structure and member order, strings code point for
/// code point, integers in [-2^63, 2^64) exactly, every other number as the nearest double
/// (-0 == 0). `exp` is what the input denotes, `got` what the output row denotes.
pub fn same_value(exp: &RVal, got: &RVal) -> bool {
    match (exp, got) {
        (RVal::Null, RVal::Null) => true,
        (RVal::Bool(a), RVal::Bool(b)) => a == b,
        (RVal::Str(a), RVal::Str(b)) => a == b,
        (RVal::Arr(a), RVal::Arr(b)) => a.len() == b.len() && a.iter().zip(b).all(|(x, y)| same_value(x, y)),
        (RVal::Obj(a), RVal::Obj(b)) => {
            a.len() == b.len() && a.iter().zip(b).all(|((k1, v1), (k2, v2))| k1 == k2 && same_value(v1, v2))
        }
        (a, b) if a.is_num() && b.is_num() => same_number(a, b),
        _ => false,
    }
}

pub fn same_number(exp: &RVal, got: &RVal) -> bool {
    match (exp, got) {
        (RVal::Int(a), RVal::Int(b)) => a == b,
        // integer expected, output spelled with fraction/exponent: must denote exactly it
        (RVal::Int(a), RVal::Float(f)) => f.fract() == 0.0 && f.abs() < 9.007199254740992e15 && (*f as i128) == *a,
        // the nearest double expected, the row holds an integer literal of the 64-bit range: such a
        // literal denotes exactly that integer (the property's own value notion), so it must BE the
        // double - 18446744073709551615 is not 2^64 although it rounds to it
        (RVal::Float(f), RVal::Int(b)) => (*b as f64) == *f && f.fract() == 0.0 && f.abs() < 3.5e38 && (*f as i128) == *b,
        (RVal::Float(a), RVal::Float(b)) => a == b,
        _ => false,
    }
}

/// Numeric/structural equality used where the documentation says "equal" (1 = 1.0 = 1e0).
/// Objects compared with member order (callers that need order-insensitivity say so).
pub fn loosely_equal(a: &RVal, b: &RVal) -> bool {
    match (a, b) {
        (RVal::Null, RVal::Null) => true,
        (RVal::Bool(a), RVal::Bool(b)) => a == b,
        (RVal::Str(a), RVal::Str(b)) => a == b,
        (RVal::Arr(a), RVal::Arr(b)) => a.len() == b.len() && a.iter().zip(b).all(|(x, y)| loosely_equal(x, y)),
        (RVal::Obj(a), RVal::Obj(b)) => {
            a.len() == b.len() && a.iter().zip(b).all(|((k1, v1), (k2, v2))| k1 == k2 && loosely_equal(v1, v2))
        }
        (RVal::Int(a), RVal::Int(b)) => a == b,
        (RVal::Int(a), RVal::Float(f)) | (RVal::Float(f), RVal::Int(a)) => {
            f.fract() == 0.0 && f.abs() < 1.9e19 && (*f as i128) == *a && ((*a as f64) == *f)
        }
        (RVal::Float(a), RVal::Float(b)) => a == b,
        _ => false,
    }
}

#[cfg(test)]
mod tests {
    use super::*;
    #[test]
    fn rejects() {
        for bad in ["01", "1.", ".5", "\"\\x\"", "\"\u{1}\"", "\"\\ud800\"", "[1,]", "{\"a\":1,}", "1e", "-", "tru", "\"\\u1f603\"x"] {
            assert!(parse_one(bad.as_bytes()).is_err(), "{bad}");
        }
        assert!(parse_one(b"\"\\u1f603\"").is_ok()); // U+1F60 followed by '3': valid but a different string
    }
    #[test]
    fn accepts() {
        let v = parse_one(b" {\"a\" : [1, 2.5e0, \"\\ud83d\\ude03\"], \"b\":{}} ").unwrap();
        assert_eq!(v.to_json(), "{\"a\":[1,2.5e0,\"\\ud83d\\ude03\"],\"b\":{}}");
    }
}
