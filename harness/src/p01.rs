//! C01 Stream fidelity.

use crate::engine::*;
use crate::gen::*;
use crate::rjson::*;
use crate::runner::*;
use proptest::prelude::*;
use serde::{Deserialize, Serialize};
use serde_json::json;

#[derive(Clone, Debug, Serialize, Deserialize)]
pub struct Case01 {
    pub input: BytesS,
    #[serde(default)]
    pub touching: usize,
}

pub struct C01Stream;

/// Rewrite jawk's known 5/6-hex-digit `\u` escape for each astral character of `astral`
/// into the raw character (known finding astral-escape-5hex). Returns None if nothing changed.
pub fn astral_rewrite(text: &[u8], astral: &[char]) -> Option<Vec<u8>> {
    let mut cs: Vec<char> = astral.to_vec();
    cs.sort_by_key(|c| std::cmp::Reverse(*c as u32));
    cs.dedup();
    let mut cur = text.to_vec();
    let mut changed = false;
    for c in cs {
        let pat = format!("\\u{:04x}", c as u32).into_bytes();
        let mut rep = [0u8; 4];
        let rep = c.encode_utf8(&mut rep).as_bytes().to_vec();
        let mut out = Vec::with_capacity(cur.len());
        let mut i = 0;
        while i < cur.len() {
            if cur[i..].starts_with(&pat) {
                // an escaped backslash before `u` is not an escape: count preceding backslashes
                let mut k = 0;
                while i >= k + 1 && cur[i - k - 1] == b'\\' {
                    k += 1;
                }
                if k % 2 == 0 {
                    out.extend_from_slice(&rep);
                    i += pat.len();
                    changed = true;
                    continue;
                }
            }
            out.push(cur[i]);
            i += 1;
        }
        cur = out;
    }
    if changed {
        Some(cur)
    } else {
        None
    }
}

pub fn astral_chars_of(vals: &[RVal]) -> Vec<char> {
    fn walk(v: &RVal, out: &mut Vec<char>) {
        match v {
            RVal::Str(s) => out.extend(s.chars().filter(|c| (*c as u32) > 0xFFFF)),
            RVal::Arr(a) => a.iter().for_each(|x| walk(x, out)),
            RVal::Obj(o) => o.iter().for_each(|(k, x)| {
                out.extend(k.chars().filter(|c| (*c as u32) > 0xFFFF));
                walk(x, out)
            }),
            _ => {}
        }
    }
    let mut out = Vec::new();
    for v in vals {
        walk(v, &mut out);
    }
    out.sort();
    out.dedup();
    out
}

fn compare_rows(exp: &[RVal], stdout: &[u8]) -> Result<(), String> {
    let rows = split_rows(stdout, b"\n").map_err(|e| format!("stdout is not a sequence of `row LF`: {}", e))?;
    if rows.len() != exp.len() {
        return Err(format!("{} input values but {} output rows", exp.len(), rows.len()));
    }
    for (i, (e, (g, s, t))) in exp.iter().zip(rows.iter()).enumerate() {
        if !same_value(e, g) {
            return Err(format!("row {} denotes a different value: expected {} got {}", i, trunc(&e.to_json(), 200), esc_trunc(&stdout[*s..*t], 200)));
        }
    }
    Ok(())
}

fn number_tokens_noncanonical(b: &[u8]) -> (bool, bool, bool) {
    // (non-canonical number spelling, upper-case exponent, escape spelling) by a light scan outside/inside strings
    let mut in_str = false;
    let mut i = 0;
    let (mut noncanon, mut upper, mut escapes) = (false, false, false);
    while i < b.len() {
        let c = b[i];
        if in_str {
            if c == b'\\' {
                if matches!(b.get(i + 1), Some(b'u') | Some(b'/')) {
                    escapes = true;
                }
                i += 2;
                continue;
            }
            if c == b'"' {
                in_str = false;
            }
        } else {
            match c {
                b'"' => in_str = true,
                b'E' => {
                    upper = true;
                    noncanon = true;
                }
                b'e' if i > 0 && b[i - 1].is_ascii_digit() => noncanon = true,
                b'.' => noncanon = true,
                _ => {}
            }
        }
        i += 1;
    }
    (noncanon, upper, escapes)
}

fn has_boundary_int(v: &RVal) -> bool {
    match v {
        RVal::Int(i) => i.unsigned_abs() >= (1u128 << 53),
        RVal::Arr(a) => a.iter().any(has_boundary_int),
        RVal::Obj(o) => o.iter().any(|x| has_boundary_int(&x.1)),
        _ => false,
    }
}

impl Check for C01Stream {
    type Case = Case01;
    fn name(&self) -> &'static str {
        "C01.stream"
    }
    fn cases(&self, tier: Tier) -> u64 {
        tier.pick(40_000, 1_000_000)
    }
    fn strategy(&self, _tier: Tier) -> BoxedStrategy<Case01> {
        // astral characters hit the known finding astral-escape-5hex; keep them to a minority of streams
        prop_oneof![
            60 => arb_stream(CharSet::Bmp, 40),
            30 => arb_stream(CharSet::Bmp, 6),
            10 => arb_stream(CharSet::Full, 8),
            3 => arb_long_stream(),
            1 => arb_huge_value_stream(),
        ]
        .prop_map(|s| Case01 { input: s.bytes, touching: s.touching })
        .boxed()
    }
    fn check(&self, case: &Case01) -> CaseResult {
        let input = &case.input.0;
        let exp = match parse_stream(input) {
            Ok(v) => v,
            Err(e) => return CaseResult::Discard(format!("input is not a conforming stream: {}", e)),
        };
        let exp_vals: Vec<RVal> = exp.iter().map(|x| x.0.clone()).collect();
        let depth = exp_vals.iter().map(|v| v.depth()).max().unwrap_or(0);
        if depth > 64 {
            return CaseResult::Discard("nesting > 64".into());
        }
        if has_surrogate_escape(input) {
            return CaseResult::Discard("\\uD800-\\uDFFF escape (outside the property's domain)".into());
        }
        let out = match run_any_sink(&[], input) {
            Ok(o) => o,
            Err(m) => return CaseResult::Fail(m),
        };
        let (noncanon, upper, escapes) = number_tokens_noncanonical(input);
        let info = Info::new(exp.len() >= 2 && (noncanon || escapes || case.touching > 0 || depth >= 3))
            .class_if(upper, "upper_case_exponent")
            .class_if(escapes, "u_or_slash_escape")
            .class_if(case.touching > 0, "touching_tokens")
            .class_if(exp_vals.iter().any(has_boundary_int), "int_beyond_2^53")
            .class_if(depth >= 32, "depth>=32")
            .class_if(exp.is_empty(), "empty_stream")
            .class_if(input.len() > 8192, "longer_than_8KiB")
            .class_if(exp.iter().any(|x| x.2 - x.1 > 65536), "value_larger_than_64KiB")
            .class_if(exp.len() >= 128, "128_or_more_values")
            .obs(json!({"values": exp.len(), "stdout": esc_trunc(&out.stdout, 300)}));
        if !out.res.is_ok() {
            return CaseResult::Fail(format!("jawk failed on a conforming stream: {}", out.res.short()));
        }
        if !out.stderr.is_empty() {
            return CaseResult::Fail(format!("stderr not empty: {}", esc_trunc(&out.stderr, 200)));
        }
        let astral = astral_chars_of(&exp_vals);
        let mut known: Option<String> = None;
        if let Err(e) = compare_rows(&exp_vals, &out.stdout) {
            // triage: the only listed signature is the 5/6-hex-digit escape of astral characters
            let fixed = astral_rewrite(&out.stdout, &astral);
            match fixed {
                Some(f) if compare_rows(&exp_vals, &f).is_ok() => {
                    known = Some(e);
                }
                _ => return CaseResult::Fail(e),
            }
        }
        // a clean stream yields no error report under any reporting policy
        let out2 = run(&["--on-error=stdout".to_string()], input);
        if out2.stdout != out.stdout || !out2.res.is_ok() {
            return CaseResult::Fail(format!(
                "with --on-error=stdout the clean stream gives different output ({}): {}",
                out2.res.short(),
                esc_trunc(&out2.stdout, 300)
            ));
        }
        match known {
            Some(e) => CaseResult::Known { key: "astral-escape-5hex", what: e, info: info.class("astral") },
            None => CaseResult::Pass(info.class_if(!astral.is_empty(), "astral")),
        }
    }
}

pub fn run_all(ctx: &mut Ctx) {
    ctx.rule = "cases = generated sequences of 0..40 JSON values, each with an independently drawn conforming spelling (whitespace, escapes, number forms) and per-gap separator (whitespace run or touching tokens); non-trivial = >= 2 values and (a non-canonical number spelling, or a \\u or \\/ escape, or touching tokens, or nesting >= 3); distinct = distinct input byte strings (hash set)".into();
    ctx.assumptions = vec![
        "the harness' strict RFC 8259 reader defines what the input and each output row denote (differentially tested against serde_json in the harness' own tests)".into(),
        "decimal -> nearest double uses Rust's std parser on both sides (correct rounding of std is trusted)".into(),
    ];
    C01Stream.run(ctx);
    let d = ctx.stats.get("C01.stream").map(|s| s.discarded).unwrap_or(0);
    if d > 0 {
        ctx.inconclusive.push(format!("C01.stream: {} generated streams were rejected by the harness' own strict reader (generator bug)", d));
    }
}

pub fn checks() -> Vec<Box<dyn DynCheck>> {
    vec![Box::new(C01Stream)]
}
