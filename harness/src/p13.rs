//! C13 An expression means the same in every position, alias, spelling and cache size.

use crate::engine::*;
use crate::expr::Kind::*;
use crate::expr::*;
use crate::ftab::FTAB;
use crate::rjson::*;
use crate::runner::*;
use crate::univ::{ref_eq, spec_cmp};
use proptest::collection::vec;
use proptest::prelude::*;
use serde::{Deserialize, Serialize};
use serde_json::json;
use std::cmp::Ordering;

fn rows_of(o: &Outcome) -> Result<Vec<RVal>, String> {
    Ok(split_rows(&o.stdout, b"\n")?.into_iter().map(|x| x.0).collect())
}

/// records with an `id` member in front (the generator never mentions `id`)
pub fn with_ids(records: &[String]) -> Vec<u8> {
    let mut s = String::new();
    for (i, r) in records.iter().enumerate() {
        // members whose names end like a sort direction (for `--sort-by=.desc`)
        let extra = format!("\"desc\":{},\"short_desc\":\"{}\",\"asc\":{}", (i * 7 + 3) % 5, ["b", "a", "c"][i % 3], (i * 3) % 4);
        if r.starts_with('{') && r.len() > 2 {
            s.push_str(&format!("{{\"id\":{},{},{}\n", i, extra, &r[1..]));
        } else if r == "{}" {
            s.push_str(&format!("{{\"id\":{},{}}}\n", i, extra));
        } else {
            s.push_str(r);
            s.push('\n');
        }
    }
    s.into_bytes()
}

fn id_of(v: &RVal) -> Option<i128> {
    match v.get("id") {
        Some(RVal::Int(i)) => Some(*i),
        _ => None,
    }
}

// ---------------------------------------------------------------- positions

#[derive(Clone, Debug, Serialize, Deserialize)]
pub struct CasePos {
    pub e: Expr,
    /// input-independent expression for the --set variable position
    pub konst: Expr,
    pub records: Vec<String>,
    pub desc: bool,
}

pub struct C13Positions;
impl Check for C13Positions {
    type Case = CasePos;
    fn name(&self) -> &'static str {
        "C13.positions"
    }
    fn cases(&self, tier: Tier) -> u64 {
        tier.pick(40_000, 1_000_000)
    }
    fn strategy(&self, _t: Tier) -> BoxedStrategy<CasePos> {
        (vec(any::<u32>(), 0..400), any::<bool>())
            .prop_map(|(tape, desc)| {
                let mut g = Gen::new(&tape, GenCfg { ill: 1, exclude: vec!["exec", "trigger", "now", "env"], ..GenCfg::default() });
                let env = Env::top();
                // kinds that matter for the positions: Bool (filter), Str (group), Arr (split), anything (sort)
                let k = *g.tape.pick(&[Bool, Str, Arr, Num, Any, Str, Bool, ArrNum, ArrObj, Bool, Str]);
                let mut e = g.expr(k, 4, &env);
                if g.tape.chance(1, 12) {
                    // expression texts that end like a direction word
                    e = match g.tape.below(5) {
                        0 => Expr::key(0, "desc"),
                        1 => Expr::key(0, "asc"),
                        2 => Expr::key(0, "short_desc"),
                        3 => Expr::call("get", vec![Expr::dot(), Expr::lit("\"desc\"")]),
                        _ => Expr::call("default", vec![Expr::key(0, "nosuch"), Expr::key(0, "asc")]),
                    };
                }
                if g.tape.chance(1, 10) {
                    // expressions that read the input position (the same in every option)
                    let idx = |n: &str| Expr::Lit(format!("&{}", n));
                    e = match g.tape.below(6) {
                        0 => idx("index"),
                        1 => Expr::call("=", vec![Expr::call("%", vec![idx("index"), Expr::lit("2")]), Expr::lit("0")]),
                        2 => Expr::call("stringify", vec![Expr::call("%", vec![idx("index-in-file"), Expr::lit("3")])]),
                        3 => Expr::call("push", vec![Expr::lit("[]"), idx("index"), idx("started-at-line-number")]),
                        4 => Expr::call("-", vec![idx("ended-at-line-number")]),
                        _ => Expr::call("<", vec![idx("started-at-line-number"), Expr::lit("3")]),
                    };
                }
                let kk = *g.tape.pick(LEAF_KINDS);
                // input-independent: no paths (empty chain) and no parse_selection (its text may read the input)
                g.cfg.exclude.push("parse_selection");
                let konst = g.expr(kk, 3, &Env::default());
                let n = 2 + g.tape.below(9);
                let records = (0..n).map(|_| g.record()).collect();
                CasePos { e, konst, records, desc }
            })
            .boxed()
    }
    fn check(&self, c: &CasePos) -> CaseResult {
        let sp = Spell::CANON;
        let et = print(&c.e, &sp);
        let input = with_ids(&c.records);
        let sel_args = vec!["--select=.id = id".to_string(), select_arg(&c.e, "v", &sp)];
        let base = run(&sel_args, &input);
        if !base.res.is_ok() {
            return CaseResult::Fail(format!("--select run failed: {} ({})", base.res.short(), et));
        }
        let rows = match rows_of(&base) {
            Ok(r) => r,
            Err(e) => return CaseResult::Fail(e),
        };
        if rows.len() != c.records.len() {
            return CaseResult::Fail(format!("{} rows for {} records", rows.len(), c.records.len()));
        }
        let vals: Vec<Option<RVal>> = rows.iter().map(|r| r.get("v").cloned()).collect();
        let fail = |what: &str, detail: String| CaseResult::Fail(format!("{}: {} [expression {}]", what, detail, et));
        // --- filter
        let o = run(&[format!("--filter={}", et), "--select=.id = id".into()], &input);
        if !o.res.is_ok() {
            return fail("--filter", format!("run failed: {}", o.res.short()));
        }
        let got: Vec<i128> = match rows_of(&o) {
            Ok(r) => r.iter().filter_map(id_of).collect(),
            Err(e) => return fail("--filter", e),
        };
        let exp: Vec<i128> = vals.iter().enumerate().filter(|(_, v)| matches!(v, Some(RVal::Bool(true)))).map(|(i, _)| i as i128).collect();
        if got != exp {
            return fail("--filter", format!("kept ids {:?}, but --select says the expression is true exactly for {:?}", got, exp));
        }
        // --- sort
        let dir = if c.desc { " DESC" } else { "" };
        let o = run(&[format!("--sort-by={}{}", et, dir), "--select=.id = id".into()], &input);
        if !o.res.is_ok() {
            return fail("--sort-by", format!("run failed: {}", o.res.short()));
        }
        let got: Vec<i128> = match rows_of(&o) {
            Ok(r) => r.iter().filter_map(id_of).collect(),
            Err(e) => return fail("--sort-by", e),
        };
        let mut present: Vec<i128> = vals.iter().enumerate().filter(|(_, v)| v.is_some()).map(|(i, _)| i as i128).collect();
        let mut sorted_got = got.clone();
        sorted_got.sort();
        present.sort();
        if sorted_got != present {
            return fail("--sort-by", format!("printed ids {:?}, but the rows with a key are {:?}", got, present));
        }
        let mut sort_ties = false;
        let mut sort_distinct = false;
        for w in got.windows(2) {
            let (a, b) = (vals[w[0] as usize].as_ref().unwrap(), vals[w[1] as usize].as_ref().unwrap());
            let mut cmp = spec_cmp(a, b);
            if c.desc {
                cmp = cmp.map(|x| x.reverse());
            }
            match cmp {
                Some(Ordering::Greater) => return fail("--sort-by", format!("row {} (key {}) is printed before row {} (key {}) {}", w[0], a.to_json(), w[1], b.to_json(), if c.desc { "descending" } else { "ascending" })),
                Some(Ordering::Equal) => {
                    sort_ties = true;
                    if w[0] > w[1] {
                        return fail("--sort-by", format!("rows {} and {} have equal keys but are not in arrival order", w[0], w[1]));
                    }
                }
                Some(Ordering::Less) => sort_distinct = true,
                None => {}
            }
        }
        // --- group
        let o = run(&[format!("--group-by={}", et)], &input);
        if !o.res.is_ok() {
            return fail("--group-by", format!("run failed: {}", o.res.short()));
        }
        let grows = match rows_of(&o) {
            Ok(r) => r,
            Err(e) => return fail("--group-by", e),
        };
        let mut keys: Vec<String> = Vec::new();
        let mut groups: Vec<Vec<i128>> = Vec::new();
        for (i, v) in vals.iter().enumerate() {
            if let Some(RVal::Str(k)) = v {
                match keys.iter().position(|x| x == k) {
                    Some(p) => groups[p].push(i as i128),
                    None => {
                        keys.push(k.clone());
                        groups.push(vec![i as i128]);
                    }
                }
            }
        }
        let got_groups: Option<(Vec<String>, Vec<Vec<i128>>)> = match grows.as_slice() {
            [RVal::Obj(o)] => Some((o.iter().map(|m| m.0.clone()).collect(), o.iter().map(|m| if let RVal::Arr(a) = &m.1 { a.iter().filter_map(id_of).collect() } else { vec![] }).collect())),
            _ => None,
        };
        if got_groups != Some((keys.clone(), groups.clone())) {
            return fail("--group-by", format!("printed {} but --select says the groups are {:?} -> {:?}", esc_trunc(&o.stdout, 300), keys, groups));
        }
        // --- split
        let o = run(&[format!("--split-by={}", et)], &input);
        if !o.res.is_ok() {
            return fail("--split-by", format!("run failed: {}", o.res.short()));
        }
        let srows: Vec<String> = match rows_of(&o) {
            Ok(r) => r.iter().map(|x| x.to_json()).collect(),
            Err(e) => return fail("--split-by", e),
        };
        let mut exp_rows: Vec<String> = Vec::new();
        for v in vals.iter().flatten() {
            if let RVal::Arr(a) = v {
                exp_rows.extend(a.iter().map(|x| x.to_json()));
            }
        }
        if srows != exp_rows {
            return fail("--split-by", format!("printed {:?} but the elements of the arrays --select shows are {:?}", trunc(&srows.join(" "), 300), trunc(&exp_rows.join(" "), 300)));
        }
        // --- macro
        let o = run(&[format!("--set=@mm={}", et), "--select=.id = id".into(), "--select=@mm = v".into()], &input);
        if o.res != base.res || o.stdout != base.stdout {
            return fail("--set @macro", format!("selecting the macro gives {} {}, selecting the expression gives {}", o.res.short(), esc_trunc(&o.stdout, 300), esc_trunc(&base.stdout, 300)));
        }
        // --- variable (input-independent expression)
        let kt = print(&c.konst, &sp);
        let o1 = run(&["--select=.id = id".to_string(), select_arg(&c.konst, "v", &sp)], &input);
        let o2 = run(&[format!("--set=xx={}", kt), "--select=.id = id".into(), "--select=:xx = v".into()], &input);
        if !o1.res.is_ok() {
            return fail("--set variable", format!("select of the constant expression {} failed: {}", kt, o1.res.short()));
        }
        let konst_some = match rows_of(&o1) {
            Ok(r) => r.iter().any(|x| x.get("v").is_some()),
            Err(e) => return fail("--set variable", e),
        };
        match &o2.res {
            Res::Ok => {
                if o2.stdout != o1.stdout {
                    return fail("--set variable", format!("selecting the variable gives {}, selecting the expression {} gives {}", esc_trunc(&o2.stdout, 300), kt, esc_trunc(&o1.stdout, 300)));
                }
            }
            Res::Err(_) if !konst_some => {} // an expression without a value cannot be bound
            other => return fail("--set variable", format!("--set=xx={} was rejected ({}) although the expression has a value", kt, other.short())),
        }
        let distinct = {
            let mut d: Vec<String> = vals.iter().map(|v| v.as_ref().map(|x| x.to_json()).unwrap_or_default()).collect();
            d.sort();
            d.dedup();
            d.len()
        };
        let some_nothing = vals.iter().any(|v| v.is_none());
        let _ = ref_eq;
        CaseResult::Pass(
            Info::new(distinct >= 2)
                .class_if(some_nothing, "some_nothing")
                .class_if(!exp.is_empty() && exp.len() < vals.len(), "filter_keeps_some")
                .class_if(keys.len() >= 2, "two_groups")
                .class_if(!exp_rows.is_empty(), "split_emits")
                .class_if(sort_ties, "sort_ties")
                .class_if(sort_distinct, "sort_distinct_keys")
                .class_if(konst_some, "variable_has_value")
                .weight(8)
                .obs(json!({"e": et, "values": vals.iter().take(4).map(|v| v.as_ref().map(|x| trunc(&x.to_json(), 60))).collect::<Vec<_>>()})),
        )
    }
}

// ---------------------------------------------------------------- aliases and spellings

#[derive(Clone, Debug, Serialize, Deserialize)]
pub struct CaseSpell {
    pub e: Expr,
    pub spell: Spell,
    pub records: Vec<String>,
}

fn compare_spellings(e: &Expr, t1: &str, t2: &str, records: &[String]) -> Result<(bool, bool), String> {
    let input = with_ids(records);
    let o1 = run(&[format!("--select={} = v", t1)], &input);
    let o2 = run(&[format!("--select={} = v", t2)], &input);
    if o1.res.is_panic() || o2.res.is_panic() {
        return Err(format!("panic: {} / {}", o1.res.short(), o2.res.short()));
    }
    if !o1.res.is_ok() {
        return Err(format!("the canonical spelling {} is rejected: {}", t1, o1.res.short()));
    }
    if o1.res != o2.res || o1.stdout != o2.stdout {
        return Err(format!("spelling `{}` gives {} {} but `{}` gives {} {}", t1, o1.res.short(), esc_trunc(&o1.stdout, 300), t2, o2.res.short(), esc_trunc(&o2.stdout, 300)));
    }
    let _ = e;
    let some = o1.stdout.windows(4).any(|w| w == b"\"v\":");
    Ok((some, t1 != t2))
}

pub struct C13Spelling;
impl Check for C13Spelling {
    type Case = CaseSpell;
    fn name(&self) -> &'static str {
        "C13.spelling"
    }
    fn cases(&self, tier: Tier) -> u64 {
        tier.pick(30_000, 1_000_000)
    }
    fn strategy(&self, _t: Tier) -> BoxedStrategy<CaseSpell> {
        (vec(any::<u32>(), 0..300), any::<bool>(), 0u8..7, any::<bool>(), any::<bool>(), any::<u64>())
            .prop_map(|(tape, alias, sep, sugar, pad, seed)| {
                let mut g = Gen::new(&tape, GenCfg { ill: 1, dot_bias: sugar, exclude: vec!["exec", "trigger", "now", "env"], ..GenCfg::default() });
                let k = *g.tape.pick(LEAF_KINDS);
                let mut e = g.expr(k, 4, &Env::top());
                if e.depth() == 0 {
                    let names = pure_function_names();
                    let f = names[g.tape.below(names.len())];
                    let ss = sigs_of(f);
                    let si = ss[g.tape.below(ss.len())];
                    e = g.call_sig(si, Any, 3, &Env::top());
                }
                let n = 1 + g.tape.below(3);
                let records = (0..n).map(|_| g.record()).collect();
                CaseSpell { e, spell: Spell { alias, sep, sugar, pad, seed }, records }
            })
            .boxed()
    }
    fn check(&self, c: &CaseSpell) -> CaseResult {
        let t1 = canon(&c.e);
        let t2 = print(&c.e, &c.spell);
        match compare_spellings(&c.e, &t1, &t2, &c.records) {
            Err(m) => CaseResult::Fail(m),
            Ok((some, differs)) => CaseResult::Pass(
                Info::new(some && differs)
                    .class_if(c.spell.alias, "alias")
                    .class_if(c.spell.sugar && t2.contains("(."), "dot_sugar")
                    .class_if(c.spell.pad, "padding")
                    .class_if(matches!(c.spell.sep, 1 | 2 | 5 | 6), "comma_separators")
                    .class_if(c.spell.sep == 4, "newline_separators")
                    .class_if(c.e.any(&|x| matches!(x, Expr::Var(_) | Expr::Mac(_))), "variable_or_macro_argument")
                    .obs(json!({"canonical": t1, "variant": t2})),
            ),
        }
    }
}

/// every alias of every function x `per` generated argument tuples
pub fn run_aliases(ctx: &mut Ctx) {
    let per: u64 = ctx.tier.pick(40, 600);
    // every alias, and every canonical name as its own "alias" (for the sugar form only)
    let pairs: Vec<(&'static str, &'static str)> = FTAB.iter().filter(|d| !IMPURE.contains(&d.name)).flat_map(|d| std::iter::once((d.name, d.name)).chain(d.aliases.iter().map(move |a| (d.name, *a)))).collect();
    let seed = ctx.seed;
    let total = pairs.len() as u64 * per;
    let npairs = pairs.len();
    run_enum(ctx, "C13.aliases", total, &format!("all {} names and aliases of the pure functions x {} generated argument tuples each, written (alias x ..) and, with `.` as first argument, (.alias ..)", npairs, per), move |idx| {
        let (f, alias) = pairs[(idx % npairs as u64) as usize];
        let k = idx / npairs as u64;
        // tape from a splitmix stream keyed by (seed, f, k): deterministic, independent of sharding
        let mut m = crate::gen::Mix(seed ^ hash_str(f) ^ (k.wrapping_mul(0x9e37_79b9)));
        let tape: Vec<u32> = (0..120).map(|_| m.next() as u32).collect();
        let mut g = Gen::new(&tape, GenCfg { ill: 1, exclude: vec!["exec", "trigger", "now", "env"], ..GenCfg::default() });
        let ss = sigs_of(f);
        let si = ss[g.tape.below(ss.len())];
        let mut e = g.call_sig(si, Any, 2, &Env::top());
        let mut records: Vec<String> = (0..2).map(|_| g.record()).collect();
        // odd k, or a canonical name: the sugar form. The first argument becomes `.`; when it was
        // a literal, that literal is the input, so the call still does what it did
        let sugar = alias == f || k % 2 == 1;
        let special = matches!(f, "set" | "define" | ":" | "@");
        if sugar && !special {
            if let Expr::Call { args, .. } = &mut e {
                if !args.is_empty() {
                    if let Expr::Lit(t) = &args[0] {
                        records = vec![t.clone(), t.clone()];
                    }
                    args[0] = Expr::dot();
                }
            }
        }
        let t1 = canon(&e);
        let t2 = if sugar && !special && t1.starts_with(&format!("({} .", f)) { format!("(.{}{}", alias, &t1[3 + f.len()..]) } else { format!("({}{}", alias, &t1[1 + f.len()..]) };
        if t1 == t2 {
            let case = json!({"f": f, "alias": alias, "canonical": t1});
            return (Box::new(move || case.clone()), CaseResult::Pass(Info::new(false).class("same_text")));
        }
        let res = match compare_spellings(&e, &t1, &t2, &records) {
            Err(m) => CaseResult::Fail(m),
            Ok((some, _)) => CaseResult::Pass(Info::new(some).class_if(t2.starts_with("(."), "sugar_form").obs(json!({"canonical": t1, "alias": t2}))),
        };
        let case = json!({"f": f, "alias": alias, "canonical": t1, "variant": t2, "records": records});
        (Box::new(move || case.clone()), res)
    });
}

// ---------------------------------------------------------------- regex cache

#[derive(Clone, Debug, Serialize, Deserialize)]
pub struct CaseCache {
    /// (subject, pattern) per input value
    pub pairs: Vec<(String, String)>,
    pub group: usize,
}

// near-duplicates on purpose: a cache that normalises, truncates or hashes its key badly
// (trimmed, case-folded, prefix- or length-keyed) must be visible
const PATTERNS: &[&str] = &["a ", " a", "A", "ba", "a+ ", "^a ", "aaaaaaaaaaaaaaaab", "aaaaaaaaaaaaaaaac", "(?i)a", "a", "a+", "[a-c]+", "(a|b)c", "^a", "b$", "([0-9]+)-([a-z]+)", ".", "", "a*", "\\d+", "(?i)A", "(a)(b)?", "[0-9", "(", "\u{e9}+", "(x)|(y)", "^$", "aa", "[^a]", "*", "b", "c", "ab",
    "(\\d{1,3}\\.){3}\\d{1,3}", "(?x) a  b ", "(?s)a.b", "(?m)^b$", "(?U)a+", "\\bab\\b",
];
// large compiled programs (Unicode classes under a bounded repeat, 1-8 MiB): a cache that builds
// its regexes with other limits or options than the uncached path shows here. Compiling them
// takes milliseconds, so they appear in one case in twenty-five, with at most eight pairs.
const HEAVY_PATTERNS: &[&str] = &["^\\w{64}$", "\\p{L}{100}", "[\\w\\s]{80,}", "(?i)\\w{40}x"];
const SUBJECTS: &[&str] = &["a ", " a", "ba", "aaaaaaaaaaaaaaaab", "aaaaaaaaaaaaaaaac", "a", "b", "abc", "aaa", "12-ab", "", "A", "\u{e9}\u{e9}", "bc", "xyz", "ab", "c", "x", "y", "7-z 8-q", "abcdefghijklmnopqrstuvwxyzabcdefghijklmnopqrstuvwxyzabcdefghijkl", "\u{e9}\u{e9}\u{e9}\u{e9}\u{e9}\u{e9}\u{e9}\u{e9}\u{e9}\u{e9}\u{e9}\u{e9}\u{e9}\u{e9}\u{e9}\u{e9}\u{e9}\u{e9}\u{e9}\u{e9}\u{e9}\u{e9}\u{e9}\u{e9}\u{e9}\u{e9}\u{e9}\u{e9}\u{e9}\u{e9}\u{e9}\u{e9}\u{e9}\u{e9}\u{e9}\u{e9}\u{e9}\u{e9}\u{e9}\u{e9}\u{e9}\u{e9}\u{e9}\u{e9}\u{e9}\u{e9}\u{e9}\u{e9}\u{e9}\u{e9}\u{e9}\u{e9}\u{e9}\u{e9}\u{e9}\u{e9}\u{e9}\u{e9}\u{e9}\u{e9}\u{e9}\u{e9}\u{e9}\u{e9}", "a\nb", "192.168.10.1", "ab ab", "AB"];

pub struct C13Cache;
impl Check for C13Cache {
    type Case = CaseCache;
    fn name(&self) -> &'static str {
        "C13.regex_cache"
    }
    fn cases(&self, tier: Tier) -> u64 {
        tier.pick(4_000, 150_000)
    }
    fn strategy(&self, _t: Tier) -> BoxedStrategy<CaseCache> {
        // a small per-case pattern pool so that patterns repeat, alternate and get evicted
        (vec(0..PATTERNS.len(), 1..6), vec((any::<u16>(), 0..SUBJECTS.len()), 0..40), 0usize..4, 0usize..25, 0..HEAVY_PATTERNS.len())
            .prop_map(|(pool, mut seq, group, heavy, which)| {
                let mut pats: Vec<&str> = pool.iter().map(|i| PATTERNS[*i]).collect();
                if heavy == 0 {
                    pats.push(HEAVY_PATTERNS[which]);
                    seq.truncate(8);
                }
                CaseCache { pairs: seq.into_iter().map(|(p, s)| (SUBJECTS[s].to_string(), pats[pick_idx(p, pats.len())].to_string())).collect(), group }
            })
            .boxed()
    }
    fn check(&self, c: &CaseCache) -> CaseResult {
        let mut input = String::new();
        for (s, p) in &c.pairs {
            let mut a = String::new();
            write_json_string(s, &mut a);
            let mut b = String::new();
            write_json_string(p, &mut b);
            input.push_str(&format!("{{\"s\":{},\"p\":{}}}\n", a, b));
        }
        let sel = vec!["--select=(match .s .p) = m".to_string(), format!("--select=(extract_regex_group .s .p {}) = g", c.group), "--select=(match .p .s) = r".to_string()];
        // reference: the regex crate itself (the property is about jawk's cache and glue)
        let mut exp = String::new();
        for (s, p) in &c.pairs {
            let mut members = Vec::new();
            if let Ok(re) = regex::Regex::new(p) {
                members.push(format!("\"m\": {}", re.is_match(s)));
                if let Some(g) = re.captures(s).and_then(|cp| cp.get(c.group)) {
                    let mut t = String::new();
                    write_json_string(g.as_str(), &mut t);
                    members.push(format!("\"g\": {}", t));
                }
            }
            if let Ok(re) = regex::Regex::new(s) {
                members.push(format!("\"r\": {}", re.is_match(p)));
            }
            exp.push_str(&format!("{{{}}}\n", members.join(", ")));
        }
        let mut first: Option<Vec<u8>> = None;
        for size in [0usize, 1, 2, 3, 64] {
            let mut args = sel.clone();
            args.push(format!("--regular-expression-cache-size={}", size));
            let o = run(&args, input.as_bytes());
            if !o.res.is_ok() {
                return CaseResult::Fail(format!("cache size {}: {}", size, o.res.short()));
            }
            if let Some(f) = &first {
                if *f != o.stdout {
                    return CaseResult::Fail(format!("cache size {} changes the output: {} vs {} (size 0)", size, esc_trunc(&o.stdout, 400), esc_trunc(f, 400)));
                }
            } else {
                // compare with the reference after normalising through the strict reader
                let got = rows_of(&o).map(|r| r.iter().map(|x| x.to_json()).collect::<Vec<_>>());
                let want = split_rows(exp.as_bytes(), b"\n").map(|r| r.iter().map(|x| x.0.to_json()).collect::<Vec<_>>());
                if got != want {
                    return CaseResult::Fail(format!("regex results differ from the regex crate: got {} expected {}", esc_trunc(&o.stdout, 400), trunc(&exp, 400)));
                }
                first = Some(o.stdout);
            }
        }
        let mut pats: Vec<&String> = c.pairs.iter().map(|p| &p.1).collect();
        let reuse = {
            // a pattern that comes back after >= 2 other patterns were used (eviction at sizes 1, 2)
            let mut found = false;
            for i in 0..pats.len() {
                for j in i + 3..pats.len() {
                    if pats[i] == pats[j] {
                        let mut between: Vec<&String> = pats[i + 1..j].iter().filter(|x| **x != pats[i]).cloned().collect();
                        between.sort();
                        between.dedup();
                        if between.len() >= 2 {
                            found = true;
                        }
                    }
                }
            }
            found
        };
        pats.sort();
        pats.dedup();
        CaseResult::Pass(Info::new(pats.len() >= 3 && reuse).class_if(reuse, "reuse_after_eviction").class_if(pats.iter().any(|p| regex::Regex::new(p).is_err()), "invalid_pattern").weight(4).obs(json!({"pairs": c.pairs.len(), "patterns": pats.len()})))
    }
}

// ---------------------------------------------------------------- /name/ = the earlier selection's value, everywhere

#[derive(Clone, Debug, Serialize, Deserialize)]
pub struct CaseSelRef {
    /// the earlier selection
    pub x: Expr,
    /// expression that refers to it as /s0/ (also inside functional arguments)
    pub e: Expr,
    pub records: Vec<String>,
}

fn sel_to_var(e: &Expr, sel: &str, var: &str) -> Expr {
    match e {
        Expr::Sel(n) if n == sel => Expr::Var(var.to_string()),
        Expr::Call { f, args } => Expr::Call { f: f.clone(), args: args.iter().map(|a| sel_to_var(a, sel, var)).collect() },
        other => other.clone(),
    }
}

pub struct C13SelRef;
impl Check for C13SelRef {
    type Case = CaseSelRef;
    fn name(&self) -> &'static str {
        "C13.selection_reference"
    }
    fn cases(&self, tier: Tier) -> u64 {
        tier.pick(60_000, 1_000_000)
    }
    fn strategy(&self, _t: Tier) -> BoxedStrategy<CaseSelRef> {
        vec(any::<u32>(), 0..300)
            .prop_map(|tape| {
                let mut g = Gen::new(&tape, GenCfg { ill: 1, bindings: true, bind_bias: true, exclude: vec!["exec", "trigger", "now", "env", "parse_selection"], ..GenCfg::default() });
                let env = Env::top();
                let xk = *g.tape.pick(&[Num, Str, Bool, ArrNum, ArrStr, ObjNum, Int]);
                let x = g.expr(xk, 2, &env);
                let mut env2 = env.clone();
                env2.sels.push(("s0".into(), xk));
                let k = *g.tape.pick(LEAF_KINDS);
                let e = g.expr(k, 4, &env2);
                let n = 1 + g.tape.below(3);
                let records = (0..n).map(|_| g.record()).collect();
                CaseSelRef { x, e, records }
            })
            .boxed()
    }
    fn check(&self, c: &CaseSelRef) -> CaseResult {
        let sp = Spell::CANON;
        // (set "zz" X E[/s0/ := :zz]) evaluates X once at top level and makes it visible
        // everywhere in E; /s0/ must behave the same whenever X has a value
        let as_var = Expr::call("set", vec![Expr::lit("\"zz\""), c.x.clone(), sel_to_var(&c.e, "s0", "zz")]);
        // the earlier selection is called s0, or - one case in three - "0" or "2" while it
        // stands at position 1 between two other selections (a name is a name, not a position)
        let h = canon(&c.e).len() + canon(&c.x).len();
        let name = ["s0", "s0", "s0", "s0", "0", "2"][h % 6];
        let rename = |e: &Expr| -> Expr {
            fn go(e: &Expr, to: &str) -> Expr {
                match e {
                    Expr::Sel(n) if n == "s0" => Expr::Sel(to.to_string()),
                    Expr::Call { f, args } => Expr::Call { f: f.clone(), args: args.iter().map(|a| go(a, to)).collect() },
                    other => other.clone(),
                }
            }
            go(e, name)
        };
        // the selection in front of it is called S0 when the referenced one is s0: names are
        // case-sensitive
        let first = if name == "s0" { "S0" } else { "da" };
        let args = vec![format!("--select=\"decoy-a\" = {}", first), select_arg(&c.x, name, &sp), "--select=\"decoy-b\" = db".to_string(), select_arg(&rename(&c.e), "a", &sp), select_arg(&as_var, "b", &sp)];
        let input: Vec<u8> = c.records.join("\n").into_bytes();
        let o = run(&args, &input);
        if !o.res.is_ok() {
            return CaseResult::Fail(format!("run failed: {} args {:?}", o.res.short(), args));
        }
        let rows = match rows_of(&o) {
            Ok(r) => r,
            Err(e) => return CaseResult::Fail(e),
        };
        let mut nt = false;
        for (i, r) in rows.iter().enumerate() {
            if r.get(name).is_none() {
                continue; // X is nothing: (set ..) yields nothing as a whole, /s0/ only locally
            }
            let a = r.get("a").map(|v| v.to_json());
            let b = r.get("b").map(|v| v.to_json());
            if a != b {
                return CaseResult::Fail(format!("row {}: with /s0/ the expression gives {:?}, with the same value bound to a variable {:?}; s0 = {}; e = {}", i, a, b, canon(&c.x), canon(&c.e)));
            }
            nt |= a.is_some();
        }
        let refs = c.e.any(&|x| matches!(x, Expr::Sel(_)));
        const FUNCTIONAL: &[&str] = &["map", "filter", "flat_map", "fold", "group_by", "sort_by", "filter_keys", "filter_values", "map_keys", "map_values", "sort_by_values_by", "\"sort_by\"", "|"];
        fn under(e: &Expr) -> bool {
            match e {
                Expr::Call { f, args } => {
                    let fun = FUNCTIONAL.contains(&f.as_str());
                    args.iter().enumerate().any(|(i, a)| (fun && i >= 1 && a.any(&|x| matches!(x, Expr::Sel(_)))) || under(a))
                }
                _ => false,
            }
        }
        let u = under(&c.e);
        CaseResult::Pass(Info::new(nt && refs && u).class_if(refs, "refers_to_selection").class_if(u, "reference_inside_functional_argument").class_if(nt, "non_nothing_result").obs(json!({"s0": canon(&c.x), "e": canon(&c.e)})))
    }
}

pub fn run_all(ctx: &mut Ctx) {
    ctx.rule = "(positions) a generated expression E (depth <= 4) is evaluated per record by --select; --filter=E must keep exactly the records where that value is true, --sort-by=E [=DESC] must print exactly the records with a value, ordered by the specified total order with ties in arrival order, --group-by=E must print the documented grouping by the string values, --split-by=E must print the elements of the array values, --set @m=E --select=@m and (for an input-independent E) --set x=E --select=:x must print what --select=E prints. (aliases) every alias of every pure function x 20/400 generated argument tuples: identical output to the canonical name. (spelling) canonical text vs a variant with aliases, space/comma/newline separators, padding, (.f x) sugar: identical output. (regex_cache) 0..39 (subject, pattern) pairs from a per-case pool of 1..5 patterns under cache sizes 0,1,2,3,64: identical output, equal to the regex crate. (selection_reference) /name/ anywhere in an expression (also inside functional arguments) equals the earlier selection's value bound to a variable. non-trivial = E takes >= 2 distinct values over the records / the variant text differs and a value is produced / >= 3 patterns with a re-use after >= 2 other patterns / the reference is inside a functional argument and a value is produced".into();
    ctx.assumptions = vec!["the order between two different objects is unspecified and not checked".into(), "regex semantics are those of the regex crate (jawk's documented engine)".into()];
    C13Positions.run(ctx);
    run_aliases(ctx);
    C13Spelling.run(ctx);
    C13Cache.run(ctx);
    C13SelRef.run(ctx);
}

/// replay entry for the enumerated alias cases
pub struct C13AliasReplay;
impl DynCheck for C13AliasReplay {
    fn name(&self) -> &'static str {
        "C13.aliases"
    }
    fn replay(&self, case: &serde_json::Value) -> Result<CaseResult, String> {
        let t1 = case["canonical"].as_str().ok_or("no canonical")?.to_string();
        let t2 = case["variant"].as_str().ok_or("no variant")?.to_string();
        let records: Vec<String> = case["records"].as_array().ok_or("no records")?.iter().filter_map(|x| x.as_str().map(|s| s.to_string())).collect();
        Ok(match compare_spellings(&Expr::dot(), &t1, &t2, &records) {
            Err(m) => CaseResult::Fail(m),
            Ok((some, _)) => CaseResult::Pass(Info::new(some)),
        })
    }
    fn run(&self, _ctx: &mut Ctx) {}
}

pub fn checks() -> Vec<Box<dyn DynCheck>> {
    vec![Box::new(C13Positions), Box::new(C13Spelling), Box::new(C13Cache), Box::new(C13SelRef), Box::new(C13AliasReplay)]
}
