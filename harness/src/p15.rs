//! C15 csv/text rows have one field per selection and csv is machine-readable.

use crate::engine::*;
use crate::gen::*;
use crate::rjson::*;
use crate::runner::*;
use proptest::collection::vec;
use proptest::prelude::*;
use serde::{Deserialize, Serialize};
use serde_json::json;

#[derive(Clone, Debug, Serialize, Deserialize)]
pub struct Case15 {
    /// selection names (header cells)
    pub names: Vec<String>,
    /// rows x columns; None = absent
    pub rows: Vec<Vec<Option<GVal>>>,
    /// row separator
    pub rowsep: String,
    /// None = csv; Some = text with these options
    pub text: Option<TextOpts>,
}

#[derive(Clone, Debug, Serialize, Deserialize)]
pub struct TextOpts {
    pub items_sep: Option<String>,
    pub prefix: Option<String>,
    pub postfix: Option<String>,
    pub headers: bool,
    /// (escaped character, replacement)
    pub escapes: Vec<(char, String)>,
    pub null_kw: Option<String>,
    pub true_kw: Option<String>,
    pub false_kw: Option<String>,
    pub missing_kw: Option<String>,
}

// ------------------------------------------------------------------ RFC 4180 reader

#[derive(Clone, Debug, PartialEq)]
pub struct Field {
    pub quoted: bool,
    pub text: String,
}

/// RFC 4180 reader, dialect: one blank after a comma is ignored, records end with `rowsep`.
pub fn read_csv(data: &[u8], rowsep: &[u8]) -> Result<Vec<Vec<Field>>, String> {
    let mut recs = Vec::new();
    let mut i = 0;
    let n = data.len();
    while i < n {
        let mut rec = Vec::new();
        loop {
            // one field
            if i < n && data[i] == b'"' {
                i += 1;
                let mut buf = Vec::new();
                loop {
                    if i >= n {
                        return Err(format!("record {}: unterminated quoted field", recs.len()));
                    }
                    if data[i] == b'"' {
                        if i + 1 < n && data[i + 1] == b'"' {
                            buf.push(b'"');
                            i += 2;
                        } else {
                            i += 1;
                            break;
                        }
                    } else {
                        buf.push(data[i]);
                        i += 1;
                    }
                }
                rec.push(Field { quoted: true, text: String::from_utf8(buf).map_err(|_| "field is not UTF-8".to_string())? });
            } else {
                let s = i;
                while i < n && data[i] != b',' && !data[i..].starts_with(rowsep) {
                    if data[i] == b'"' {
                        return Err(format!("record {}: quote inside an unquoted field", recs.len()));
                    }
                    i += 1;
                }
                rec.push(Field { quoted: false, text: String::from_utf8(data[s..i].to_vec()).map_err(|_| "field is not UTF-8".to_string())? });
            }
            // after a field: comma (+ optional blank) or record end
            if i < n && data[i] == b',' {
                i += 1;
                if i < n && data[i] == b' ' {
                    i += 1;
                }
                continue;
            }
            if data[i..].starts_with(rowsep) {
                i += rowsep.len();
                break;
            }
            return Err(format!("record {}: unexpected byte {:?} after a field at offset {}", recs.len(), data.get(i).map(|b| *b as char), i));
        }
        recs.push(rec);
    }
    Ok(recs)
}

fn is_decimal_number(t: &str) -> bool {
    // optional sign, digits, optional fraction, optional exponent (a superset of what a printer emits)
    let b = t.as_bytes();
    let mut i = 0;
    if i < b.len() && b[i] == b'-' {
        i += 1;
    }
    let d0 = i;
    while i < b.len() && b[i].is_ascii_digit() {
        i += 1;
    }
    if i == d0 {
        return false;
    }
    if i < b.len() && b[i] == b'.' {
        i += 1;
        let d1 = i;
        while i < b.len() && b[i].is_ascii_digit() {
            i += 1;
        }
        if i == d1 {
            return false;
        }
    }
    if i < b.len() && (b[i] == b'e' || b[i] == b'E') {
        i += 1;
        if i < b.len() && (b[i] == b'+' || b[i] == b'-') {
            i += 1;
        }
        let d2 = i;
        while i < b.len() && b[i].is_ascii_digit() {
            i += 1;
        }
        if i == d2 {
            return false;
        }
    }
    i == b.len()
}

fn number_field_matches(exp: &RVal, t: &str) -> bool {
    if !is_decimal_number(t) {
        return false;
    }
    match exp {
        RVal::Int(i) => {
            // the digits, possibly with a zero fraction
            if t == i.to_string() {
                return true;
            }
            t.parse::<f64>().map(|f| f.fract() == 0.0 && f.abs() < 9.0e15 && f as i128 == *i).unwrap_or(false)
        }
        RVal::Float(f) => t.parse::<f64>().map(|g| g == *f).unwrap_or(false),
        _ => false,
    }
}

fn check_csv_field(exp: &Option<RVal>, f: &Field) -> Result<(), String> {
    match exp {
        None => {
            if f.quoted || !f.text.is_empty() {
                return Err(format!("absent value must be an empty field, got {:?}", f));
            }
        }
        Some(RVal::Null) => {
            if f.quoted || f.text != "null" {
                return Err(format!("null must be the unquoted field null, got {:?}", f));
            }
        }
        Some(RVal::Bool(b)) => {
            if f.quoted || f.text != if *b { "True" } else { "False" } {
                return Err(format!("{} must be the unquoted field True/False, got {:?}", b, f));
            }
        }
        Some(RVal::Str(s)) => {
            if !f.quoted || &f.text != s {
                return Err(format!("string {:?} must be a quoted field with exactly its characters, got {:?}", s, f));
            }
        }
        Some(n @ (RVal::Int(_) | RVal::Float(_))) => {
            if f.quoted || !number_field_matches(n, &f.text) {
                return Err(format!("number {} must be an unquoted decimal spelling of it, got {:?}", n.to_json(), f));
            }
        }
        Some(v @ (RVal::Arr(_) | RVal::Obj(_))) => {
            if !f.quoted {
                return Err(format!("array/object must be a quoted field, got {:?}", f));
            }
            let (got, toks) = tokens(f.text.as_bytes()).map_err(|e| format!("nested value is not valid JSON ({}): {:?}", e, f.text))?;
            if toks.iter().any(|t| t.kind == TokKind::Ws) {
                return Err(format!("nested JSON text is not concise: {:?}", f.text));
            }
            if !same_value(v, &got) {
                return Err(format!("nested JSON text {:?} does not denote {}", f.text, v.to_json()));
            }
        }
    }
    Ok(())
}

// ------------------------------------------------------------------ text renderer (from the option help texts)

fn text_string(s: &str, o: &TextOpts) -> String {
    let mut out = String::new();
    out.push_str(o.prefix.as_deref().unwrap_or(""));
    for ch in s.chars() {
        if let Some((_, rep)) = o.escapes.iter().find(|e| e.0 == ch) {
            out.push_str(rep);
        } else {
            out.push(ch);
        }
    }
    out.push_str(o.postfix.as_deref().unwrap_or(""));
    out
}

/// canonical concise JSON with raw UTF-8 (mandatory escapes only); numbers as plain decimals
fn concise_utf8(v: &GVal, out: &mut String) {
    match v {
        GVal::Null => out.push_str("null"),
        GVal::Bool(b) => out.push_str(if *b { "true" } else { "false" }),
        GVal::Num(d) => out.push_str(&plain_number(d)),
        GVal::Str(s) => write_json_string_utf8(s, out),
        GVal::Arr(a) => {
            out.push('[');
            for (i, x) in a.iter().enumerate() {
                if i > 0 {
                    out.push(',');
                }
                concise_utf8(x, out);
            }
            out.push(']');
        }
        GVal::Obj(o) => {
            out.push('{');
            for (i, (k, x)) in o.iter().enumerate() {
                if i > 0 {
                    out.push(',');
                }
                write_json_string_utf8(k, out);
                out.push(':');
                concise_utf8(x, out);
            }
            out.push('}');
        }
    }
}

/// plain decimal spelling; only used for the "tame" numbers of the text check
fn plain_number(d: &Dec) -> String {
    d.canonical()
}

fn text_cell(v: &Option<GVal>, o: &TextOpts) -> String {
    match v {
        None => o.missing_kw.clone().unwrap_or_default(),
        Some(GVal::Null) => o.null_kw.clone().unwrap_or_else(|| "null".into()),
        Some(GVal::Bool(true)) => o.true_kw.clone().unwrap_or_else(|| "true".into()),
        Some(GVal::Bool(false)) => o.false_kw.clone().unwrap_or_else(|| "false".into()),
        Some(GVal::Num(d)) => plain_number(d),
        Some(GVal::Str(s)) => text_string(s, o),
        Some(v @ (GVal::Arr(_) | GVal::Obj(_))) => {
            let mut t = String::new();
            concise_utf8(v, &mut t);
            text_string(&t, o)
        }
    }
}

// ------------------------------------------------------------------ strategies

/// numbers with one obvious plain decimal spelling (integers in the 64-bit range, short decimals)
fn arb_tame_dec() -> BoxedStrategy<Dec> {
    prop_oneof![
        4 => (-1000i128..1000).prop_map(Dec::int),
        2 => any::<i64>().prop_map(|i| Dec::int(i as i128)),
        2 => any::<u64>().prop_map(|i| Dec::int(i as i128)),
        3 => (-99999i64..99999, 1i32..4).prop_filter_map("no trailing zero", |(m, s)| if m % 10 == 0 { None } else { Some(Dec { neg: m < 0, digits: m.unsigned_abs().to_string(), exp: -s }) }),
    ]
    .boxed()
}

fn arb_cell(tame: bool) -> BoxedStrategy<Option<GVal>> {
    let s = arb_string(CharSet::Full);
    let tricky = prop::sample::select(vec!["a,b", "say \"hi\"", "line1\nline2", "cr\rlf\n", "\"", "\"\"", ",", " lead", "trail ", "", "tab\there", "null", "True", "12", "[1]", "\u{e9},\u{1f603}", "a\", \"b"]).prop_map(|x| x.to_string());
    let num = if tame { arb_tame_dec() } else { arb_dec() };
    let leaf = prop_oneof![
        2 => Just(GVal::Null),
        2 => any::<bool>().prop_map(GVal::Bool),
        4 => num.prop_map(GVal::Num),
        4 => s.prop_map(GVal::Str),
        4 => tricky.prop_map(GVal::Str),
    ];
    let nested_leaf = if tame {
        // strings (and member names) whose JSON text has exactly one conforming concise spelling
        prop_oneof![1 => Just(GVal::Null), 1 => any::<bool>().prop_map(GVal::Bool), 2 => arb_tame_dec().prop_map(GVal::Num), 3 => "[a-zA-Z0-9 ,;:_|'<>-]{0,6}".prop_map(GVal::Str)].boxed()
    } else {
        arb_leaf(CharSet::Full)
    };
    let key = if tame { "[a-zA-Z0-9 ,;:_|'<>-]{0,4}".boxed() } else { arb_string(CharSet::Full) };
    let nested = nested_leaf.prop_recursive(2, 8, 4, move |inner| {
        prop_oneof![
            vec(inner.clone(), 0..4).prop_map(GVal::Arr),
            vec((key.clone(), inner), 0..4).prop_map(|o| {
                let mut seen = std::collections::HashSet::new();
                GVal::Obj(o.into_iter().filter(|(k, _)| seen.insert(k.clone())).collect())
            }),
        ]
    });
    let nested_only = nested.prop_filter_map("collection", |v| if matches!(v, GVal::Arr(_) | GVal::Obj(_)) { Some(v) } else { None });
    // a cell larger than any plausible output buffer (4 KiB, 8 KiB)
    let big = (4100usize..9500, prop::sample::select(vec!["x", "ab", "q\"", "y,"])).prop_map(|(n, u)| Some(GVal::Str(u.repeat(n / u.len()))));
    // nested values whose JSON text is several hundred bytes to a few KiB (size thresholds of
    // reused buffers), followed in the same run by ordinary ones
    let big_nested = (40usize..400, any::<bool>()).prop_map(|(n, obj)| {
        if obj {
            Some(GVal::Obj((0..n).map(|i| (format!("k{}", i), GVal::Num(Dec::int(i as i128)))).collect()))
        } else {
            Some(GVal::Arr((0..n).map(|i| GVal::Num(Dec::int(1000 + i as i128))).collect()))
        }
    });
    prop_oneof![
        6 => Just(None),
        24 => leaf.prop_map(Some),
        8 => nested_only.prop_map(Some),
        1 => big,
        1 => big_nested,
    ]
    .boxed()
}

fn arb_names(n: usize) -> BoxedStrategy<Vec<String>> {
    let name = prop_oneof![
        3 => "[a-z][a-z0-9_]{0,6}",
        2 => prop::sample::select(vec!["First Name", "a,b", "x \"y\"", "\u{e9}t\u{e9}", "n=1", "(len .)", ".a.b", "a\tb", "x;y", "1"]).prop_map(|s| s.to_string()),
    ];
    vec(name, n).boxed()
}

fn arb_text_opts() -> BoxedStrategy<TextOpts> {
    let sep = prop::option::weighted(0.6, prop::sample::select(vec!["|", ", ", ";", " ", "\t\t", "::", ""]).prop_map(|s| s.to_string()));
    let pre = prop::option::weighted(0.4, prop::sample::select(vec!["\"", "<", "'", "[[", ""]).prop_map(|s| s.to_string()));
    let post = prop::option::weighted(0.4, prop::sample::select(vec!["\"", ">", "'", "]]", ""]).prop_map(|s| s.to_string()));
    let esc = vec((prop::sample::select(vec!['"', '\t', ',', 'a', '\\', '\n', '|', ' ']), prop::sample::select(vec!["\\\"", "\\t", ";", "", "<a>", "\\\\", "\\n", "_"]).prop_map(|s| s.to_string())), 0..3).prop_map(|v| {
        let mut seen = std::collections::HashSet::new();
        v.into_iter().filter(|(c, _)| seen.insert(*c)).collect::<Vec<_>>()
    });
    let kw = |opts: Vec<&'static str>| prop::option::weighted(0.4, prop::sample::select(opts).prop_map(|s| s.to_string()));
    (sep, pre, post, any::<bool>(), esc, kw(vec!["NULL", "", "nil", "-"]), kw(vec!["yes", "1", "TRUE", "T"]), kw(vec!["no", "0", "FALSE", ""]), kw(vec!["NA", "", "?", "missing value"]))
        .prop_map(|(items_sep, prefix, postfix, headers, escapes, null_kw, true_kw, false_kw, missing_kw)| TextOpts { items_sep, prefix, postfix, headers, escapes, null_kw, true_kw, false_kw, missing_kw })
        .boxed()
}

pub fn arb_case(text: bool) -> BoxedStrategy<Case15> {
    (1usize..=5)
        .prop_flat_map(move |n| {
            let opts = if text { arb_text_opts().prop_map(Some).boxed() } else { Just(None).boxed() };
            (arb_names(n), vec(vec(arb_cell(text), n), 0..8), prop::sample::select(vec!["\n", "\n", "\r\n"]), opts, prop::option::weighted(0.2, (any::<u16>(), any::<u16>())))
        })
        .prop_map(|(mut names, rows, rowsep, text, dup)| {
            // now and then two selections carry the same name: still N columns
            if let Some((a, b)) = dup {
                let (i, j) = (pick_idx(a, names.len()), pick_idx(b, names.len()));
                if i != j {
                    names[j] = names[i].clone();
                }
            }
            Case15 { names, rows, rowsep: rowsep.to_string(), text }
        })
        .boxed()
}

fn build(case: &Case15) -> (Vec<String>, Vec<u8>) {
    let mut args = Vec::new();
    // the members are called c0 c1 .. or, half of the time, by names with multi-byte characters
    // (the text in front of `= title` is then longer in bytes than in characters)
    let pre = ["c", "c", "\u{e9}", "\u{65e5}\u{672c}"][case.rows.len() % 4];
    for (i, n) in case.names.iter().enumerate() {
        args.push(format!("--select=.{}{} = {}", pre, i, n));
    }
    if case.rowsep != "\n" {
        args.push(format!("--row-seperator={}", case.rowsep));
    }
    match &case.text {
        None => args.push("--output-style=csv".into()),
        Some(o) => {
            args.push("--output-style=text".into());
            if let Some(s) = &o.items_sep {
                args.push(format!("--items-seperator={}", s));
            }
            if let Some(s) = &o.prefix {
                args.push(format!("--string-prefix={}", s));
            }
            if let Some(s) = &o.postfix {
                args.push(format!("--string-postfix={}", s));
            }
            if o.headers {
                args.push("--headers".into());
            }
            for (c, r) in &o.escapes {
                args.push(format!("--escape-sequance={}{}", c, r));
            }
            if let Some(s) = &o.null_kw {
                args.push(format!("--null-keyword={}", s));
            }
            if let Some(s) = &o.true_kw {
                args.push(format!("--true-keyword={}", s));
            }
            if let Some(s) = &o.false_kw {
                args.push(format!("--false-keyword={}", s));
            }
            if let Some(s) = &o.missing_kw {
                args.push(format!("--missing-value-keyword={}", s));
            }
        }
    }
    let mut input = String::new();
    for r in &case.rows {
        let members: Vec<String> = r.iter().enumerate().filter_map(|(i, v)| v.as_ref().map(|g| format!("\"{}{}\":{}", pre, i, canonical(g)))).collect();
        input.push_str(&format!("{{{}}}\n", members.join(",")));
    }
    (args, input.into_bytes())
}

fn nontrivial(case: &Case15) -> (bool, bool, bool, bool) {
    let needs_quoting = |s: &str| s.contains('"') || s.contains(',') || s.contains('\n') || s.contains('\r');
    let quote = case.rows.iter().flatten().any(|c| matches!(c, Some(GVal::Str(s)) if needs_quoting(s)));
    let absent = case.rows.iter().flatten().any(|c| c.is_none());
    let nested = case.rows.iter().flatten().any(|c| matches!(c, Some(GVal::Arr(_) | GVal::Obj(_))));
    let nt = case.names.len() >= 2 && quote && (absent || nested);
    (nt, quote, absent, nested)
}

pub struct C15Csv;
impl Check for C15Csv {
    type Case = Case15;
    fn name(&self) -> &'static str {
        "C15.csv"
    }
    fn cases(&self, tier: Tier) -> u64 {
        tier.pick(40_000, 1_000_000)
    }
    fn strategy(&self, _t: Tier) -> BoxedStrategy<Case15> {
        arb_case(false)
    }
    fn check(&self, case: &Case15) -> CaseResult {
        let (args, input) = build(case);
        let o = match run_any_sink(&args, &input) {
            Ok(o) => o,
            Err(m) => return CaseResult::Fail(m),
        };
        if !o.res.is_ok() {
            return CaseResult::Fail(format!("csv run failed: {} args {:?}", o.res.short(), args));
        }
        let recs = match read_csv(&o.stdout, case.rowsep.as_bytes()) {
            Ok(r) => r,
            Err(e) => return CaseResult::Fail(format!("output is not readable as RFC 4180 csv: {} [{}]", e, esc_trunc(&o.stdout, 400))),
        };
        let n = case.names.len();
        if recs.len() != case.rows.len() + 1 {
            return CaseResult::Fail(format!("{} csv records (header included) for {} rows [{}]", recs.len(), case.rows.len(), esc_trunc(&o.stdout, 400)));
        }
        // header
        let hdr: Vec<&String> = recs[0].iter().map(|f| &f.text).collect();
        if hdr != case.names.iter().collect::<Vec<_>>() {
            return CaseResult::Fail(format!("header {:?} is not the list of selection names {:?}", hdr, case.names));
        }
        for (ri, (rec, row)) in recs[1..].iter().zip(case.rows.iter()).enumerate() {
            if rec.len() != n {
                return CaseResult::Fail(format!("row {} has {} fields, {} selections [{}]", ri, rec.len(), n, esc_trunc(&o.stdout, 400)));
            }
            for (ci, (f, cell)) in rec.iter().zip(row.iter()).enumerate() {
                let exp = cell.as_ref().map(|g| g.to_rval());
                if let Err(m) = check_csv_field(&exp, f) {
                    return CaseResult::Fail(format!("row {} field {}: {} [{}]", ri, ci, m, esc_trunc(&o.stdout, 400)));
                }
            }
        }
        let (nt, quote, absent, nested) = nontrivial(case);
        CaseResult::Pass(
            Info::new(nt)
                .class_if(quote, "string_needs_quoting")
                .class_if(absent, "absent_value")
                .class_if(nested, "nested_value")
                .class_if(case.rowsep == "\r\n", "crlf_rows")
                .class_if(case.rows.iter().flatten().any(|c| matches!(c, Some(GVal::Str(s)) if s.len() > 4000)), "cell_larger_than_4KiB")
                .class_if(case.rows.iter().any(|r| r.last().map(|c| c.is_none()).unwrap_or(false)), "absent_last_field")
                .class_if(case.names.iter().any(|n| n.contains(',') || n.contains('"')), "name_needs_quoting")
                .class_if({ let mut v = case.names.clone(); v.sort(); v.windows(2).any(|w| w[0] == w[1]) }, "duplicate_selection_name")
                .obs(json!({"stdout": esc_trunc(&o.stdout, 300)})),
        )
    }
}

pub struct C15Text;
impl Check for C15Text {
    type Case = Case15;
    fn name(&self) -> &'static str {
        "C15.text"
    }
    fn cases(&self, tier: Tier) -> u64 {
        tier.pick(40_000, 1_000_000)
    }
    fn strategy(&self, _t: Tier) -> BoxedStrategy<Case15> {
        arb_case(true)
    }
    fn check(&self, case: &Case15) -> CaseResult {
        let Some(opts) = &case.text else { return CaseResult::Discard("not a text case".into()) };
        let (args, input) = build(case);
        let o = match run_any_sink(&args, &input) {
            Ok(o) => o,
            Err(m) => return CaseResult::Fail(m),
        };
        if !o.res.is_ok() {
            return CaseResult::Fail(format!("text run failed: {} args {:?}", o.res.short(), args));
        }
        let sep = opts.items_sep.clone().unwrap_or_else(|| "\t".into());
        let mut exp = String::new();
        let mut exp_alt = String::new(); // header cells written as plain names (not specified which)
        let mut exp_alt2 = String::new(); // ... or with prefix/postfix but without escape sequences
        if opts.headers {
            exp.push_str(&case.names.iter().map(|n| text_string(n, opts)).collect::<Vec<_>>().join(&sep));
            exp.push_str(&case.rowsep);
            exp_alt.push_str(&case.names.join(&sep));
            exp_alt.push_str(&case.rowsep);
            exp_alt2.push_str(&case.names.iter().map(|n| format!("{}{}{}", opts.prefix.as_deref().unwrap_or(""), n, opts.postfix.as_deref().unwrap_or(""))).collect::<Vec<_>>().join(&sep));
            exp_alt2.push_str(&case.rowsep);
        }
        for r in &case.rows {
            let line = r.iter().map(|c| text_cell(c, opts)).collect::<Vec<_>>().join(&sep);
            exp.push_str(&line);
            exp.push_str(&case.rowsep);
            exp_alt.push_str(&line);
            exp_alt.push_str(&case.rowsep);
            exp_alt2.push_str(&line);
            exp_alt2.push_str(&case.rowsep);
        }
        if o.stdout != exp.as_bytes() && o.stdout != exp_alt.as_bytes() && o.stdout != exp_alt2.as_bytes() {
            return CaseResult::Fail(format!("text output differs from the rows the options describe: expected {} got {} (args {:?})", esc_trunc(exp.as_bytes(), 500), esc_trunc(&o.stdout, 500), args));
        }
        let (_, quote, absent, nested) = nontrivial(case);
        let escaped = !opts.escapes.is_empty() && case.rows.iter().flatten().any(|c| matches!(c, Some(GVal::Str(s)) if s.chars().any(|ch| opts.escapes.iter().any(|e| e.0 == ch))));
        CaseResult::Pass(
            Info::new(case.names.len() >= 2 && (escaped || quote) && (absent || nested))
                .class_if(escaped, "escape_sequence_applied")
                .class_if(opts.headers, "headers")
                .class_if(opts.missing_kw.is_some() && absent, "missing_keyword_used")
                .class_if(nested, "nested_value")
                .class_if(opts.prefix.is_some() || opts.postfix.is_some(), "prefix_postfix")
                .class_if(opts.null_kw.is_some() || opts.true_kw.is_some() || opts.false_kw.is_some(), "keywords")
                .obs(json!({"stdout": esc_trunc(&o.stdout, 300), "args": args})),
        )
    }
}

pub fn run_all(ctx: &mut Ctx) {
    ctx.rule = "0..7 rows of 1..5 selections; cells: absent, null, booleans, numbers (all classes for csv; integers of the 64-bit range and short decimals for text), strings over the full alphabet plus a list of tricky ones (quotes, commas, CR, LF, tab, leading/trailing blanks, keyword look-alikes), nested arrays/objects; selection names with commas, quotes, blanks, non-ASCII; row separator LF or CRLF. csv: stdout is read back with the harness' RFC 4180 reader (blank after a comma ignored): header = names, every record has exactly N fields, field-wise recovery of string contents (quoted), decimal spelling of the number (unquoted), True/False/null, empty for absent, concise JSON text of nested values (strict-parsed, same value, no whitespace). text: exact bytes against a renderer written from the option help texts (separator, prefix/postfix, single-character escape sequences, keywords, missing keyword, headers; header cells accepted with or without string decoration). non-trivial = >= 2 fields, a string that needs quoting/escaping and an absent or nested value".into();
    ctx.assumptions = vec!["csv dialect: one blank after each comma is not part of the field (the documented items separator of csv is `, `)".into(), "text mode: numbers are compared as plain decimals, so only numbers with one obvious plain spelling are generated there".into()];
    C15Csv.run(ctx);
    C15Text.run(ctx);
}

pub fn checks() -> Vec<Box<dyn DynCheck>> {
    vec![Box::new(C15Csv), Box::new(C15Text)]
}
