//! C02 JSON output validity, styles, fixpoint.

use crate::engine::*;
use crate::gen::*;
use crate::p01::{astral_chars_of, astral_rewrite};
use crate::rjson::*;
use crate::runner::*;
use proptest::collection::vec;
use proptest::prelude::*;
use serde::{Deserialize, Serialize};
use serde_json::json;

#[derive(Clone, Debug, Serialize, Deserialize)]
pub enum Expr02 {
    /// no --select: the input value itself is the row
    None,
    /// --select=.=x
    Identity,
    /// (op a b) on two number literals
    Arith(String, String, String),
    /// (concat s1 s2) on two string literals (JSON texts)
    Concat(String, String),
    /// (stringify .)
    Stringify,
    /// (sum .) — meaningful when the input is an array of numbers
    Sum,
}

#[derive(Clone, Debug, Serialize, Deserialize)]
pub struct Case02 {
    pub input: BytesS,
    pub expr: Expr02,
    /// 0 one-line, 1 consise, 2 pretty, 3 default (no --style)
    pub style: u8,
    pub utf8: bool,
    pub sep: String,
}

// (a separator is taken literally: a backslash stays a backslash, `\\n` is two characters)
pub const SEPS: &[&str] = &["\n", "\r\n", "\n\n", " ", "\t", "---\n", ";\n", "\\", ";\\", "\\|", "\\n", "|", ",", "\u{e9}\n", "%s", "="];
pub const STYLES: &[&str] = &["one-line", "consise", "pretty"];

pub fn strip_ws(row: &[u8]) -> Result<Vec<u8>, String> {
    let (_, toks) = tokens(row)?;
    let mut out = Vec::new();
    for t in toks {
        if t.kind != TokKind::Ws {
            out.extend_from_slice(&row[t.start..t.end]);
        }
    }
    Ok(out)
}

/// Shape predicate of one row for a style (0 one-line, 1 consise, 2 pretty).
pub fn check_shape(row: &[u8], style: u8) -> Result<(), String> {
    let (_, toks) = tokens(row)?;
    match style {
        1 => {
            if toks.iter().any(|t| t.kind == TokKind::Ws) {
                return Err("consise style contains insignificant whitespace".into());
            }
            Ok(())
        }
        0 => {
            if row.iter().any(|&b| b == b'\n' || b == b'\r') {
                return Err("one-line style contains a line break".into());
            }
            Ok(())
        }
        2 => check_pretty(row, &toks),
        _ => Ok(()),
    }
}

fn check_pretty(row: &[u8], toks: &[Tok]) -> Result<(), String> {
    // significant tokens with the whitespace that precedes each
    let mut sig: Vec<(Tok, &[u8])> = Vec::new();
    let mut pending: &[u8] = b"";
    for t in toks {
        if t.kind == TokKind::Ws {
            pending = &row[t.start..t.end];
        } else {
            sig.push((*t, pending));
            pending = b"";
        }
    }
    let mut unit: Option<Vec<u8>> = None;
    let mut depth: usize = 0;
    let expect_indent = |ws: &[u8], d: usize, what: &str, unit: &mut Option<Vec<u8>>| -> Result<(), String> {
        if ws.first() != Some(&b'\n') {
            return Err(format!("pretty style: {} is not on its own line", what));
        }
        let ind = &ws[1..];
        if ind.iter().any(|&b| b == b'\n' || b == b'\r') {
            return Err(format!("pretty style: blank line / CR before {}", what));
        }
        if d == 0 {
            if !ind.is_empty() {
                return Err(format!("pretty style: {} at depth 0 is indented", what));
            }
            return Ok(());
        }
        match unit {
            None => {
                if ind.is_empty() || ind.len() % d != 0 {
                    return Err(format!("pretty style: indentation of {} at depth {} is {} bytes", what, d, ind.len()));
                }
                let u = ind[..ind.len() / d].to_vec();
                if u.repeat(d) != ind {
                    return Err("pretty style: indentation is not a repeated unit".into());
                }
                *unit = Some(u);
                Ok(())
            }
            Some(u) => {
                if u.repeat(d) != ind {
                    return Err(format!("pretty style: indentation of {} at depth {} is {:?}, unit is {:?}", what, d, esc(ind), esc(u)));
                }
                Ok(())
            }
        }
    };
    let n = sig.len();
    for i in 0..n {
        let (t, ws) = sig[i];
        let prev = if i > 0 { Some(sig[i - 1].0.kind) } else { None };
        match t.kind {
            TokKind::RBrace | TokKind::RBracket => {
                let empty = matches!(prev, Some(TokKind::LBrace) | Some(TokKind::LBracket));
                depth -= 1;
                if !empty {
                    expect_indent(ws, depth, "a closing bracket", &mut unit)?;
                }
            }
            _ => {
                match prev {
                    None => {
                        if !ws.is_empty() {
                            return Err("row starts with whitespace".into());
                        }
                    }
                    Some(TokKind::LBrace) | Some(TokKind::LBracket) => expect_indent(ws, depth, "the first element/member", &mut unit)?,
                    Some(TokKind::Comma) => expect_indent(ws, depth, "an element/member", &mut unit)?,
                    Some(TokKind::Colon) | Some(TokKind::Key) => {
                        if ws.iter().any(|&b| b == b'\n' || b == b'\r') {
                            return Err("pretty style: line break between a member name and its value".into());
                        }
                    }
                    _ => {
                        // before a comma / colon
                        if ws.iter().any(|&b| b == b'\n' || b == b'\r') {
                            return Err("pretty style: line break before a separator".into());
                        }
                    }
                }
                if matches!(t.kind, TokKind::LBrace | TokKind::LBracket) {
                    depth += 1;
                }
            }
        }
    }
    Ok(())
}

fn args_for(case: &Case02, style: u8, with_select: bool) -> Vec<String> {
    let mut a = Vec::new();
    if style < 3 {
        a.push(format!("--style={}", STYLES[style as usize]));
    }
    if case.utf8 {
        a.push("--utf8-strings".into());
    }
    a.push(format!("--row-seperator={}", case.sep));
    if with_select {
        match &case.expr {
            Expr02::None => {}
            Expr02::Identity => a.push("--select=.=x".into()),
            Expr02::Arith(op, x, y) => a.push(format!("--select=({} {} {})=x", op, x, y)),
            Expr02::Concat(x, y) => a.push(format!("--select=(concat {} {})=x", x, y)),
            Expr02::Stringify => a.push("--select=(stringify .)=x".into()),
            Expr02::Sum => a.push("--select=(sum .)=x".into()),
        }
    }
    a
}

fn approx(a: f64, b: f64) -> bool {
    a == b || (a - b).abs() <= 1e-12 * a.abs().max(b.abs())
}

/// Is `got` (a row) the right row for input value `v` under `expr`? Err(text) if not.
fn row_value_ok(expr: &Expr02, v: &RVal, got: &RVal, lenient_astral: Option<&[char]>) -> Result<(), String> {
    let member = |g: &RVal| -> Result<Option<RVal>, String> {
        match g {
            RVal::Obj(o) if o.is_empty() => Ok(None),
            RVal::Obj(o) if o.len() == 1 && o[0].0 == "x" => Ok(Some(o[0].1.clone())),
            other => Err(format!("row is not an object with the single member x: {}", trunc(&other.to_json(), 200))),
        }
    };
    match expr {
        Expr02::None => {
            if same_value(v, got) {
                Ok(())
            } else {
                Err(format!("row denotes a different value than the input: expected {} got {}", trunc(&v.to_json(), 200), trunc(&got.to_json(), 200)))
            }
        }
        Expr02::Identity => match member(got)? {
            Some(x) if same_value(v, &x) => Ok(()),
            other => Err(format!("selected value differs: expected {} got {:?}", trunc(&v.to_json(), 200), other.map(|x| x.to_json()))),
        },
        Expr02::Arith(op, a, b) => {
            let a: f64 = a.parse().map_err(|_| "bad operand".to_string())?;
            let b: f64 = b.parse().map_err(|_| "bad operand".to_string())?;
            let r = match op.as_str() {
                "+" => a + b,
                "-" => a - b,
                "*" => a * b,
                "/" => {
                    if b == 0.0 {
                        f64::NAN
                    } else {
                        a / b
                    }
                }
                _ => return Err("bad op".into()),
            };
            match member(got)? {
                None => {
                    if r.is_finite() {
                        Err(format!("({} {} {}) gave nothing, expected about {}", op, a, b, r))
                    } else {
                        Ok(())
                    }
                }
                Some(x) => match x.as_f64() {
                    Some(f) if r.is_finite() && approx(f, r) => Ok(()),
                    _ => Err(format!("({} {} {}) printed {} but the result is {}", op, a, b, x.to_json(), r)),
                },
            }
        }
        Expr02::Concat(a, b) => {
            let (RVal::Str(a), RVal::Str(b)) = (parse_one(a.as_bytes())?, parse_one(b.as_bytes())?) else { return Err("bad operand".into()) };
            match member(got)? {
                Some(RVal::Str(s)) if s == format!("{}{}", a, b) => Ok(()),
                other => Err(format!("concat gave {:?}", other.map(|x| x.to_json()))),
            }
        }
        Expr02::Stringify => match member(got)? {
            Some(RVal::Str(s)) => {
                // known finding astral-escape-5hex also shows inside the text stringify builds
                let s = match lenient_astral.and_then(|a| astral_rewrite(s.as_bytes(), a)) {
                    Some(b) => String::from_utf8(b).unwrap_or(s),
                    None => s,
                };
                let back = parse_one(s.as_bytes()).map_err(|e| format!("(stringify .) is not a JSON text: {} in {}", e, trunc(&s, 200)))?;
                if same_value(v, &back) {
                    Ok(())
                } else {
                    Err(format!("(stringify .) denotes {} instead of {}", trunc(&back.to_json(), 200), trunc(&v.to_json(), 200)))
                }
            }
            other => Err(format!("(stringify .) gave {:?}", other.map(|x| x.to_json()))),
        },
        Expr02::Sum => {
            // only validity is demanded here (value semantics belong to C04)
            member(got).map(|_| ())
        }
    }
}

/// the complete C02 predicate for one configuration; returns the rows' whitespace-free texts
fn check_output(case: &Case02, style: u8, exp: &[RVal], stdout: &[u8], lenient_astral: Option<&[char]>) -> Result<Vec<Vec<u8>>, String> {
    let rows = split_rows(stdout, case.sep.as_bytes()).map_err(|e| format!("output is not `row separator` framed valid JSON: {}", e))?;
    if rows.len() != exp.len() {
        return Err(format!("{} rows for {} input values", rows.len(), exp.len()));
    }
    let mut stripped = Vec::new();
    for (i, (v, (g, s, e))) in exp.iter().zip(rows.iter()).enumerate() {
        let row = &stdout[*s..*e];
        row_value_ok(&case.expr, v, g, lenient_astral).map_err(|m| format!("row {}: {}", i, m))?;
        let eff_style = if style == 3 { 0 } else { style };
        check_shape(row, eff_style).map_err(|m| format!("row {}: {} in {}", i, m, esc_trunc(row, 300)))?;
        if !case.utf8 && row.iter().any(|&b| b >= 0x80) {
            return Err(format!("row {}: non-ASCII byte without --utf8-strings", i));
        }
        stripped.push(strip_ws(row)?);
    }
    Ok(stripped)
}

pub struct C02Print;

impl Check for C02Print {
    type Case = Case02;
    fn name(&self) -> &'static str {
        "C02.print"
    }
    fn cases(&self, tier: Tier) -> u64 {
        tier.pick(100_000, 1_500_000)
    }
    fn strategy(&self, _tier: Tier) -> BoxedStrategy<Case02> {
        let values = prop_oneof![
            7 => vec((arb_gval(CharSet::Bmp, 4, 20), arb_spelling()), 1..4),
            2 => vec((arb_gval(CharSet::Full, 3, 10), arb_spelling()), 1..3),
            1 => vec((arb_deep(CharSet::Bmp, 20, 64), arb_spelling()), 1..2),
        ]
        .prop_map(|vs| {
            let texts: Vec<String> = vs.iter().map(|(v, sp)| serialise(v, sp)).collect();
            texts.join("\n")
        });
        // one input in forty has a value whose printed row exceeds 64 KiB, followed by small ones
        let values = prop_oneof![39 => values, 1 => arb_huge_value_stream().prop_map(|s| String::from_utf8_lossy(&s.bytes.0).to_string())];
        let num = || arb_dec().prop_map(|d| d.canonical());
        let strlit = || arb_string(CharSet::Bmp).prop_map(|s| canonical(&GVal::Str(s)));
        let expr = prop_oneof![
            8 => Just(Expr02::None),
            2 => Just(Expr02::Identity),
            3 => (prop::sample::select(vec!["+", "-", "*", "/"]), num(), num()).prop_map(|(o, a, b)| Expr02::Arith(o.to_string(), a, b)),
            1 => (prop::sample::select(vec!["*", "+", "-", "/"]), prop::sample::select(vec!["1e200", "1.7976931348623157e308", "-1e308", "1e-308", "5e-324", "0", "-0.0"]), prop::sample::select(vec!["1e200", "1.7976931348623157e308", "-1e308", "1e-308", "5e-324", "0", "2"])).prop_map(|(o, a, b)| Expr02::Arith(o.to_string(), a.to_string(), b.to_string())),
            1 => (strlit(), strlit()).prop_map(|(a, b)| Expr02::Concat(a, b)),
            2 => Just(Expr02::Stringify),
            1 => Just(Expr02::Sum),
        ];
        (values, expr, 0u8..4, any::<bool>(), prop::sample::select(SEPS.to_vec()))
            .prop_map(|(input, expr, style, utf8, sep)| Case02 { input: BytesS(input.into_bytes()), expr, style, utf8, sep: sep.to_string() })
            .boxed()
    }
    fn check(&self, case: &Case02) -> CaseResult {
        let input = &case.input.0;
        let exp = match parse_stream(input) {
            Ok(v) => v.into_iter().map(|x| x.0).collect::<Vec<_>>(),
            Err(e) => return CaseResult::Discard(format!("input is not a conforming stream: {}", e)),
        };
        if exp.iter().any(|v| v.depth() > 64) {
            return CaseResult::Discard("nesting > 64".into());
        }
        if has_surrogate_escape(input) {
            return CaseResult::Discard("\\uD800-\\uDFFF escape (outside the property's domain)".into());
        }
        let astral = {
            let mut a = astral_chars_of(&exp);
            if let Expr02::Concat(x, y) = &case.expr {
                a.extend(x.chars().chain(y.chars()).filter(|c| (*c as u32) > 0xFFFF));
            }
            a
        };
        let nontrivial = exp.iter().any(|v| {
            v.depth() >= 2
                || v.to_json().contains("\\u")
                || matches!(v, RVal::Float(_))
                || fn_any_num(v, &|n| matches!(n, RVal::Float(_)) || matches!(n, RVal::Int(i) if i.unsigned_abs() >= (1u128<<53)))
        }) || matches!(case.expr, Expr02::Arith(..));
        let mut info = Info::new(nontrivial)
            .class(["style:one-line", "style:consise", "style:pretty", "style:default"][case.style as usize])
            .class(if case.utf8 { "utf8" } else { "ascii" })
            .class_if(!astral.is_empty(), "astral")
            .class_if(matches!(case.expr, Expr02::Arith(..)), "arithmetic_result")
            .class_if(matches!(case.expr, Expr02::Stringify), "stringify")
            .class_if(case.sep.bytes().any(|b| !b.is_ascii_whitespace()), "non_whitespace_separator")
            .class_if(case.utf8 && input.iter().any(|&b| b < 0x20 && !matches!(b, b'\n' | b'\r' | b'\t')) || (case.utf8 && std::str::from_utf8(input).map(|s| s.contains("\\u00")).unwrap_or(false)), "c0_under_utf8");
        let mut known: Option<String> = None;
        let mut stripped_all: Vec<Vec<Vec<u8>>> = Vec::new();
        let styles: Vec<u8> = if case.style == 3 { vec![3, 0, 1, 2] } else { let mut v = vec![case.style]; v.extend((0..3).filter(|s| *s != case.style)); v };
        let mut first_out: Vec<u8> = Vec::new();
        for (k, st) in styles.iter().enumerate() {
            let out = match run_any_sink(&args_for(case, *st, true), input) {
                Ok(o) => o,
                Err(m) => return CaseResult::Fail(m),
            };
            if !out.res.is_ok() {
                return CaseResult::Fail(format!("style {}: jawk failed: {}", st, out.res.short()));
            }
            if !out.stderr.is_empty() {
                return CaseResult::Fail(format!("style {}: stderr not empty: {}", st, esc_trunc(&out.stderr, 200)));
            }
            if k == 0 {
                first_out = out.stdout.clone();
                info = info.obs(json!({"stdout": esc_trunc(&out.stdout, 400)}));
            }
            let stripped = match check_output(case, *st, &exp, &out.stdout, None) {
                Ok(s) => s,
                Err(e) => {
                    // triage: the only listed signature is the 5/6-hex-digit escape of astral characters
                    let rewritten = astral_rewrite(&out.stdout, &astral).unwrap_or_else(|| out.stdout.clone());
                    let lenient = Case02 { utf8: true, ..case.clone() };
                    match check_output(&lenient, *st, &exp, &rewritten, Some(&astral)) {
                        Ok(s) if !astral.is_empty() => {
                            known = Some(format!("style {}: {}", st, e));
                            s
                        }
                        _ => return CaseResult::Fail(format!("style {}: {}", st, e)),
                    }
                }
            };
            stripped_all.push(stripped);
        }
        for s in &stripped_all[1..] {
            if *s != stripped_all[0] {
                return CaseResult::Fail("the styles differ in more than insignificant whitespace".into());
            }
        }
        // fixpoint: feed the output back with the same printing options (whitespace-only separators)
        // (rows already explained by the known finding are not fed back: they are known not to be valid)
        if known.is_none() && case.sep.bytes().all(|b| b.is_ascii_whitespace()) {
            let back = run(&args_for(case, case.style, false), &first_out);
            if !back.res.is_ok() || back.stdout != first_out {
                return CaseResult::Fail(format!(
                    "not a fixpoint: feeding the output back gives ({}) {} instead of {}",
                    back.res.short(),
                    esc_trunc(&back.stdout, 300),
                    esc_trunc(&first_out, 300)
                ));
            }
            info = info.class("fixpoint_checked");
        }
        match known {
            Some(e) => CaseResult::Known { key: "astral-escape-5hex", what: e, info },
            None => CaseResult::Pass(info),
        }
    }
}

fn fn_any_num(v: &RVal, f: &dyn Fn(&RVal) -> bool) -> bool {
    match v {
        RVal::Arr(a) => a.iter().any(|x| fn_any_num(x, f)),
        RVal::Obj(o) => o.iter().any(|x| fn_any_num(&x.1, f)),
        n if n.is_num() => f(n),
        _ => false,
    }
}

/// Rows produced by arbitrary generated expressions (every function can feed the printer):
/// validity, style shape, agreement of the three styles and the fixpoint - no expected value
/// is needed for any of these.
#[derive(Clone, Debug, Serialize, Deserialize)]
pub struct CaseRows {
    pub selects: Vec<crate::expr::Expr>,
    pub inputs: Vec<String>,
    pub utf8: bool,
}

pub struct C02ExprRows;
impl Check for C02ExprRows {
    type Case = CaseRows;
    fn name(&self) -> &'static str {
        "C02.expr_rows"
    }
    fn cases(&self, tier: Tier) -> u64 {
        tier.pick(30_000, 1_000_000)
    }
    fn strategy(&self, _t: Tier) -> BoxedStrategy<CaseRows> {
        (vec(any::<u32>(), 0..400), any::<bool>())
            .prop_map(|(tape, utf8)| {
                use crate::expr::*;
                let mut g = Gen::new(&tape, GenCfg { ill: 1, wild_numbers: true, exclude: vec!["exec", "trigger", "now", "env"], ..GenCfg::default() });
                let env = Env::top();
                let n = 1 + g.tape.below(3);
                let selects = (0..n)
                    .map(|_| {
                        let k = *g.tape.pick(LEAF_KINDS);
                        g.expr(k, 3, &env)
                    })
                    .collect();
                let m = 1 + g.tape.below(3);
                let inputs = (0..m).map(|_| g.record()).collect();
                CaseRows { selects, inputs, utf8 }
            })
            .boxed()
    }
    fn check(&self, c: &CaseRows) -> CaseResult {
        let mut base: Vec<String> = c.selects.iter().enumerate().map(|(i, e)| crate::expr::select_arg(e, &format!("c{}", i), &crate::expr::Spell::CANON)).collect();
        if c.utf8 {
            base.push("--utf8-strings".into());
        }
        let input: Vec<u8> = c.inputs.join("\n").into_bytes();
        let mut stripped: Vec<Vec<Vec<u8>>> = Vec::new();
        let mut nonascii = false;
        let mut floats = false;
        for (si, style) in STYLES.iter().enumerate() {
            let mut args = base.clone();
            args.push(format!("--style={}", style));
            let o = run(&args, &input);
            if !o.res.is_ok() {
                return CaseResult::Fail(format!("run failed: {} (args {:?})", o.res.short(), args));
            }
            let rows = match split_rows(&o.stdout, b"\n") {
                Ok(r) => r,
                Err(e) => return CaseResult::Fail(format!("style {}: output is not `row LF` framed valid JSON: {} [{}] (args {:?})", style, e, esc_trunc(&o.stdout, 300), args)),
            };
            if rows.len() != c.inputs.len() {
                return CaseResult::Fail(format!("style {}: {} rows for {} inputs", style, rows.len(), c.inputs.len()));
            }
            let mut st = Vec::new();
            for (_, s, e) in &rows {
                let row = &o.stdout[*s..*e];
                if let Err(m) = check_shape(row, si as u8) {
                    return CaseResult::Fail(format!("style {}: {} in {} (args {:?})", style, m, esc_trunc(row, 300), args));
                }
                if !c.utf8 && !row.is_ascii() {
                    return CaseResult::Fail(format!("style {}: non-ASCII byte without --utf8-strings in {}", style, esc_trunc(row, 300)));
                }
                nonascii |= row.windows(2).any(|w| w == b"\\u") || !row.is_ascii();
                floats |= row.contains(&b'.');
                match strip_ws(row) {
                    Ok(x) => st.push(x),
                    Err(m) => return CaseResult::Fail(m),
                }
            }
            stripped.push(st);
            // fixpoint: jawk reproduces its own output
            let mut fargs = vec![format!("--style={}", style)];
            if c.utf8 {
                fargs.push("--utf8-strings".into());
            }
            let again = run(&fargs, &o.stdout);
            if !again.res.is_ok() || again.stdout != o.stdout {
                // the one listed finding: astral characters are escaped with 5/6 hex digits
                let astral = o.stdout.windows(7).any(|w| w[0] == b'\\' && w[1] == b'u' && w[2..7].iter().all(|h| h.is_ascii_hexdigit()) && w[2] == b'1') || String::from_utf8_lossy(&o.stdout).chars().any(|ch| ch as u32 > 0xFFFF);
                if astral {
                    return CaseResult::Known { key: "astral-escape-5hex", what: format!("rows with astral characters are not a fixpoint: {}", esc_trunc(&o.stdout, 200)), info: Info::new(false).class("astral") };
                }
                return CaseResult::Fail(format!("style {}: feeding the output back does not reproduce it: {} -> {} ({})", style, esc_trunc(&o.stdout, 300), esc_trunc(&again.stdout, 300), again.res.short()));
            }
        }
        if stripped[0] != stripped[1] || stripped[1] != stripped[2] {
            return CaseResult::Fail(format!("the three styles differ by more than whitespace (args {:?})", base));
        }
        let some = stripped[0].iter().any(|r| r.len() > 2);
        CaseResult::Pass(Info::new(some).class_if(nonascii, "non_ascii_or_escaped").class_if(floats, "fraction").class_if(c.utf8, "utf8_strings").weight(5).obs(json!({"args": base, "row": stripped[0].first().map(|r| esc_trunc(r, 200))})))
    }
}

pub fn run_all(ctx: &mut Ctx) {
    ctx.rule = "cases = 1..3 generated JSON values (full Unicode alphabet, boundary and extreme numbers, nesting up to 64) or expression results (+ - * / on extreme operands, concat, stringify, sum) x style {one-line, consise, pretty, default} x --utf8-strings x 16 row separators (white space, punctuation, backslashes, a non-ASCII character); every case is also run in the other styles and fed back as input; non-trivial = a value with nesting >= 2, a non-ASCII/control character, a non-integer or > 2^53 number, or an arithmetic result; distinct = distinct (input, options) by hash".into();
    ctx.assumptions = vec![
        "the harness' strict RFC 8259 reader decides well-formedness and the denoted value".into(),
        "pretty = every element/member and every closing bracket of a non-empty collection on its own line, indentation = depth x one constant unit; empty collections unconstrained".into(),
        "arithmetic results are compared with relative tolerance 1e-12; a non-finite result may be absent".into(),
    ];
    ctx.rule.push_str(". C02.expr_rows: 1..3 generated expressions (any of the 108 pure functions, wild numbers) selected on 1..3 generated records x the three styles x --utf8-strings: every row strict-parses and is LF-framed, has the whitespace shape of its style, is ASCII without --utf8-strings, the three styles agree after deleting whitespace, and jawk reproduces its own output; no expected value is involved");
    C02Print.run(ctx);
    C02ExprRows.run(ctx);
    let d = ctx.stats.get("C02.print").map(|s| s.discarded).unwrap_or(0);
    if d > 0 {
        ctx.inconclusive.push(format!("C02.print: {} generated inputs were rejected by the harness' own strict reader (generator bug)", d));
    }
}

pub fn checks() -> Vec<Box<dyn DynCheck>> {
    vec![Box::new(C02Print), Box::new(C02ExprRows)]
}
