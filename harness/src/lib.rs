//! jv — property-based checks for yift/jawk. See /verif/DESIGN.md.
//! usage: jv <Cxx> [--tier quick|thorough] [--seed N] [--root DIR]
//!        jv --replay FILE [--root DIR]

#![allow(clippy::type_complexity)]
#![allow(dead_code)]

pub mod bind;
pub mod engine;
pub mod epipe;
pub mod eval;
pub mod expr;
pub mod ftab;
pub mod fifo;
pub mod gen;
pub mod p01;
pub mod p02;
pub mod p03;
pub mod p04;
pub mod p05;
pub mod p06;
pub mod p07;
pub mod p08;
pub mod p09;
pub mod p10;
pub mod p11;
pub mod p12;
pub mod p13;
pub mod p14;
pub mod p15;
pub mod p16;
pub mod p17;
pub mod p18;
pub mod p19;
pub mod p20;
pub mod pipe;
pub mod pools;
pub mod rows;
pub mod univ;
pub mod rjson;
pub mod runner;

use engine::*;
use std::path::PathBuf;

type Module = (&'static str, fn(&mut Ctx), fn() -> Vec<Box<dyn DynCheck>>);

fn modules() -> Vec<Module> {
    vec![
        ("C01", p01::run_all, p01::checks),
        ("C02", p02::run_all, p02::checks),
        ("C03", p03::run_all, p03::checks),
        ("C04", p04::run_all, p04::checks),
        ("C05", p05::run_all, p05::checks),
        ("C06", p06::run_all, p06::checks),
        ("C07", p07::run_all, p07::checks),
        ("C08", p08::run_all, p08::checks),
        ("C09", p09::run_all, p09::checks),
        ("C10", p10::run_all, p10::checks),
        ("C11", p11::run_all, p11::checks),
        ("C12", p12::run_all, p12::checks),
        ("C13", p13::run_all, p13::checks),
        ("C14", p14::run_all, p14::checks),
        ("C15", p15::run_all, p15::checks),
        ("C16", p16::run_all, p16::checks),
        ("C17", p17::run_all, p17::checks),
        ("C18", p18::run_all, p18::checks),
        ("C19", p19::run_all, p19::checks),
        ("C20", p20::run_all, p20::checks),
    ]
}

fn checks_for(prop: &str) -> Vec<Box<dyn DynCheck>> {
    modules().into_iter().filter(|m| m.0 == prop).flat_map(|m| (m.2)()).collect()
}

fn run_property(ctx: &mut Ctx) -> bool {
    let p = ctx.property.clone();
    match modules().into_iter().find(|m| m.0 == p) {
        Some(m) => {
            (m.1)(ctx);
            true
        }
        None => false,
    }
}

fn all_checks() -> Vec<Box<dyn DynCheck>> {
    let mut v = Vec::new();
    for i in 1..=20 {
        v.extend(checks_for(&format!("C{:02}", i)));
    }
    v
}

/// Replay one file. Returns 0 pass, 1 violation, 2 cannot decode.
fn replay_file(ctx: &mut Ctx, path: &std::path::Path, all: &[Box<dyn DynCheck>], quiet: bool) -> i32 {
    let txt = match std::fs::read_to_string(path) {
        Ok(t) => t,
        Err(e) => {
            eprintln!("cannot read {}: {}", path.display(), e);
            return 2;
        }
    };
    let rf: ReplayFile = match serde_json::from_str(&txt) {
        Ok(r) => r,
        Err(e) => {
            eprintln!("cannot decode {}: {}", path.display(), e);
            return 2;
        }
    };
    let Some(chk) = all.iter().find(|c| c.name() == rf.check) else {
        eprintln!("unknown check {} in {}", rf.check, path.display());
        return 2;
    };
    match chk.replay(&rf.case) {
        Err(e) => {
            eprintln!("{}", e);
            2
        }
        Ok(r) => {
            let before = ctx.violations.len();
            if !quiet {
                println!("replay {} -> {:?}", path.display(), short_result(&r));
            }
            // a replayed failure points at the committed replay file, not at a new finding
            match r {
                CaseResult::Fail(msg) => {
                    engine::VIOLATION_PRINTED.store(true, std::sync::atomic::Ordering::SeqCst);
                    println!("VIOLATION property={} replay={}", rf.property, path.display());
                    println!("  check={} {}", rf.check, runner::trunc(&msg, 2000));
                    ctx.violations.push(Violation { check: rf.check.clone(), msg, replay: path.to_path_buf() });
                    let st = ctx.stats.entry(format!("{}.replays", rf.property)).or_default();
                    st.evaluations += 1;
                }
                other => ctx.record(&format!("{}.replays", rf.property), &rf.case, other),
            }
            if ctx.violations.len() > before {
                1
            } else {
                0
            }
        }
    }
}

fn short_result(r: &CaseResult) -> String {
    match r {
        CaseResult::Pass(_) => "pass".into(),
        CaseResult::Known { key, .. } => format!("known finding {}", key),
        CaseResult::Fail(m) => format!("FAIL {}", runner::trunc(m, 300)),
        CaseResult::Discard(m) => format!("discarded ({})", m),
    }
}

/// Self-test of the harness' own tables and reader (run by MANIFEST.setup_cmd; a failure here is
/// a harness problem or a tree whose function table differs from the documented one - it is
/// reported, never counted as a property violation).
fn selftest() -> i32 {
    let mut bad = 0;
    // 1. the signature table is consistent with the name/arity table
    for e in expr::check_table() {
        println!("selftest: {}", e);
        bad += 1;
    }
    // 2. every documented name and alias is known to the jawk under test, with the documented arity
    for d in ftab::FTAB {
        for name in std::iter::once(&d.name).chain(d.aliases.iter()) {
            let call = |n: usize| format!("({}{})", name, " null".repeat(n));
            let ok = runner::run(&[format!("--select={} = x", call(d.min))], b"");
            if !ok.res.is_ok() {
                println!("selftest: {} with {} argument(s) is rejected: {}", name, d.min, ok.res.short());
                bad += 1;
            }
            if d.min > 0 {
                let few = runner::run(&[format!("--select={} = x", call(d.min - 1))], b"");
                if few.res.is_ok() {
                    println!("selftest: {} accepts {} argument(s), documented minimum {}", name, d.min - 1, d.min);
                    bad += 1;
                }
            }
            if d.max < 900 {
                let many = runner::run(&[format!("--select={} = x", call(d.max + 1))], b"");
                if many.res.is_ok() {
                    println!("selftest: {} accepts {} argument(s), documented maximum {}", name, d.max + 1, d.max);
                    bad += 1;
                }
            }
        }
    }
    // 3. the strict reader against serde_json on generated documents
    {
        use proptest::strategy::{Strategy, ValueTree};
        use proptest::test_runner::{Config, RngAlgorithm, TestRng, TestRunner};
        let mut runner = TestRunner::new_with_rng(Config { failure_persistence: None, ..Config::default() }, TestRng::from_seed(RngAlgorithm::ChaCha, &[7u8; 32]));
        let strat = (gen::arb_gval(gen::CharSet::Full, 4, 24), gen::arb_spelling());
        for _ in 0..3000 {
            let (v, sp) = strat.new_tree(&mut runner).unwrap().current();
            let text = gen::serialise(&v, &sp);
            let mine = rjson::parse_one(text.as_bytes());
            let theirs: Result<serde_json::Value, _> = serde_json::from_str(&text);
            match (mine, theirs) {
                (Ok(m), Ok(t)) => {
                    // structural comparison; numbers as doubles (serde_json's default float reader
                    // may be one unit in the last place off, and keeps -0)
                    fn same(t: &serde_json::Value, m: &rjson::RVal) -> bool {
                        match (t, m) {
                            (serde_json::Value::Null, rjson::RVal::Null) => true,
                            (serde_json::Value::Bool(a), rjson::RVal::Bool(b)) => a == b,
                            (serde_json::Value::String(a), rjson::RVal::Str(b)) => a == b,
                            (serde_json::Value::Number(n), r) if r.is_num() => {
                                let (x, y) = (n.as_f64().unwrap_or(f64::NAN), r.as_f64().unwrap());
                                x == y || (x - y).abs() <= 4e-16 * x.abs().max(y.abs())
                            }
                            (serde_json::Value::Array(a), rjson::RVal::Arr(b)) => a.len() == b.len() && a.iter().zip(b).all(|(x, y)| same(x, y)),
                            (serde_json::Value::Object(a), rjson::RVal::Obj(b)) => a.len() == b.len() && a.iter().zip(b).all(|((k1, v1), (k2, v2))| k1 == k2 && same(v1, v2)),
                            _ => false,
                        }
                    }
                    if !same(&t, &m) {
                        println!("selftest: strict reader and serde_json disagree on {}", runner::trunc(&text, 200));
                        bad += 1;
                    }
                }
                (Err(e), Ok(_)) => {
                    println!("selftest: strict reader rejects a conforming text ({}): {}", e, runner::trunc(&text, 200));
                    bad += 1;
                }
                (Ok(_), Err(e)) if e.to_string().contains("out of range") => {} // serde_json's own limit near the largest double
                (Ok(_), Err(e)) => {
                    // serde_json rejects numbers beyond f64 range etc.; the generator stays finite, so report
                    println!("selftest: serde_json rejects what the strict reader accepts ({}): {}", e, runner::trunc(&text, 200));
                    bad += 1;
                }
                (Err(_), Err(_)) => {}
            }
            if bad > 20 {
                break;
            }
        }
    }
    if bad == 0 {
        println!("selftest: ok ({} functions, {} aliases, 3000 documents)", ftab::FTAB.len(), ftab::FTAB.iter().map(|d| d.aliases.len()).sum::<usize>());
        0
    } else {
        println!("selftest: {} problem(s)", bad);
        2
    }
}

pub fn main_entry() {
    let args: Vec<String> = std::env::args().skip(1).collect();
    let mut prop: Option<String> = None;
    let mut tier = match std::env::var("VERIF_TIER").as_deref() {
        Ok("thorough") => Tier::Thorough,
        _ => Tier::Quick,
    };
    let mut seed: u64 = std::env::var("VERIF_SEED").ok().and_then(|s| s.trim().parse::<i128>().ok()).map(|v| v as u64).unwrap_or(0);
    let mut root = PathBuf::from(std::env::var("VERIF_ROOT").unwrap_or_else(|_| "/verif".into()));
    let mut replay: Option<PathBuf> = None;
    let mut i = 0;
    while i < args.len() {
        match args[i].as_str() {
            "--tier" => {
                i += 1;
                tier = if args.get(i).map(|s| s.as_str()) == Some("thorough") { Tier::Thorough } else { Tier::Quick };
            }
            "--seed" => {
                i += 1;
                seed = args.get(i).and_then(|s| s.parse::<i128>().ok()).map(|v| v as u64).unwrap_or(0);
            }
            "--root" => {
                i += 1;
                root = PathBuf::from(&args[i]);
            }
            "--replay" => {
                i += 1;
                replay = Some(PathBuf::from(&args[i]));
            }
            p => prop = Some(p.to_string()),
        }
        i += 1;
    }
    // a variable the `env` function can find (reference and jawk run in this process)
    std::env::set_var("JV_TEST_ENV", "jv env value \u{e9}");
    runner::install_panic_hook();
    if let Some(path) = replay {
        let all = all_checks();
        let txt = std::fs::read_to_string(&path).unwrap_or_default();
        let property = serde_json::from_str::<ReplayFile>(&txt).map(|r| r.property).unwrap_or_else(|_| "C00".into());
        let mut ctx = Ctx::new(root.clone(), &property, tier, seed);
        start_watchdog(property, root);
        let rc = replay_file(&mut ctx, &path, &all, false);
        std::process::exit(rc);
    }
    if prop.as_deref() == Some("selftest") {
        std::process::exit(selftest());
    }
    let Some(prop) = prop else {
        eprintln!("usage: jv <Cxx> [--tier quick|thorough] [--seed N] | jv --replay FILE");
        std::process::exit(2);
    };
    let mut ctx = Ctx::new(root.clone(), &prop, tier, seed);
    install_abort_reporter_for(&root, false);
    start_watchdog(prop.clone(), root.clone());
    // replay tier: committed regression inputs for this property
    let all = checks_for(&prop);
    if let Ok(rd) = std::fs::read_dir(root.join("replays")) {
        let mut files: Vec<PathBuf> = rd.filter_map(|e| e.ok()).map(|e| e.path()).filter(|p| p.file_name().and_then(|n| n.to_str()).map(|n| n.starts_with(&prop) && n.ends_with(".json")).unwrap_or(false)).collect();
        files.sort();
        for f in files {
            let rc = replay_file(&mut ctx, &f, &all, true);
            if rc == 2 {
                ctx.inconclusive.push(format!("replay file {} could not be decoded", f.display()));
            }
        }
    }
    if !run_property(&mut ctx) {
        eprintln!("unknown property {}", prop);
        std::process::exit(2);
    }
    let rc = ctx.finish();
    std::process::exit(rc);
}
