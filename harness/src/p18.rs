//! C18 Invalid configurations are rejected before any I/O.

use crate::engine::*;
use crate::fifo::*;
use crate::runner::*;
use proptest::collection::vec;
use proptest::prelude::*;
use serde::{Deserialize, Serialize};
use serde_json::{json, Value};

/// a function call template with its documented arity
#[derive(Clone, Debug, Serialize, Deserialize)]
pub struct Call {
    pub name: String,
    pub args: Vec<String>,
    pub min: usize,
    /// usize::MAX = unbounded
    pub max: usize,
}
impl Call {
    pub fn text(&self) -> String {
        format!("({} {})", self.name, self.args.join(" "))
    }
}

#[derive(Clone, Debug, Serialize, Deserialize)]
pub enum Ex {
    Atom(String),
    Call(Call),
}
impl Ex {
    pub fn text(&self) -> String {
        match self {
            Ex::Atom(a) => a.clone(),
            Ex::Call(c) => c.text(),
        }
    }
}

const ATOMS: &[&str] = &[".", ".a", ".a.b", ".l#0", "#1", "^.a", "1", "-2.5", "\"lit\"", "true", "null", "[1, 2]", "{\"k\": 1}", ":v", "@m", "&index", "&file-name", "/n0/", "\"a b\"", ".s"];

fn calls() -> Vec<(&'static str, usize, usize)> {
    vec![
        ("size", 1, 1),
        ("len", 1, 1),
        ("+", 2, usize::MAX),
        ("concat", 2, usize::MAX),
        ("?", 3, 3),
        ("if", 3, 3),
        ("map", 2, 2),
        ("filter", 2, 2),
        ("default", 1, usize::MAX),
        ("get", 2, 2),
        ("take", 2, 2),
        ("sub", 3, 3),
        ("not", 1, 1),
        ("=", 2, 2),
        ("<", 2, 2),
        ("and", 2, usize::MAX),
        ("stringify", 1, 1),
        ("-", 1, 2),
        ("join", 1, 2),
        ("set", 3, 3),
        ("sort_by", 2, 2),
        ("string?", 1, 1),
        ("push", 2, usize::MAX),
        ("/", 2, 2),
        ("|", 2, usize::MAX),
        ("range", 1, 1),
        ("keys", 1, 1),
        ("put", 3, 3),
        ("format_time", 2, 2),
        ("match", 2, 2),
    ]
}

pub fn arb_ex() -> BoxedStrategy<Ex> {
    let atom = prop::sample::select(ATOMS.to_vec()).prop_map(|s| s.to_string());
    let inner_call = (prop::sample::select(calls()), vec(prop::sample::select(ATOMS.to_vec()), 4)).prop_map(|((name, min, max), atoms)| {
        let n = if max == usize::MAX { min + 1 } else { min + (max - min) / 2 };
        let mut args: Vec<String> = atoms.iter().take(n).map(|s| s.to_string()).collect();
        if name == "set" {
            args[0] = "\"x\"".to_string();
        }
        Call { name: name.to_string(), args, min, max }
    });
    let arg = prop_oneof![3 => atom.clone(), 1 => inner_call.clone().prop_map(|c| c.text())];
    let call = (prop::sample::select(calls()), vec(arg, 4), 0usize..3).prop_map(|((name, min, max), args, extra)| {
        let n = if max == usize::MAX { min + extra.min(2) } else { (min + extra).min(max) };
        let mut args: Vec<String> = args.into_iter().take(n.max(min)).collect();
        while args.len() < n.max(min) {
            args.push(".".into());
        }
        if name == "set" {
            args[0] = "\"x\"".to_string();
        }
        Call { name: name.to_string(), args, min, max }
    });
    prop_oneof![2 => atom.prop_map(Ex::Atom), 5 => call.prop_map(Ex::Call)].boxed()
}

#[derive(Clone, Debug, Serialize, Deserialize)]
pub struct Cfg {
    /// (name, expression text, is macro)
    pub sets: Vec<(String, String, bool)>,
    /// the macro's body as a structured expression (when `sets` holds a macro)
    #[serde(default)]
    pub macro_body: Option<Ex>,
    pub split: Option<Ex>,
    pub filter: Option<Ex>,
    pub selects: Vec<Ex>,
    /// (expr, direction text)
    pub sorts: Vec<(Ex, String)>,
    /// None no grouping, Some(None) merge, Some(Some(e)) group by
    pub group: Option<Option<Ex>>,
    pub unique: bool,
    pub skip: u64,
    pub take: Option<u64>,
    /// 0 json, 1 csv, 2 text
    pub out: u8,
    /// style options belonging to `out` (already as arguments)
    pub out_opts: Vec<String>,
}

#[derive(Clone, Debug, Serialize, Deserialize)]
pub enum Slot {
    Set(usize),
    Split,
    Filter,
    Select(usize),
    Sort(usize),
    Group,
}

#[derive(Clone, Debug, Serialize, Deserialize)]
pub enum Corruption {
    UnknownFunction(Slot),
    ArityLow(Slot),
    ArityHigh(Slot),
    MissingParen(Slot),
    /// cut the expression text after this many (relative) bytes, strictly inside
    Truncate(Slot, u16),
    TrailingGarbage(Slot, String),
    /// a path cut right after a `.` or `#` separator (`.name.`, `.list#`)
    DanglingSeparator(Slot, bool),
    BadDirection(usize, String),
    SetWithoutEquals,
    SetEmptyName(bool),
    SetDuplicate,
    UnknownContext(Slot),
    CsvWithoutSelection,
    CsvWithGroup,
    JsonOptionWithOther,
    TextOptionWithOther,
    /// an element index that does not fit 64 bits (`.l#99999999999999999999`)
    HugeIndex(Slot, bool),
    /// a reference to an earlier selection without its closing slash (`/n0`)
    UnterminatedReference(Slot),
    /// an option whose expression text is empty or blank (`--group-by=`, `--filter= `)
    EmptyExpression(Slot, bool),
}

impl Cfg {
    fn slot_text(&self, s: &Slot) -> Option<String> {
        match s {
            Slot::Set(i) => self.sets.get(*i).map(|x| x.1.clone()),
            Slot::Split => self.split.as_ref().map(|e| e.text()),
            Slot::Filter => self.filter.as_ref().map(|e| e.text()),
            Slot::Select(i) => self.selects.get(*i).map(|e| e.text()),
            Slot::Sort(i) => self.sorts.get(*i).map(|e| e.0.text()),
            Slot::Group => self.group.as_ref().and_then(|g| g.as_ref()).map(|e| e.text()),
        }
    }
    fn slot_ex(&self, s: &Slot) -> Option<Ex> {
        match s {
            Slot::Set(i) => {
                if self.sets.get(*i).map(|x| x.2).unwrap_or(false) {
                    self.macro_body.clone()
                } else {
                    None
                }
            }
            Slot::Split => self.split.clone(),
            Slot::Filter => self.filter.clone(),
            Slot::Select(i) => self.selects.get(*i).cloned(),
            Slot::Sort(i) => self.sorts.get(*i).map(|e| e.0.clone()),
            Slot::Group => self.group.clone().flatten(),
        }
    }

    /// arguments; `over` replaces the expression text of one slot
    pub fn args(&self, over: Option<(&Slot, String)>) -> Vec<String> {
        let txt = |s: Slot, default: String| -> String {
            match &over {
                Some((o, t)) if format!("{:?}", o) == format!("{:?}", s) => t.clone(),
                _ => default,
            }
        };
        let mut a = Vec::new();
        for (i, (n, e, m)) in self.sets.iter().enumerate() {
            a.push(format!("--set={}{}={}", if *m { "@" } else { "" }, n, txt(Slot::Set(i), e.clone())));
        }
        if let Some(e) = &self.split {
            a.push(format!("--split-by={}", txt(Slot::Split, e.text())));
        }
        if let Some(e) = &self.filter {
            a.push(format!("--filter={}", txt(Slot::Filter, e.text())));
        }
        for (i, e) in self.selects.iter().enumerate() {
            let t = match &over {
                Some((Slot::Select(j), t)) if *j == i => t.clone(),
                _ => format!("{} = n{}", e.text(), i),
            };
            a.push(format!("--select={}", t));
        }
        for (i, (e, d)) in self.sorts.iter().enumerate() {
            let t = match &over {
                Some((Slot::Sort(j), t)) if *j == i => t.clone(),
                _ => {
                    if d.is_empty() {
                        e.text()
                    } else {
                        format!("{} {}", e.text(), d)
                    }
                }
            };
            a.push(format!("--sort-by={}", t));
        }
        match &self.group {
            Some(Some(e)) => a.push(format!("--group-by={}", txt(Slot::Group, e.text()))),
            Some(None) => a.push("--merge".into()),
            None => {}
        }
        if self.unique {
            a.push("--unique".into());
        }
        if self.skip > 0 {
            a.push(format!("--skip={}", self.skip));
        }
        if let Some(t) = self.take {
            a.push(format!("--take={}", t));
        }
        match self.out {
            1 => a.push("--output-style=csv".into()),
            2 => a.push("--output-style=text".into()),
            _ => {}
        }
        a.extend(self.out_opts.iter().cloned());
        a
    }
}

#[derive(Clone, Debug, Serialize, Deserialize)]
pub struct Case18 {
    pub cfg: Cfg,
    pub corruption: Corruption,
    /// shuffle seed for the argument order
    pub order: u64,
    pub via_file: bool,
}

pub fn arb_cfg() -> BoxedStrategy<Cfg> {
    let sets = vec((prop::sample::select(vec!["v", "w", "pi"]), prop::sample::select(vec!["1", "\"s\"", "[1,2]", "(+ 1 2)", "3.14"]), Just(false)), 0..3).prop_map(|v| {
        let mut seen = std::collections::HashSet::new();
        v.into_iter().filter(|x| seen.insert(x.0)).map(|(n, e, m)| (n.to_string(), e.to_string(), m)).collect::<Vec<_>>()
    });
    // a macro body must not use @m itself (unbounded recursion is resource exhaustion, out of scope)
    let macros = prop::option::weighted(0.4, arb_ex()).prop_map(|m| {
        m.map(|e| match e {
            Ex::Atom(a) => Ex::Atom(a.replace("@m", ":v")),
            Ex::Call(mut c) => {
                for a in c.args.iter_mut() {
                    *a = a.replace("@m", ":v");
                }
                Ex::Call(c)
            }
        })
    });
    let json_opts = prop::sample::subsequence(vec!["--style=pretty", "--utf8-strings"], 0..=2);
    let text_opts = prop::sample::subsequence(vec!["--headers", "--items-seperator=;", "--null-keyword=NULL", "--string-prefix='", "--missing-value-keyword=-"], 0..=3);
    (
        (sets, macros),
        prop::option::weighted(0.4, arb_ex()),
        prop::option::weighted(0.5, arb_ex()),
        vec(arb_ex(), 0..4),
        vec((arb_ex(), prop::sample::select(vec!["", "ASC", "DESC", "desc"])), 0..3),
        prop_oneof![3 => Just(0u8), 1 => Just(1u8), 1 => Just(2u8)],
        (any::<bool>(), 0u64..3, prop::option::of(0u64..5), 0u8..3),
        (json_opts, text_opts),
        prop::option::weighted(0.5, arb_ex()),
    )
        .prop_map(|((mut sets, mac), split, filter, mut selects, sorts, grp, (unique, skip, take, out), (jo, to), gex)| {
            let macro_body = mac.clone();
            if let Some(m) = mac {
                sets.push(("m".to_string(), m.text(), true));
            }
            let mut group = match grp {
                1 => Some(gex.clone()),
                2 => Some(None),
                _ => None,
            };
            if grp == 1 && gex.is_none() {
                group = Some(None);
            }
            let mut out_opts: Vec<String> = Vec::new();
            match out {
                0 => out_opts.extend(jo.iter().map(|s| s.to_string())),
                2 => out_opts.extend(to.iter().map(|s| s.to_string())),
                _ => {}
            }
            if out == 1 {
                group = None;
                if selects.is_empty() {
                    selects.push(Ex::Atom(".a".into()));
                }
            }
            if out == 2 && out_opts.iter().any(|o| o == "--headers") {
                // headers need at least one selection and no grouping
                group = None;
                if selects.is_empty() {
                    selects.push(Ex::Atom(".a".into()));
                }
            }
            let sorts = sorts.into_iter().map(|(e, d)| (e, d.to_string())).collect();
            Cfg { sets, macro_body, split, filter, selects, sorts, group, unique, skip, take, out, out_opts }
        })
        .boxed()
}

fn slots_of(cfg: &Cfg) -> Vec<Slot> {
    let mut v = Vec::new();
    for i in 0..cfg.sets.len() {
        v.push(Slot::Set(i));
    }
    if cfg.split.is_some() {
        v.push(Slot::Split);
    }
    if cfg.filter.is_some() {
        v.push(Slot::Filter);
    }
    for i in 0..cfg.selects.len() {
        v.push(Slot::Select(i));
    }
    for i in 0..cfg.sorts.len() {
        v.push(Slot::Sort(i));
    }
    if matches!(cfg.group, Some(Some(_))) {
        v.push(Slot::Group);
    }
    v
}

pub fn arb_case() -> BoxedStrategy<Case18> {
    (arb_cfg(), any::<u16>(), 0u8..19, any::<u16>(), prop::sample::select(vec!["junk", ")", "x y", "1", "(size .)", "]", "="]), prop::sample::select(vec!["UP", "DOWN", "ascending", "D", "1", "DESCC", "DESC junk", "asc )", "desc asc", "ASC 1", "desc,", "ASC ASC"]), any::<u64>(), prop::bool::weighted(0.2))
        .prop_map(|(mut cfg, slot_pick, kind, cut, garbage, baddir, order, via_file)| {
            let slots = slots_of(&cfg);
            let slot = if slots.is_empty() {
                cfg.filter = Some(Ex::Call(Call { name: "size".into(), args: vec![".".into()], min: 1, max: 1 }));
                Slot::Filter
            } else {
                slots[pick_idx(slot_pick, slots.len())].clone()
            };
            let corruption = match kind {
                0 => Corruption::UnknownFunction(slot),
                1 => Corruption::ArityLow(slot),
                2 => Corruption::ArityHigh(slot),
                3 => Corruption::MissingParen(slot),
                4 => Corruption::Truncate(slot, cut),
                5 => Corruption::TrailingGarbage(slot, garbage.to_string()),
                6 => Corruption::BadDirection(cut as usize, baddir.to_string()),
                7 => Corruption::SetWithoutEquals,
                8 => Corruption::SetEmptyName(cut % 2 == 0),
                9 => Corruption::SetDuplicate,
                10 => Corruption::UnknownContext(slot),
                11 => Corruption::CsvWithoutSelection,
                12 => Corruption::CsvWithGroup,
                13 => Corruption::JsonOptionWithOther,
                14 => Corruption::TextOptionWithOther,
                15 => Corruption::HugeIndex(slot, cut % 2 == 0),
                16 => Corruption::UnterminatedReference(slot),
                17 => Corruption::EmptyExpression(slot, cut % 2 == 0),
                _ => Corruption::DanglingSeparator(slot, cut % 2 == 0),
            };
            Case18 { cfg, corruption, order, via_file }
        })
        .boxed()
}

/// Apply the corruption; returns the invalid argument list (None when the corruption cannot be
/// applied to this configuration — the case is then discarded).
pub fn corrupt(cfg: &Cfg, c: &Corruption) -> Option<Vec<String>> {
    let with_call = |slot: &Slot, f: &dyn Fn(&Call) -> Option<String>| -> Option<Vec<String>> {
        let t = match cfg.slot_ex(slot)? {
            Ex::Call(c) => f(&c)?,
            Ex::Atom(_) => return None,
        };
        let t = match slot {
            Slot::Select(i) => format!("{} = n{}", t, i),
            _ => t,
        };
        Some(cfg.args(Some((slot, t))))
    };
    match c {
        Corruption::UnknownFunction(s) => with_call(s, &|c| Some(format!("(no_such_function_{} {})", c.name.len(), c.args.join(" ")))),
        Corruption::ArityLow(s) => with_call(s, &|c| {
            if c.min == 0 {
                return None;
            }
            if c.min >= 2 && c.text().len() % 2 == 1 {
                // (.f x ..): the input is the implied first argument
                return Some(format!("(.{} {})", c.name, c.args.iter().skip(1).take(c.min - 2).cloned().collect::<Vec<_>>().join(" ")));
            }
            Some(format!("({} {})", c.name, c.args.iter().take(c.min - 1).cloned().collect::<Vec<_>>().join(" ")))
        }),
        Corruption::ArityHigh(s) => with_call(s, &|c| {
            if c.max == usize::MAX {
                return None;
            }
            let mut a = c.args.clone();
            while a.len() <= c.max {
                a.push("1".into());
            }
            // half of the time in the (.f x ..) form, where the input is the implied first argument
            if c.text().len() % 2 == 1 {
                Some(format!("(.{} {})", c.name, a[1..].join(" ")))
            } else {
                Some(format!("({} {})", c.name, a.join(" ")))
            }
        }),
        Corruption::MissingParen(s) => with_call(s, &|c| {
            let t = c.text();
            Some(t[..t.len() - 1].to_string())
        }),
        Corruption::Truncate(s, cut) => {
            let t = cfg.slot_text(s)?;
            let first = t.as_bytes()[0];
            if !matches!(first, b'(' | b'"' | b'[' | b'{') || t.len() < 3 || !t.is_ascii() {
                return None;
            }
            // strictly inside: keep 1..len-1 bytes
            let keep = 1 + pick_idx(*cut, t.len() - 2);
            let cutted = t[..keep].to_string();
            let cutted = match s {
                // a name after a truncated selection would re-close nothing: leave it off
                Slot::Select(_) => cutted,
                _ => cutted,
            };
            Some(cfg.args(Some((s, cutted))))
        }
        Corruption::DanglingSeparator(s, hash) => {
            let t = cfg.slot_text(s)?;
            if !t.is_ascii() {
                return None;
            }
            // the first path token with at least one element: `.a`, `.a.b`, `.l#0`, `^.a`
            let b = t.as_bytes();
            let mut i = 0;
            let mut in_str = false;
            let mut at: Option<usize> = None;
            while i < b.len() {
                if b[i] == b'"' {
                    in_str = !in_str;
                } else if !in_str && (b[i] == b'.' || b[i] == b'#') && i + 1 < b.len() && b[i + 1].is_ascii_alphanumeric() && (i == 0 || matches!(b[i - 1], b' ' | b'(' | b'^' | b',')) {
                    let mut j = i + 1;
                    while j < b.len() && (b[j].is_ascii_alphanumeric() || b[j] == b'.' || b[j] == b'#' || b[j] == b'_') {
                        j += 1;
                    }
                    at = Some(j);
                    break;
                }
                i += 1;
            }
            let j = at?;
            let corrupted = format!("{}{}{}", &t[..j], if *hash { "#" } else { "." }, &t[j..]);
            let corrupted = match s {
                Slot::Select(i) => format!("{} = n{}", corrupted, i),
                _ => corrupted,
            };
            Some(cfg.args(Some((s, corrupted))))
        }
        Corruption::TrailingGarbage(s, g) => {
            let t = cfg.slot_text(s)?;
            // `:v junk` / `@m junk`: the name scanner stops at the blank, fine. Avoid garbage that
            // continues the expression legally: extractors glue to what follows only without a blank.
            let garbage = match s {
                Slot::Sort(_) => {
                    if g.eq_ignore_ascii_case("asc") || g.eq_ignore_ascii_case("desc") {
                        return None;
                    }
                    g.clone()
                }
                Slot::Select(_) => {
                    if g.starts_with('=') {
                        return None;
                    }
                    g.clone()
                }
                _ => g.clone(),
            };
            Some(cfg.args(Some((s, format!("{} {}", t, garbage)))))
        }
        Corruption::BadDirection(i, d) => {
            if cfg.sorts.is_empty() {
                return None;
            }
            let i = i % cfg.sorts.len();
            let t = format!("{}={}", cfg.sorts[i].0.text(), d);
            // `.a=UP`: for extractor expressions the `=` ends the key; for everything else a blank is needed
            let t = if t.starts_with('.') || t.starts_with('(') { t } else { format!("{} {}", cfg.sorts[i].0.text(), d) };
            Some(cfg.args(Some((&Slot::Sort(i), t))))
        }
        Corruption::SetWithoutEquals => {
            let mut a = cfg.args(None);
            a.push("--set=novalue".into());
            Some(a)
        }
        Corruption::SetEmptyName(mac) => {
            let mut a = cfg.args(None);
            a.push(if *mac { "--set=@=1".into() } else { "--set==1".into() });
            Some(a)
        }
        Corruption::SetDuplicate => {
            let (n, e, m) = cfg.sets.first()?.clone();
            let mut a = cfg.args(None);
            // the same name again, written with blanks around it half of the time (names are trimmed)
            let (pre, post) = [("", ""), (" ", ""), ("", " "), (" ", "  ")][(e.len() + n.len()) % 4];
            a.push(format!("--set={}{}{}{}={}", pre, if m { "@" } else { "" }, n, post, e));
            Some(a)
        }
        Corruption::EmptyExpression(s, blank) => {
            if matches!(s, Slot::Set(_)) {
                return None;
            }
            Some(cfg.args(Some((s, if *blank { "  ".to_string() } else { String::new() }))))
        }
        Corruption::UnterminatedReference(s) => {
            if matches!(s, Slot::Set(_)) {
                return None;
            }
            // at the very end of the option text, or as the last argument of a call
            let t = match (s, cfg.slot_text(s)?.len() % 2) {
                (Slot::Select(i), 0) => format!("(size /n0) = n{}", i),
                (Slot::Select(_), _) => "/n0".to_string(),
                (_, 0) => "(size /n0)".to_string(),
                _ => "/n0".to_string(),
            };
            Some(cfg.args(Some((s, t))))
        }
        Corruption::HugeIndex(s, twenty) => {
            if matches!(s, Slot::Set(_)) {
                return None;
            }
            let idx = if *twenty { "99999999999999999999" } else { "18446744073709551616" };
            let t = match s {
                Slot::Select(i) => format!(".l#{} = n{}", idx, i),
                _ => format!(".l#{}", idx),
            };
            Some(cfg.args(Some((s, t))))
        }
        Corruption::UnknownContext(s) => {
            if matches!(s, Slot::Set(_)) {
                return None;
            }
            // an unknown name, or a documented name cut short (a prefix is not a name)
            const BAD: [&str; 8] = ["&no-such-context", "&inde", "&started-at", "&", "&file-nam", "&index-in-fil", "&ended-at-line", "&started-at-char"];
            let bad = BAD[(cfg.args(None).join(" ").len() + cfg.skip as usize) % BAD.len()];
            let t = match s {
                Slot::Select(i) => format!("{} = n{}", bad, i),
                _ => bad.to_string(),
            };
            Some(cfg.args(Some((s, t))))
        }
        Corruption::CsvWithoutSelection => {
            let mut c2 = cfg.clone();
            c2.selects.clear();
            c2.out = 1;
            c2.out_opts.clear();
            c2.group = None;
            Some(c2.args(None))
        }
        Corruption::CsvWithGroup => {
            let mut c2 = cfg.clone();
            c2.out = 1;
            c2.out_opts.clear();
            if c2.selects.is_empty() {
                c2.selects.push(Ex::Atom(".a".into()));
            }
            if c2.group.is_none() {
                c2.group = Some(None);
            }
            Some(c2.args(None))
        }
        Corruption::JsonOptionWithOther => {
            let mut c2 = cfg.clone();
            if c2.out == 0 {
                c2.out = 2;
                c2.out_opts.clear();
            }
            c2.out_opts.push("--style=pretty".into());
            Some(c2.args(None))
        }
        Corruption::TextOptionWithOther => {
            let mut c2 = cfg.clone();
            if c2.out == 2 {
                c2.out = 0;
                c2.out_opts.clear();
            }
            c2.out_opts.push("--null-keyword=NULL".into());
            Some(c2.args(None))
        }
    }
}

fn shuffle(mut a: Vec<String>, seed: u64) -> Vec<String> {
    // options may come in any order; only the relative order of --select / --sort-by matters
    let mut m = crate::gen::Mix(seed);
    let n = a.len();
    let mut keyed: Vec<(u64, String)> = a.drain(..).map(|s| (m.below(1000), s)).collect();
    // keep selects and sorts in their relative order by giving them increasing keys
    let mut sel_keys: Vec<u64> = keyed.iter().filter(|k| k.1.starts_with("--select=")).map(|k| k.0).collect();
    sel_keys.sort();
    let mut srt_keys: Vec<u64> = keyed.iter().filter(|k| k.1.starts_with("--sort-by=")).map(|k| k.0).collect();
    srt_keys.sort();
    let (mut si, mut ri) = (0, 0);
    for k in keyed.iter_mut() {
        if k.1.starts_with("--select=") {
            k.0 = sel_keys[si];
            si += 1;
        } else if k.1.starts_with("--sort-by=") {
            k.0 = srt_keys[ri];
            ri += 1;
        }
    }
    let mut idx: Vec<usize> = (0..n).collect();
    idx.sort_by_key(|i| (keyed[*i].0, *i));
    idx.into_iter().map(|i| keyed[i].1.clone()).collect()
}

pub const INPUT: &[u8] = b"{\"a\":1,\"b\":\"x\",\"l\":[1,2],\"s\":\"str\"}\n{\"a\":{\"b\":2},\"l\":[],\"s\":\"t\"}\n{\"a\":3}\n";

pub struct C18Reject;
impl Check for C18Reject {
    type Case = Case18;
    fn name(&self) -> &'static str {
        "C18.reject"
    }
    fn cases(&self, tier: Tier) -> u64 {
        tier.pick(30_000, 600_000)
    }
    fn strategy(&self, _t: Tier) -> BoxedStrategy<Case18> {
        arb_case()
    }
    fn check(&self, case: &Case18) -> CaseResult {
        // the uncorrupted twin must be accepted (guards the generator)
        let good = shuffle(case.cfg.args(None), case.order);
        let twin = run(&good, INPUT);
        if !twin.res.is_ok() {
            return CaseResult::Fail(format!("the valid twin configuration is rejected: {} args {:?}", twin.res.short(), good));
        }
        let Some(bad) = corrupt(&case.cfg, &case.corruption) else { return CaseResult::Discard("corruption not applicable".into()) };
        let bad = shuffle(bad, case.order);
        let (out, file_opened) = if case.via_file {
            match with_watched_fifo(|p| {
                let mut a = bad.clone();
                a.push(p.to_string());
                run(&a, INPUT)
            }) {
                Ok(x) => x,
                Err(e) => return CaseResult::Discard(e),
            }
        } else {
            (run(&bad, INPUT), false)
        };
        let kind: &'static str = match &case.corruption {
            Corruption::UnknownFunction(_) => "unknown_function",
            Corruption::ArityLow(_) => "arity_min-1",
            Corruption::ArityHigh(_) => "arity_max+1",
            Corruption::MissingParen(_) => "missing_paren",
            Corruption::Truncate(..) => "truncation",
            Corruption::TrailingGarbage(..) => "trailing_garbage",
            Corruption::DanglingSeparator(..) => "dangling_path_separator",
            Corruption::BadDirection(..) => "bad_direction",
            Corruption::SetWithoutEquals => "set_without_equals",
            Corruption::SetEmptyName(_) => "set_empty_name",
            Corruption::SetDuplicate => "set_duplicate",
            Corruption::UnknownContext(_) => "unknown_context_name",
            Corruption::CsvWithoutSelection => "csv_without_selection",
            Corruption::CsvWithGroup => "csv_with_group",
            Corruption::JsonOptionWithOther => "json_option_with_other_style",
            Corruption::TextOptionWithOther => "text_option_with_other_style",
            Corruption::HugeIndex(..) => "index_beyond_64_bits",
            Corruption::UnterminatedReference(_) => "reference_without_closing_slash",
            Corruption::EmptyExpression(..) => "empty_expression",
        };
        let late_slot = matches!(
            &case.corruption,
            Corruption::UnknownFunction(s) | Corruption::ArityLow(s) | Corruption::ArityHigh(s) | Corruption::MissingParen(s) | Corruption::Truncate(s, _) | Corruption::TrailingGarbage(s, _) | Corruption::DanglingSeparator(s, _) | Corruption::UnknownContext(s) | Corruption::HugeIndex(s, _) | Corruption::UnterminatedReference(s) | Corruption::EmptyExpression(s, _)
                if !matches!(s, Slot::Group)
        ) || matches!(&case.corruption, Corruption::BadDirection(..) | Corruption::SetWithoutEquals | Corruption::SetEmptyName(_) | Corruption::SetDuplicate);
        let headers_style = case.cfg.out == 1 || case.cfg.out_opts.iter().any(|o| o == "--headers") || matches!(&case.corruption, Corruption::CsvWithGroup | Corruption::CsvWithoutSelection);
        let info = Info::new(late_slot || headers_style)
            .class(kind)
            .class_if(case.via_file, "input_file_watched")
            .class_if(headers_style, "header_printing_style")
            .obs(json!({"args": bad.clone(), "result": out.res.short()}));
        let fail = |m: String| CaseResult::Fail(format!("{} [corruption {:?}; args {:?}]", m, case.corruption, bad));
        if out.res.is_panic() {
            return fail(format!("panic: {}", out.res.short()));
        }
        if out.res.is_ok() {
            return fail(format!("the invalid configuration was accepted; stdout {}", esc_trunc(&out.stdout, 200)));
        }
        if !out.stdout.is_empty() {
            return fail(format!("something was written before the configuration error was reported: {}", esc_trunc(&out.stdout, 200)));
        }
        if out.stdin_opened != 0 {
            return fail("stdin was opened before the configuration error was reported".into());
        }
        if file_opened {
            return fail("the input file was opened before the configuration error was reported".into());
        }
        CaseResult::Pass(info)
    }
}

/// Every documented function under every name and alias, called with one argument too few and
/// one too many, plain and in the (.f x ..) form, in four option positions: rejected before any
/// I/O. The twin call with a documented number of arguments must be accepted, otherwise the
/// case is not judged (so the rejection is due to the arity and nothing else).
pub fn run_arity_all(ctx: &mut Ctx) {
    use crate::ftab::FTAB;
    let mut names: Vec<(&'static str, usize, usize)> = Vec::new();
    for f in FTAB {
        if f.file.contains("proccess/") {
            continue;
        }
        names.push((f.name, f.min, f.max));
        for a in f.aliases {
            names.push((a, f.min, f.max));
        }
    }
    const ATOMS4: &[&str] = &["1", ".", "\"s\"", ".a", "[1]", "null"];
    let total = names.len() as u64 * 16;
    let space = format!("all {} names and aliases x (one argument fewer than the minimum, one more than the maximum) x (plain, (.f ..) form) x 4 option positions", names.len());
    run_enum(ctx, "C18.arity_all", total, &space, move |idx| {
        let (name, min, max) = names[(idx / 16) as usize];
        let (high, dot, slot) = ((idx & 1) == 1, (idx & 2) == 2, (idx >> 2) & 3);
        let call = |n: usize| -> Option<String> {
            // n = number of arguments the function receives
            let args: Vec<&str> = (0..n).map(|i| ATOMS4[(i + idx as usize) % ATOMS4.len()]).collect();
            if dot {
                if n == 0 {
                    return None;
                }
                Some(format!("(.{} {})", name, args[1..].join(" ")).replace(" )", ")"))
            } else {
                Some(format!("({} {})", name, args.join(" ")).replace(" )", ")"))
            }
        };
        let (bad_n, good_n) = if high {
            if max >= 999 {
                let b: Box<dyn Fn() -> Value> = Box::new(|| Value::Null);
                return (b, CaseResult::Discard("no maximum".into()));
            }
            (max + 1, max)
        } else {
            if min == 0 || (dot && min < 2) {
                let b: Box<dyn Fn() -> Value> = Box::new(|| Value::Null);
                return (b, CaseResult::Discard("no smaller call".into()));
            }
            (min - 1, min)
        };
        let opt = |t: &str| -> Vec<String> {
            match slot {
                0 => vec![format!("--select={} = c", t)],
                1 => vec![format!("--filter={}", t), "--select=.a".into()],
                2 => vec!["--select=.a".into(), format!("--sort-by={}", t)],
                _ => vec![format!("--set=v={}", t), "--select=:v".into()],
            }
        };
        let (Some(bad_t), Some(good_t)) = (call(bad_n), call(good_n)) else {
            let b: Box<dyn Fn() -> Value> = Box::new(|| Value::Null);
            return (b, CaseResult::Discard("form not applicable".into()));
        };
        let (bad, good) = (opt(&bad_t), opt(&good_t));
        let mk_bad = bad.clone();
        let mk: Box<dyn Fn() -> Value> = Box::new(move || json!({"args": mk_bad}));
        let twin = run(&good, INPUT);
        if !twin.res.is_ok() {
            return (mk, CaseResult::Discard(format!("twin rejected: {}", twin.res.short())));
        }
        let out = run(&bad, INPUT);
        let fail = |m: String| CaseResult::Fail(format!("{} [args {:?}; accepted twin {:?}]", m, bad, good));
        let res = if out.res.is_panic() {
            fail(format!("panic: {}", out.res.short()))
        } else if out.res.is_ok() {
            fail(format!("a call with {} arguments of a function documented with {}..{} was accepted; stdout {}", bad_n, min, if max >= 999 { "any".to_string() } else { max.to_string() }, esc_trunc(&out.stdout, 120)))
        } else if !out.stdout.is_empty() {
            fail(format!("something was written before the configuration error was reported: {}", esc_trunc(&out.stdout, 120)))
        } else if out.stdin_opened != 0 {
            fail("stdin was opened before the configuration error was reported".into())
        } else {
            CaseResult::Pass(Info::new(true).class(if high { "arity_max+1" } else { "arity_min-1" }).class_if(dot, "dot_form").obs(json!({"args": bad, "result": out.res.short()})))
        };
        (mk, res)
    });
}

pub fn run_all(ctx: &mut Ctx) {
    ctx.rule = "a generated valid configuration (0..3 --set incl. a macro, --split-by, --filter, 0..3 --select, 0..2 --sort-by, --group-by/--merge, --unique, --skip/--take, json/csv/text with matching style options; expressions = atoms or calls of 30 documented functions with nested arguments; random argument order) x ONE corruption of 15 kinds (unknown function, arity min-1 / max+1, missing ')', truncation strictly inside a call or literal, trailing garbage, bad direction, --set without '=', empty name, duplicate, unknown &name, csv without selection / with grouping, json option with csv/text, text option with json/csv) applied in a random option position. Oracle: the valid twin is accepted; the corrupted one returns Err, writes nothing to stdout, never invokes the stdin factory and never opens the input file (FIFO watcher). non-trivial = the corruption sits in an option processed after the output stage was built (set/split/filter/select/sort) or the style prints a header. C18.arity_all: every documented function under every name and alias x (one argument below the minimum, one above the maximum) x (plain, (.f ..) form) x (--select, --filter, --sort-by, --set value), enumerated; judged only when the twin call with a documented number of arguments is accepted; same oracle".into();
    ctx.assumptions = vec!["only corruptions that are invalid by the documented grammar are generated; corruptions that cannot be applied to a configuration are discarded (counted)".into()];
    C18Reject.run(ctx);
    run_arity_all(ctx);
    let _ = std::fs::remove_dir_all(tmp_dir());
}

pub fn checks() -> Vec<Box<dyn DynCheck>> {
    vec![Box::new(C18Reject)]
}
