//! In-process runner: `jawk::Cli` + `jawk::go` under `catch_unwind`, with harness-owned
//! readers/writers (DESIGN §2.1, §2.8). Public API of jawk only.

use clap::{ArgMatches, Command, CommandFactory, FromArgMatches};
use std::cell::RefCell;
use std::collections::HashMap;
use std::io::{self, Read, Write};
use std::panic::{catch_unwind, AssertUnwindSafe};
use std::rc::Rc;
use std::sync::atomic::{AtomicBool, AtomicU64, Ordering};
use std::sync::{Arc, Mutex};

#[derive(Clone, Debug, PartialEq)]
pub enum Res {
    Ok,
    /// `go` returned Err(msg)
    Err(String),
    /// clap rejected the arguments
    Clap(String),
    Panic(String),
}

impl Res {
    pub fn is_ok(&self) -> bool {
        matches!(self, Res::Ok)
    }
    pub fn is_err(&self) -> bool {
        matches!(self, Res::Err(_) | Res::Clap(_))
    }
    pub fn is_panic(&self) -> bool {
        matches!(self, Res::Panic(_))
    }
    pub fn short(&self) -> String {
        match self {
            Res::Ok => "Ok".into(),
            Res::Err(m) => format!("Err({})", trunc(m, 160)),
            Res::Clap(m) => format!("Clap({})", trunc(m.lines().next().unwrap_or(""), 160)),
            Res::Panic(m) => format!("Panic({})", trunc(m, 300)),
        }
    }
}

pub fn trunc(s: &str, n: usize) -> String {
    if s.len() <= n {
        s.to_string()
    } else {
        let mut e = n;
        while !s.is_char_boundary(e) {
            e -= 1;
        }
        format!("{}…", &s[..e])
    }
}

#[derive(Clone, Debug)]
pub struct Outcome {
    pub res: Res,
    pub stdout: Vec<u8>,
    pub stderr: Vec<u8>,
    pub stdin_opened: usize,
    pub bytes_pulled: u64,
}

thread_local! {
    static CMD: RefCell<Option<Command>> = const { RefCell::new(None) };
    static CACHE: RefCell<HashMap<Vec<String>, Result<Rc<ArgMatches>, String>>> = RefCell::new(HashMap::new());
    static LAST_PANIC: RefCell<Option<String>> = const { RefCell::new(None) };
}

static HOOK_SET: AtomicBool = AtomicBool::new(false);

pub fn install_panic_hook() {
    if HOOK_SET.swap(true, Ordering::SeqCst) {
        return;
    }
    std::panic::set_hook(Box::new(|info| {
        let loc = info.location().map(|l| format!("{}:{}", l.file(), l.line())).unwrap_or_default();
        let msg = if let Some(s) = info.payload().downcast_ref::<&str>() {
            s.to_string()
        } else if let Some(s) = info.payload().downcast_ref::<String>() {
            s.clone()
        } else {
            "<non-string panic>".to_string()
        };
        LAST_PANIC.with(|p| *p.borrow_mut() = Some(format!("{} @ {}", msg, loc)));
    }));
}

fn matches_for(args: &[String]) -> Result<Rc<ArgMatches>, String> {
    CACHE.with(|c| {
        let mut c = c.borrow_mut();
        if let Some(m) = c.get(args) {
            return m.clone();
        }
        if c.len() > 2048 {
            c.clear();
        }
        let r = CMD.with(|cmd| {
            let mut cmd = cmd.borrow_mut();
            let cmd = cmd.get_or_insert_with(jawk::Cli::command);
            let mut full = Vec::with_capacity(args.len() + 1);
            full.push("jawk".to_string());
            full.extend(args.iter().cloned());
            cmd.try_get_matches_from_mut(full).map(Rc::new).map_err(|e| e.to_string())
        });
        c.insert(args.to_vec(), r.clone());
        r
    })
}

/// Shared capture buffer usable as `Rc<RefCell<dyn Write + Send>>`.
#[derive(Clone, Default)]
pub struct SharedBuf(pub Arc<Mutex<Vec<u8>>>);
impl Write for SharedBuf {
    fn write(&mut self, buf: &[u8]) -> io::Result<usize> {
        self.0.lock().unwrap().extend_from_slice(buf);
        Ok(buf.len())
    }
    fn flush(&mut self) -> io::Result<()> {
        Ok(())
    }
}
impl SharedBuf {
    pub fn take(&self) -> Vec<u8> {
        std::mem::take(&mut *self.0.lock().unwrap())
    }
}

/// What a faulty writer does.
#[derive(Clone, Debug)]
pub struct WriteFault {
    /// number of bytes accepted before the failure
    pub fail_at: usize,
    pub kind: io::ErrorKind,
    /// accept at most this many bytes per write call (0 = no limit)
    pub short: usize,
    /// return `Interrupted` on every n-th call (0 = never)
    pub interrupt_every: usize,
    /// fail only on flush (never on write)
    pub only_on_flush: bool,
}

pub struct FaultyWriter {
    pub buf: Arc<Mutex<Vec<u8>>>,
    pub fault: WriteFault,
    pub calls: usize,
    pub failed: Arc<AtomicBool>,
}
impl Write for FaultyWriter {
    fn write(&mut self, data: &[u8]) -> io::Result<usize> {
        self.calls += 1;
        if self.fault.only_on_flush {
            self.buf.lock().unwrap().extend_from_slice(data);
            return Ok(data.len());
        }
        if self.fault.interrupt_every > 0 && self.calls % self.fault.interrupt_every == 0 {
            return Err(io::Error::new(io::ErrorKind::Interrupted, "injected interrupt"));
        }
        let mut b = self.buf.lock().unwrap();
        let room = self.fault.fail_at.saturating_sub(b.len());
        if data.is_empty() {
            return Ok(0);
        }
        if room == 0 {
            self.failed.store(true, Ordering::SeqCst);
            return Err(io::Error::new(self.fault.kind, "injected write fault"));
        }
        let mut n = data.len().min(room);
        if self.fault.short > 0 {
            n = n.min(self.fault.short);
        }
        b.extend_from_slice(&data[..n]);
        Ok(n)
    }
    fn flush(&mut self) -> io::Result<()> {
        if self.fault.only_on_flush {
            self.failed.store(true, Ordering::SeqCst);
            return Err(io::Error::new(self.fault.kind, "injected flush fault"));
        }
        Ok(())
    }
}

/// How stdin is delivered.
#[derive(Clone, Debug)]
pub enum Delivery {
    Whole,
    /// chunk sizes cycle through this list (each >= 1)
    Chunks(Vec<usize>),
    /// as Chunks, and every n-th read call returns Interrupted first
    ChunksInterrupted(Vec<usize>, usize),
}

#[derive(Clone, Debug)]
pub struct ReadFault {
    pub fail_at: usize,
    pub kind: io::ErrorKind,
    /// the error is returned once; afterwards the stream is at its end (a connection reset)
    pub once: bool,
}

pub struct InstrReader {
    data: Arc<Vec<u8>>,
    pos: usize,
    delivery: Delivery,
    calls: usize,
    fault: Option<ReadFault>,
    fault_hits: usize,
    pulled: Arc<AtomicU64>,
    /// endless tail: after `data`, repeat this forever (until budget); every b'#' in it is
    /// replaced by the repetition counter
    tail: Option<Arc<Vec<u8>>>,
    tail_pos: usize,
    tail_buf: Vec<u8>,
    tail_count: u64,
    budget: u64,
    over_budget: Arc<AtomicBool>,
}

impl Read for InstrReader {
    fn read(&mut self, buf: &mut [u8]) -> io::Result<usize> {
        self.calls += 1;
        if buf.is_empty() {
            return Ok(0);
        }
        let mut want = buf.len();
        match &self.delivery {
            Delivery::Whole => {}
            Delivery::Chunks(c) => {
                if !c.is_empty() {
                    want = want.min(c[(self.calls - 1) % c.len()].max(1));
                }
            }
            Delivery::ChunksInterrupted(c, n) => {
                if *n > 0 && self.calls % *n == 0 {
                    return Err(io::Error::new(io::ErrorKind::Interrupted, "injected interrupt"));
                }
                if !c.is_empty() {
                    want = want.min(c[(self.calls - 1) % c.len()].max(1));
                }
            }
        }
        if let Some(f) = &self.fault {
            if self.pos >= f.fail_at {
                // a broken descriptor keeps failing; after 64 failures pretend EOF so that code
                // which (wrongly) retries for ever still terminates and is judged by its result
                self.fault_hits += 1;
                if self.fault_hits > 64 || (f.once && self.fault_hits > 1) {
                    return Ok(0);
                }
                return Err(io::Error::new(f.kind, "injected read fault"));
            }
            want = want.min(f.fail_at - self.pos);
        }
        if self.pos < self.data.len() {
            let n = want.min(self.data.len() - self.pos);
            buf[..n].copy_from_slice(&self.data[self.pos..self.pos + n]);
            self.pos += n;
            self.pulled.fetch_add(n as u64, Ordering::Relaxed);
            return Ok(n);
        }
        if let Some(t) = &self.tail {
            if self.pulled.load(Ordering::Relaxed) >= self.budget {
                // budget exhausted: record and end the stream so the run terminates
                self.over_budget.store(true, Ordering::SeqCst);
                return Ok(0);
            }
            let mut n = 0;
            while n < want {
                if self.tail_pos >= self.tail_buf.len() {
                    self.tail_buf = expand_tail(t, self.tail_count);
                    self.tail_count += 1;
                    self.tail_pos = 0;
                }
                let k = (want - n).min(self.tail_buf.len() - self.tail_pos);
                buf[n..n + k].copy_from_slice(&self.tail_buf[self.tail_pos..self.tail_pos + k]);
                n += k;
                self.tail_pos += k;
            }
            self.pulled.fetch_add(n as u64, Ordering::Relaxed);
            return Ok(n);
        }
        Ok(0)
    }
}

#[derive(Clone, Debug, Default)]
pub struct RunSpec {
    pub args: Vec<String>,
    pub stdin: Vec<u8>,
    pub delivery: Option<Delivery>,
    pub read_fault: Option<ReadFault>,
    pub write_fault: Option<WriteFault>,
    pub err_write_fault: Option<WriteFault>,
    /// endless repetition appended after `stdin`, with a byte budget
    pub endless_tail: Option<(Vec<u8>, u64)>,
}

#[derive(Clone, Debug)]
pub struct RunExtra {
    pub over_budget: bool,
    pub write_failed: bool,
}

pub fn run(args: &[String], stdin: &[u8]) -> Outcome {
    run_spec(&RunSpec { args: args.to_vec(), stdin: stdin.to_vec(), ..Default::default() }).0
}

/// `run`, and - for one input in four - a second run whose output sink accepts only a few bytes
/// per call and answers `Interrupted` now and then (as a pipe or a terminal may): the result and
/// every output byte must be the same. Err = they differ.
pub fn run_any_sink(args: &[String], stdin: &[u8]) -> Result<Outcome, String> {
    let o = run(args, stdin);
    let h = stdin.iter().chain(args.iter().flat_map(|a| a.as_bytes().iter())).fold(0xcbf29ce484222325u64, |a, b| (a ^ *b as u64).wrapping_mul(0x100000001b3));
    if h % 4 != 0 {
        return Ok(o);
    }
    let short = [1usize, 2, 3, 7, 64][(h >> 8) as usize % 5];
    let interrupt_every = [0usize, 0, 3, 5][(h >> 16) as usize % 4];
    let (o2, _) = run_spec(&RunSpec { args: args.to_vec(), stdin: stdin.to_vec(), write_fault: Some(WriteFault { fail_at: usize::MAX, kind: io::ErrorKind::Other, short, interrupt_every, only_on_flush: false }), ..Default::default() });
    if o2.res != o.res || o2.stdout != o.stdout {
        return Err(format!(
            "a sink that accepts at most {} bytes per write call{} changes the result: {} with {} output bytes instead of {} with {} bytes (args {:?})",
            short,
            if interrupt_every > 0 { format!(" and is interrupted on every {}th call", interrupt_every) } else { String::new() },
            o2.res.short(),
            o2.stdout.len(),
            o.res.short(),
            o.stdout.len(),
            args
        ));
    }
    Ok(o)
}

pub fn run_strs(args: &[&str], stdin: &[u8]) -> Outcome {
    let a: Vec<String> = args.iter().map(|s| s.to_string()).collect();
    run(&a, stdin)
}

pub fn run_spec(spec: &RunSpec) -> (Outcome, RunExtra) {
    install_panic_hook();
    let mut extra = RunExtra { over_budget: false, write_failed: false };
    let m = match matches_for(&spec.args) {
        Ok(m) => m,
        Err(e) => {
            return (
                Outcome { res: Res::Clap(e), stdout: vec![], stderr: vec![], stdin_opened: 0, bytes_pulled: 0 },
                extra,
            )
        }
    };
    let out_buf: Arc<Mutex<Vec<u8>>> = Arc::new(Mutex::new(Vec::new()));
    let err_buf: Arc<Mutex<Vec<u8>>> = Arc::new(Mutex::new(Vec::new()));
    let wfailed = Arc::new(AtomicBool::new(false));
    let stdout: Rc<RefCell<dyn Write + Send>> = match &spec.write_fault {
        None => Rc::new(RefCell::new(SharedBuf(out_buf.clone()))),
        Some(f) => Rc::new(RefCell::new(FaultyWriter { buf: out_buf.clone(), fault: f.clone(), calls: 0, failed: wfailed.clone() })),
    };
    let stderr: Rc<RefCell<dyn Write + Send>> = match &spec.err_write_fault {
        None => Rc::new(RefCell::new(SharedBuf(err_buf.clone()))),
        Some(f) => Rc::new(RefCell::new(FaultyWriter { buf: err_buf.clone(), fault: f.clone(), calls: 0, failed: wfailed.clone() })),
    };
    let opened = Rc::new(RefCell::new(0usize));
    let pulled = Arc::new(AtomicU64::new(0));
    let over = Arc::new(AtomicBool::new(false));
    let data = Arc::new(spec.stdin.clone());
    let delivery = spec.delivery.clone().unwrap_or(Delivery::Whole);
    let fault = spec.read_fault.clone();
    let tail = spec.endless_tail.as_ref().map(|(t, _)| Arc::new(t.clone()));
    let budget = spec.endless_tail.as_ref().map(|(_, b)| *b).unwrap_or(0);
    let factory = {
        let opened = opened.clone();
        let pulled = pulled.clone();
        let over = over.clone();
        Box::new(move || {
            *opened.borrow_mut() += 1;
            InstrReader {
                data: data.clone(),
                pos: 0,
                delivery: delivery.clone(),
                calls: 0,
                fault: fault.clone(),
                fault_hits: 0,
                pulled: pulled.clone(),
                tail: tail.clone(),
                tail_pos: 0,
                tail_buf: Vec::new(),
                tail_count: 0,
                budget,
                over_budget: over.clone(),
            }
        })
    };
    LAST_PANIC.with(|p| *p.borrow_mut() = None);
    let r = catch_unwind(AssertUnwindSafe(|| {
        let cli = match jawk::Cli::from_arg_matches(&m) {
            Ok(c) => c,
            Err(e) => return Res::Clap(e.to_string()),
        };
        match jawk::go(cli, stdout, stderr, factory) {
            Ok(()) => Res::Ok,
            Err(e) => Res::Err(e.to_string()),
        }
    }));
    let res = match r {
        Ok(r) => r,
        Err(_) => Res::Panic(LAST_PANIC.with(|p| p.borrow_mut().take()).unwrap_or_else(|| "<unknown>".into())),
    };
    extra.over_budget = over.load(Ordering::SeqCst);
    extra.write_failed = wfailed.load(Ordering::SeqCst);
    let stdout = std::mem::take(&mut *out_buf.lock().unwrap());
    let stderr = std::mem::take(&mut *err_buf.lock().unwrap());
    let stdin_opened = *opened.borrow();
    (Outcome { res, stdout, stderr, stdin_opened, bytes_pulled: pulled.load(Ordering::Relaxed) }, extra)
}

/// one repetition of an endless tail: every b'#' becomes the counter
pub fn expand_tail(t: &[u8], count: u64) -> Vec<u8> {
    let c = count.to_string();
    let mut out = Vec::with_capacity(t.len() + 8);
    for b in t {
        if *b == b'#' {
            out.extend_from_slice(c.as_bytes());
        } else {
            out.push(*b);
        }
    }
    out
}

/// bytes -> printable escaped text for reports
pub fn esc(b: &[u8]) -> String {
    let mut s = String::new();
    for &c in b {
        match c {
            b'\n' => s.push_str("\\n"),
            b'\r' => s.push_str("\\r"),
            b'\t' => s.push_str("\\t"),
            b'\\' => s.push_str("\\\\"),
            0x20..=0x7e => s.push(c as char),
            _ => s.push_str(&format!("\\x{:02x}", c)),
        }
    }
    s
}

pub fn esc_trunc(b: &[u8], n: usize) -> String {
    if b.len() <= n {
        esc(b)
    } else {
        format!("{}…(+{} bytes)", esc(&b[..n]), b.len() - n)
    }
}
