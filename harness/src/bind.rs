//! Binding elimination at AST level (C12): the harness' statement of "bindings behave like
//! substitution".
//!
//! `expand(e, binds)` walks `e` with the stack of bindings in (dynamic = use-site) scope and
//! returns an expression without any macro and without the variables listed in `binds`:
//!   * `:n` / `(: "n")` whose innermost binding is a listed variable -> its literal value;
//!     variables bound by an inner `(set ..)` stay (the `set` form stays too),
//!   * `@n` / `(@ "n")` -> the body of the innermost macro of that name, itself expanded under
//!     the bindings in scope at the use site (this is how jawk evaluates a macro: at the use
//!     site); unbound macros stay as they are (they yield nothing),
//!   * `(define "n" m body)` -> `body` expanded with n bound to m (the form disappears).

use crate::expr::*;

#[derive(Clone, Debug)]
pub enum Bound {
    /// listed variable with a literal value: substituted
    VarLit(String),
    /// variable bound by an inner set: left alone
    VarInner,
    Macro(Expr),
}

pub type Stack = Vec<(String, Bound)>;

fn lit_string(e: &Expr) -> Option<String> {
    if let Expr::Lit(t) = e {
        if let Ok(crate::rjson::RVal::Str(s)) = crate::rjson::parse_one(t.as_bytes()) {
            return Some(s);
        }
    }
    None
}

fn lookup_var<'a>(st: &'a Stack, n: &str) -> Option<&'a Bound> {
    st.iter().rev().find(|(k, b)| k == n && !matches!(b, Bound::Macro(_))).map(|x| &x.1)
}
fn lookup_mac<'a>(st: &'a Stack, n: &str) -> Option<&'a Expr> {
    st.iter().rev().find_map(|(k, b)| match b {
        Bound::Macro(m) if k == n => Some(m),
        _ => None,
    })
}

/// Err = expansion too deep (possible recursion) -> the caller discards the case
pub fn expand(e: &Expr, st: &mut Stack, fuel: &mut i64) -> Result<Expr, String> {
    *fuel -= 1;
    if *fuel < 0 {
        return Err("macro expansion does not terminate within the budget".into());
    }
    match e {
        Expr::Path { .. } | Expr::Lit(_) | Expr::Sel(_) | Expr::Ctx(_) => Ok(e.clone()),
        Expr::Var(n) => Ok(match lookup_var(st, n) {
            Some(Bound::VarLit(t)) => Expr::Lit(t.clone()),
            _ => e.clone(),
        }),
        Expr::Mac(n) => match lookup_mac(st, n).cloned() {
            Some(m) => expand(&m, st, fuel),
            None => Ok(e.clone()),
        },
        Expr::Call { f, args } => {
            match f.as_str() {
                ":" if args.len() == 1 => {
                    if let Some(n) = lit_string(&args[0]) {
                        if let Some(Bound::VarLit(t)) = lookup_var(st, &n) {
                            return Ok(Expr::Lit(t.clone()));
                        }
                        return Ok(e.clone());
                    }
                }
                "@" if args.len() == 1 => {
                    if let Some(n) = lit_string(&args[0]) {
                        if lookup_mac(st, &n).is_some() {
                            return expand(&Expr::Mac(n), st, fuel);
                        }
                        return Ok(e.clone());
                    }
                }
                "set" if args.len() == 3 => {
                    if let Some(n) = lit_string(&args[0]) {
                        let val = expand(&args[1], st, fuel)?;
                        st.push((n, Bound::VarInner));
                        let body = expand(&args[2], st, fuel);
                        st.pop();
                        return Ok(Expr::call("set", vec![args[0].clone(), val, body?]));
                    }
                }
                "define" if args.len() == 3 => {
                    if let Some(n) = lit_string(&args[0]) {
                        st.push((n, Bound::Macro(args[1].clone())));
                        let body = expand(&args[2], st, fuel);
                        st.pop();
                        return body;
                    }
                }
                _ => {}
            }
            let mut out = Vec::with_capacity(args.len());
            for a in args {
                out.push(expand(a, st, fuel)?);
            }
            Ok(Expr::Call { f: f.clone(), args: out })
        }
    }
}

/// does `e` mention the variable / macro (by sugar or by the function form)?
pub fn mentions(e: &Expr, var: Option<&str>, mac: Option<&str>) -> bool {
    e.any(&|x| match x {
        Expr::Var(n) => Some(n.as_str()) == var,
        Expr::Mac(n) => Some(n.as_str()) == mac,
        Expr::Call { f, args } if args.len() == 1 && (f == ":" || f == "@") => {
            let n = lit_string(&args[0]);
            (f == ":" && n.as_deref() == var && var.is_some()) || (f == "@" && n.as_deref() == mac && mac.is_some())
        }
        _ => false,
    })
}

/// is there a use of a binding strictly inside a functional argument (where `^` exists)?
pub fn binding_under_lambda(e: &Expr, var: Option<&str>, mac: Option<&str>) -> bool {
    const FUNCTIONAL: &[&str] = &["map", "filter", "flat_map", "fold", "group_by", "sort_by", "filter_keys", "filter_values", "map_keys", "map_values", "sort_by_values_by", "\"sort_by\"", "|"];
    match e {
        Expr::Call { f, args } => {
            let fun = FUNCTIONAL.contains(&f.as_str());
            args.iter().enumerate().any(|(i, a)| (fun && i >= 1 && mentions(a, var, mac)) || binding_under_lambda(a, var, mac))
        }
        _ => false,
    }
}

#[cfg(test)]
mod tests {
    use super::*;
    #[test]
    fn expands() {
        // (set "x" 1 (map .a (define "m" (+ . :v) @m)))  with v = 5
        let e = Expr::call("map", vec![Expr::key(0, "a"), Expr::call("define", vec![Expr::lit("\"m\""), Expr::call("+", vec![Expr::dot(), Expr::Var("v".into())]), Expr::Mac("m".into())])]);
        let mut st: Stack = vec![("v".into(), Bound::VarLit("5".into()))];
        let mut fuel = 1000;
        let x = expand(&e, &mut st, &mut fuel).unwrap();
        assert_eq!(canon(&x), "(map .a (+ . 5))");
    }
    #[test]
    fn shadowing() {
        let e = Expr::call("set", vec![Expr::lit("\"v\""), Expr::lit("2"), Expr::Var("v".into())]);
        let mut st: Stack = vec![("v".into(), Bound::VarLit("5".into()))];
        let mut fuel = 1000;
        let x = expand(&e, &mut st, &mut fuel).unwrap();
        assert_eq!(canon(&x), "(set \"v\" 2 :v)");
    }
}
