//! jv — property-based checks for yift/jawk. See /verif/DESIGN.md.
fn main() {
    jv::main_entry()
}
