//! C16 Read and write failures — fault enumeration over every byte offset.

use crate::engine::*;
use crate::gen::*;
use crate::p06::{build_inputs, garbage_byte, POLICIES};
use crate::runner::*;
use proptest::collection::vec;
use proptest::prelude::*;
use serde::{Deserialize, Serialize};
use serde_json::json;
use std::io::ErrorKind;

#[derive(Clone, Debug, Serialize, Deserialize)]
pub struct Case16 {
    pub values: Vec<String>,
    pub noise: Vec<Vec<BytesS>>,
    pub policy: u8,
    /// 0 none, 1 select, 2 filter, 3 unique, 4 sort (buffering), 5 group (buffering), 6 csv, 7 text with headers, 8 merge
    pub pipeline: u8,
    /// chunk sizes for short reads / short writes
    pub chunks: Vec<usize>,
    /// every n-th call is Interrupted first (0 = never)
    pub interrupt_every: usize,
    pub kind_shift: usize,
}

pub const KINDS: &[ErrorKind] = &[ErrorKind::Other, ErrorKind::BrokenPipe, ErrorKind::UnexpectedEof, ErrorKind::InvalidData, ErrorKind::TimedOut, ErrorKind::PermissionDenied, ErrorKind::WouldBlock];

fn pipeline_args(p: u8) -> Vec<String> {
    let v: &[&str] = match p {
        1 => &["--select=.=v", "--select=(string? .)=s"],
        2 => &["--filter=(not (null? .))"],
        3 => &["--unique"],
        4 => &["--sort-by=."],
        5 => &["--group-by=(stringify .)"],
        6 => &["--select=.=v", "--select=(size .)=n", "--output-style=csv"],
        7 => &["--select=.=v", "--output-style=text", "--headers"],
        8 => &["--merge"],
        9 => &["--take=2"],
        10 => &["--select=.=v", "--skip=1", "--take=1"],
        11 => &["--sort-by=.", "--take=1"],
        // every value twice (a stage that sits between the reader and the failing writer)
        12 => &["--split-by=(push [] . .)"],
        13 => &["--split-by=(push [] . .)", "--select=.=v", "--take=3"],
        14 => &["--split-by=(push [] . .)", "--filter=(not (null? .))", "--unique"],
        _ => &[],
    };
    v.iter().map(|s| s.to_string()).collect()
}
fn streaming(p: u8) -> bool {
    !matches!(p, 4 | 5 | 8 | 11)
}
/// pipelines that legitimately stop reading after this many rows
fn take_limit(p: u8) -> Option<usize> {
    match p {
        9 => Some(2),
        10 => Some(1),
        13 => Some(3),
        _ => None,
    }
}

pub struct C16Faults;
impl Check for C16Faults {
    type Case = Case16;
    fn name(&self) -> &'static str {
        "C16.faults"
    }
    fn cases(&self, tier: Tier) -> u64 {
        tier.pick(6_000, 150_000)
    }
    fn strategy(&self, _t: Tier) -> BoxedStrategy<Case16> {
        let val = prop_oneof![
            5 => (arb_gval(CharSet::Bmp, 2, 6), arb_spelling()).prop_map(|(v, sp)| serialise(&v, &sp)),
            3 => prop::sample::select(vec!["1", "12", "true", "null", "\"ab\"", "[]", "{}", "-0.5", "[1,2]", "{\"a\":1}", "1e2"]).prop_map(|s| s.to_string()),
        ]
        .prop_filter("short", |s| s.len() <= 60);
        let gap = prop_oneof![
            4 => Just(Vec::<BytesS>::new()),
            1 => vec(vec(garbage_byte(), 1..3).prop_map(BytesS), 1..3),
        ];
        (vec(val, 0..7), vec(gap, 8), 0u8..4, 0u8..15, vec(1usize..9, 1..4), prop_oneof![Just(0usize), 2usize..5], 0usize..7)
            .prop_map(|(values, mut noise, policy, pipeline, chunks, interrupt_every, kind_shift)| {
                noise.truncate(values.len() + 1);
                Case16 { values, noise, policy, pipeline, chunks, interrupt_every, kind_shift }
            })
            .boxed()
    }
    fn check(&self, case: &Case16) -> CaseResult {
        let (_, input) = build_inputs(&case.values, &case.noise);
        if input.len() > 400 {
            return CaseResult::Discard("input longer than 400 bytes".into());
        }
        if (case.pipeline == 3 || case.pipeline == 14) && !crate::univ::coherent_for_unique(&input) {
            return CaseResult::Discard("--unique over values where jawk's = and hash disagree (outside C10's domain; the kept rows depend on the hash seed)".into());
        }
        let mut args = pipeline_args(case.pipeline);
        args.push(format!("--on-error={}", POLICIES[case.policy as usize]));
        let delivery = if case.interrupt_every > 0 { Delivery::ChunksInterrupted(case.chunks.clone(), case.interrupt_every) } else { Delivery::Chunks(case.chunks.clone()) };
        // fault-free run (same delivery)
        let (ff, _) = run_spec(&RunSpec { args: args.clone(), stdin: input.clone(), delivery: Some(delivery.clone()), ..Default::default() });
        if ff.res.is_panic() {
            return CaseResult::Fail(format!("fault-free run panicked: {}", ff.res.short()));
        }
        let mut runs = 0u64;
        let mut interior = 0u64;
        let fail = |m: String| CaseResult::Fail(format!("{} [args {:?} input {}]", m, args, esc_trunc(&input, 300)));
        let ff_ok = ff.res.is_ok();
        // ---------------- read faults at every offset (also exactly at the end)
        for k2 in 0..=(2 * input.len() + 1) {
            // every offset twice: a descriptor that keeps failing, and an error that is reported
            // once and followed by end of stream (a reset connection)
            let (k, once) = (k2 / 2, k2 % 2 == 1);
            let kind = KINDS[(k + case.kind_shift) % KINDS.len()];
            let (o, _) = run_spec(&RunSpec { args: args.clone(), stdin: input.clone(), delivery: Some(delivery.clone()), read_fault: Some(ReadFault { fail_at: k, kind, once }), ..Default::default() });
            runs += 1;
            if o.res.is_panic() {
                return fail(format!("read fault ({:?}) at byte {}: panic {}", kind, k, o.res.short()));
            }
            // under the panic policy the fault-free run may already fail before k: then either error is fine
            if o.res.is_ok() {
                // --take: the run may be over before the failing byte is needed - then it is the
                // complete fault-free output with the limit reached; anything else is a swallowed error
                let legit = take_limit(case.pipeline).map(|t| o.stdout == ff.stdout && ff.stdout.split(|c| *c == b'\n').filter(|l| !l.is_empty() && !l.starts_with(b"error:")).count() == t).unwrap_or(false);
                if legit {
                    continue;
                }
                return fail(format!("read fault ({:?}{}) at byte {} was not reported: the run returned Ok (mistaken for end of input or skipped)", kind, if once { ", reported once" } else { "" }, k));
            }
            if streaming(case.pipeline) || true {
                if !ff.stdout.starts_with(&o.stdout) {
                    return fail(format!("read fault at byte {}: stdout {} is not a prefix of the fault-free stdout {}", k, esc_trunc(&o.stdout, 200), esc_trunc(&ff.stdout, 200)));
                }
                if !ff.stderr.starts_with(&o.stderr) {
                    return fail(format!("read fault at byte {}: stderr {} is not a prefix of the fault-free stderr", k, esc_trunc(&o.stderr, 200)));
                }
            }
            // nothing that depends on bytes at or after k may have been printed: compare with the run on the truncated input
            let (t, _) = run_spec(&RunSpec { args: args.clone(), stdin: input[..k].to_vec(), ..Default::default() });
            runs += 1;
            if o.stdout.len() > t.stdout.len() && streaming(case.pipeline) {
                return fail(format!("read fault at byte {}: more output ({}) than the first {} bytes can justify ({})", k, esc_trunc(&o.stdout, 200), k, esc_trunc(&t.stdout, 200)));
            }
            if !streaming(case.pipeline) && case.policy != 1 && !o.stdout.is_empty() {
                return fail(format!("read fault at byte {}: a buffering pipeline printed {} although the input never ended", k, esc_trunc(&o.stdout, 200)));
            }
            if !o.stdout.is_empty() && k < input.len() {
                interior += 1;
            }
        }
        // ---------------- write faults at every offset of the fault-free stdout
        if ff_ok {
            let w = &ff.stdout;
            for k in 0..=w.len() {
                let kind = KINDS[(k + case.kind_shift + 1) % KINDS.len()];
                let wf = WriteFault { fail_at: k, kind, short: case.chunks[k % case.chunks.len()], interrupt_every: case.interrupt_every, only_on_flush: false };
                let (o, x) = run_spec(&RunSpec { args: args.clone(), stdin: input.clone(), write_fault: Some(wf), ..Default::default() });
                runs += 1;
                if o.res.is_panic() {
                    return fail(format!("write fault ({:?}) after {} bytes: panic {}", kind, k, o.res.short()));
                }
                if k < w.len() {
                    if !o.res.is_err() {
                        return fail(format!("write fault ({:?}) after {} of {} output bytes was not reported: the run returned {}", kind, k, w.len(), o.res.short()));
                    }
                    if o.stdout != w[..k] {
                        return fail(format!("write fault after {} bytes: the writer accepted {} instead of exactly the first {} bytes of {}", k, esc_trunc(&o.stdout, 200), k, esc_trunc(w, 200)));
                    }
                    if k > 0 {
                        interior += 1;
                    }
                } else if !o.res.is_ok() || o.stdout != *w || x.write_failed {
                    return fail(format!("writer with room for the whole output ({} bytes): result {} accepted {}", k, o.res.short(), esc_trunc(&o.stdout, 200)));
                }
            }
            // a writer that fails only when flushed
            if !w.is_empty() {
                let wf = WriteFault { fail_at: usize::MAX, kind: ErrorKind::Other, short: 0, interrupt_every: 0, only_on_flush: true };
                let (o, _) = run_spec(&RunSpec { args: args.clone(), stdin: input.clone(), write_fault: Some(wf), ..Default::default() });
                runs += 1;
                if o.res.is_panic() || o.res.is_ok() {
                    return fail(format!("an output stream whose flush fails: the run returned {} (output silently lost)", o.res.short()));
                }
            }
            // the error stream of --on-error=stderr
            if case.policy == 2 && !ff.stderr.is_empty() {
                let e = &ff.stderr;
                for k in 0..e.len() {
                    let wf = WriteFault { fail_at: k, kind: ErrorKind::Other, short: case.chunks[k % case.chunks.len()], interrupt_every: case.interrupt_every, only_on_flush: false };
                    let (o, _) = run_spec(&RunSpec { args: args.clone(), stdin: input.clone(), err_write_fault: Some(wf), ..Default::default() });
                    runs += 1;
                    if o.res.is_panic() || !o.res.is_err() {
                        return fail(format!("failing error stream after {} bytes: the run returned {}", k, o.res.short()));
                    }
                    if o.stderr != e[..k] || !ff.stdout.starts_with(&o.stdout) {
                        return fail(format!("failing error stream after {} bytes: accepted {} / stdout {}", k, esc_trunc(&o.stderr, 200), esc_trunc(&o.stdout, 200)));
                    }
                }
            }
        }
        CaseResult::Pass(
            Info::new(interior >= 2)
                .weight(runs.saturating_sub(1))
                .class(["policy:ignore", "policy:stdout", "policy:stderr", "policy:panic"][case.policy as usize])
                .class(["pipe:none", "pipe:select", "pipe:filter", "pipe:unique", "pipe:sort", "pipe:group", "pipe:csv", "pipe:text+headers", "pipe:merge", "pipe:take", "pipe:select+skip+take", "pipe:sort+take", "pipe:split", "pipe:split+select+take", "pipe:split+filter+unique"][case.pipeline as usize])
                .class_if(case.interrupt_every > 0, "with_interrupted")
                .class_if(!ff_ok, "fault_free_run_fails(panic policy + noise)")
                .obs(json!({"input_len": input.len(), "stdout_len": ff.stdout.len(), "faulted_runs": runs, "interior_offsets": interior})),
        )
    }
}

// ---------------------------------------------------------------- an input file that cannot be read

/// Several input files, one of which opens but fails on the first read (/proc/self/mem: EIO at
/// offset 0). The run must fail; a streaming pipeline has printed exactly the rows of the files
/// before it - nothing from the files after it - and a buffering pipeline nothing at all.
#[derive(Clone, Debug, Serialize, Deserialize)]
pub struct CaseBadFile {
    /// value texts per readable file
    pub files: Vec<Vec<String>>,
    /// position of the unreadable file among them (0..=files.len())
    pub bad_at: usize,
    pub policy: u8,
    pub pipeline: u8,
}

pub struct C16BadFile;
impl Check for C16BadFile {
    type Case = CaseBadFile;
    fn name(&self) -> &'static str {
        "C16.failing_file"
    }
    fn cases(&self, tier: Tier) -> u64 {
        tier.pick(3_000, 60_000)
    }
    fn strategy(&self, _t: Tier) -> BoxedStrategy<CaseBadFile> {
        let val = prop::sample::select(vec!["1", "true", "null", "\"a\"", "[]", "{}", "-0.5", "[1,2]", "{\"a\":1}", "\"b\"", "2", "[3]"]).prop_map(|s| s.to_string());
        (vec(vec(val, 0..5), 1..4), any::<u16>(), 0u8..4, 0u8..15)
            .prop_map(|(files, at, policy, pipeline)| {
                let bad_at = pick_idx(at, files.len() + 1);
                CaseBadFile { files, bad_at, policy, pipeline }
            })
            .boxed()
    }
    fn check(&self, c: &CaseBadFile) -> CaseResult {
        if !std::path::Path::new("/proc/self/mem").exists() {
            return CaseResult::Discard("no /proc/self/mem".into());
        }
        // a directory of its own for every invocation (the same case may run in two shards at once)
        static SEQ: std::sync::atomic::AtomicU64 = std::sync::atomic::AtomicU64::new(0);
        let dir = crate::fifo::tmp_dir().join(format!("c16-{}-{:016x}", SEQ.fetch_add(1, std::sync::atomic::Ordering::Relaxed), hash_str(&serde_json::to_string(c).unwrap())));
        let _ = std::fs::create_dir_all(&dir);
        let mut paths = Vec::new();
        for (i, f) in c.files.iter().enumerate() {
            let p = dir.join(format!("{}{}.json", ["m", "c", "x"][i % 3], i));
            let text: String = f.iter().map(|v| format!("{}\n", v)).collect();
            if std::fs::write(&p, text).is_err() {
                let _ = std::fs::remove_dir_all(&dir);
                return CaseResult::Discard("cannot write temp file".into());
            }
            paths.push(p.to_str().unwrap().to_string());
        }
        let mut base = pipeline_args(c.pipeline);
        base.push(format!("--on-error={}", POLICIES[c.policy as usize % 4]));
        let with = |files: &[String]| {
            let mut a = base.clone();
            a.extend(files.iter().cloned());
            a
        };
        let mut all = paths.clone();
        all.insert(c.bad_at, "/proc/self/mem".to_string());
        let o = run(&with(&all), b"");
        // reference: only the files in front of the unreadable one (none: an empty file)
        let before: Vec<String> = if c.bad_at == 0 {
            let e = dir.join("empty.json");
            let _ = std::fs::write(&e, "");
            vec![e.to_str().unwrap().to_string()]
        } else {
            paths[..c.bad_at].to_vec()
        };
        let r = run(&with(&before), b"");
        let _ = std::fs::remove_dir_all(&dir);
        if o.res.is_panic() {
            return CaseResult::Fail(format!("panic: {} (args {:?})", o.res.short(), with(&all)));
        }
        let rows_before: usize = c.files[..c.bad_at].iter().map(|f| f.len()).sum();
        // pipeline 13 splits every value into two rows
        let rows_before = if c.pipeline == 13 { rows_before * 2 } else { rows_before };
        let stopped_early = take_limit(c.pipeline).map(|t| rows_before >= t + if c.pipeline == 10 { 1 } else { 0 }).unwrap_or(false);
        if stopped_early {
            // --take was satisfied before the unreadable file was reached: it is never opened
            if o.res != r.res || o.stdout != r.stdout {
                return CaseResult::Fail(format!("the limit was reached before the unreadable file, yet the result differs: {} {} vs {} {} (args {:?})", o.res.short(), esc_trunc(&o.stdout, 200), r.res.short(), esc_trunc(&r.stdout, 200), with(&all)));
            }
            return CaseResult::Pass(Info::new(false).class("limit_reached_before_the_unreadable_file"));
        }
        if !o.res.is_err() {
            return CaseResult::Fail(format!("an input file that cannot be read was not reported: result {} stdout {} (args {:?})", o.res.short(), esc_trunc(&o.stdout, 200), with(&all)));
        }
        if o.stdin_opened != 0 {
            return CaseResult::Fail("stdin was opened although input files were given".into());
        }
        let expected: &[u8] = if streaming(c.pipeline) { &r.stdout } else { b"" };
        // csv / text with a header: the header is printed by the reference too
        let expected = if !streaming(c.pipeline) { expected } else { expected };
        if o.stdout != expected {
            return CaseResult::Fail(format!(
                "input file {} of {} cannot be read: stdout is {} but the rows of the files in front of it are {} (args {:?})",
                c.bad_at + 1,
                all.len(),
                esc_trunc(&o.stdout, 300),
                esc_trunc(expected, 300),
                with(&all)
            ));
        }
        let after: usize = c.files[c.bad_at..].iter().map(|f| f.len()).sum();
        CaseResult::Pass(
            Info::new(rows_before > 0 && after > 0)
                .class_if(c.bad_at == 0, "first_file_unreadable")
                .class_if(c.bad_at == c.files.len(), "last_file_unreadable")
                .class_if(c.bad_at > 0 && c.bad_at < c.files.len(), "middle_file_unreadable")
                .class_if(!streaming(c.pipeline), "buffering_pipeline")
                .obs(json!({"args": with(&all), "stdout": esc_trunc(&o.stdout, 120), "result": o.res.short()})),
        )
    }
}

pub fn run_all(ctx: &mut Ctx) {
    ctx.level = "fault_enumeration";
    ctx.rule = "per generated (input <= 400 bytes incl. noise, policy, pipeline, short-read/short-write schedule with Interrupted results): a read fault at EVERY byte offset 0..=len (7 error kinds rotating over the offsets) and a write fault at EVERY byte offset of the fault-free stdout (and of the fault-free stderr under --on-error=stderr), plus a writer that fails only on flush. Oracle: never a panic; the run returns Err (never Ok); stdout/stderr accepted so far are byte prefixes of the fault-free ones; no more output than the bytes before the fault justify (run on the truncated input); write faults: exactly fault_free[..k] was accepted. evaluations = individual faulted runs; non-trivial case = at least two fault offsets strictly inside the stream (output already produced and more to come); distinct = distinct cases by hash".into();
    ctx.assumptions = vec!["a failing descriptor keeps failing (after 64 failures the reader reports EOF so that an implementation that wrongly retries terminates and is judged by its result)".into()];
    C16Faults.run(ctx);
    ctx.rule.push_str(". C16.failing_file: 1..3 readable files and one that opens but fails on the first read (/proc/self/mem) at every position among them x 4 policies x 15 pipelines: the run fails, a streaming pipeline has printed exactly the rows of the files in front of it, a buffering one nothing");
    C16BadFile.run(ctx);
}

pub fn checks() -> Vec<Box<dyn DynCheck>> {
    vec![Box::new(C16Faults), Box::new(C16BadFile)]
}
