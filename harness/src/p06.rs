//! C06 Noise never changes values; --on-error policies.

use crate::engine::*;
use crate::gen::*;
use crate::runner::*;
use proptest::collection::vec;
use proptest::prelude::*;
use serde::{Deserialize, Serialize};
use serde_json::json;

#[derive(Clone, Debug, Serialize, Deserialize)]
pub struct Case06 {
    pub values: Vec<String>,
    /// garbage tokens per gap (values.len()+1 gaps)
    pub noise: Vec<Vec<BytesS>>,
    /// 0 ignore, 1 stdout, 2 stderr, 3 panic
    pub policy: u8,
    pub pipeline: u8,
    /// also pass --only-objects-and-arrays (top-level scalars are dropped after parsing)
    #[serde(default)]
    pub only_objects: bool,
}

pub const POLICIES: &[&str] = &["ignore", "stdout", "stderr", "panic"];

pub fn pipeline_args(p: u8) -> Vec<String> {
    let v: &[&str] = match p {
        0 => &[],
        1 => &["--select=.=v"],
        2 => &["--filter=(not (number? .))"],
        3 => &["--select=.=v", "--select=&index=n"],
        4 => &["--unique"],
        5 => &["--sort-by=."],
        6 => &["--group-by=(stringify .)"],
        7 => &["--split-by=(? (array? .) . (push [] .))", "--select=.=v"],
        _ => &[],
    };
    v.iter().map(|s| s.to_string()).collect()
}
pub const N_PIPELINES: u8 = 8;
fn one_row_per_value(p: u8) -> bool {
    matches!(p, 0 | 1 | 3)
}
fn streaming(p: u8) -> bool {
    !matches!(p, 5 | 6)
}

/// bytes that cannot start a JSON value and are not whitespace
pub fn garbage_byte() -> BoxedStrategy<u8> {
    prop_oneof![
        6 => prop::sample::select(b"}],:.eE+aruls".to_vec()),
        2 => any::<u8>(),
        1 => 0x80u8..=0xff,
        1 => 0u8..0x20,
    ]
    .prop_filter("not whitespace, not a value start", |b| !matches!(*b, b' ' | b'\t' | b'\n' | b'\r' | b'n' | b't' | b'f' | b'"' | b'-' | b'[' | b'{' | b'0'..=b'9'))
    .boxed()
}

pub fn build_inputs(values: &[String], noise: &[Vec<BytesS>]) -> (Vec<u8>, Vec<u8>) {
    let mut clean = Vec::new();
    let mut noisy = Vec::new();
    for i in 0..=values.len() {
        if let Some(toks) = noise.get(i) {
            for (k, t) in toks.iter().enumerate() {
                noisy.extend_from_slice(&t.0);
                noisy.push(if k % 2 == 0 { b' ' } else { b'\n' });
            }
        }
        if let Some(v) = values.get(i) {
            clean.extend_from_slice(v.as_bytes());
            clean.push(b'\n');
            noisy.extend_from_slice(v.as_bytes());
            noisy.push(b'\n');
        }
    }
    (clean, noisy)
}

fn lines(b: &[u8]) -> Vec<&[u8]> {
    let mut v: Vec<&[u8]> = b.split(|c| *c == b'\n').collect();
    if v.last().map(|l| l.is_empty()).unwrap_or(false) {
        v.pop();
    }
    v
}

pub struct C06Noise;
impl Check for C06Noise {
    type Case = Case06;
    fn name(&self) -> &'static str {
        "C06.noise"
    }
    fn cases(&self, tier: Tier) -> u64 {
        tier.pick(40_000, 800_000)
    }
    fn strategy(&self, _t: Tier) -> BoxedStrategy<Case06> {
        let val = prop_oneof![
            6 => (arb_gval(CharSet::Bmp, 3, 12), arb_spelling()).prop_map(|(v, sp)| serialise(&v, &sp)),
            2 => prop::sample::select(vec!["1", "true", "null", "\"a\"", "[]", "{}", "-0.5", "[1,2]", "{\"a\":1}"]).prop_map(|s| s.to_string()),
        ];
        // a token is 1..3 garbage bytes, or a pair of strings that both die on a bad escape
        // (`"ab\q"cd\q`: the quote that would close the first opens the second, so the region
        // ends outside any string)
        let token = prop_oneof![
            12 => vec(garbage_byte(), 1..4).prop_map(BytesS),
            1 => ("[a-z ]{0,6}", prop::sample::select(vec!["\\q", "\\x", "\\uZ", "\\u12", "\\ "]), "[a-z]{0,6}", prop::sample::select(vec!["\\q", "\\x", "\\uZ"])).prop_map(|(a, e1, b, e2)| BytesS(format!("\"{}{}\"{}{}", a, e1, b, e2).into_bytes())),
            // the beginning of true / false / null followed by a byte that is neither the next
            // letter nor the start of a value: a literal that is almost there is not a value
            1 => (prop::sample::select(vec!["t", "tr", "tru", "f", "fa", "fal", "fals", "n", "nu", "nul"]), prop::sample::select(b"}],:.+".to_vec())).prop_map(|(p, b)| {
                let mut v = p.as_bytes().to_vec();
                v.push(b);
                BytesS(v)
            }),
            // a complete quoted string whose content is not UTF-8: malformed as a whole, and
            // the quote that closes it does not open anything
            1 => ("[a-z]{0,5}", prop::sample::select(vec![&b"\xff"[..], &b"\xc3"[..], &b"\xe2\x82"[..], &b"\x80"[..], &b"\xf0\x9f\x98"[..], &b"\xc3\x28"[..]]), "[a-z]{0,5}").prop_map(|(a, bad, b)| {
                let mut v = vec![b'"'];
                v.extend_from_slice(a.as_bytes());
                v.extend_from_slice(bad);
                v.extend_from_slice(b.as_bytes());
                v.push(b'"');
                BytesS(v)
            }),
        ];
        let gap = prop_oneof![
            30 => Just(Vec::<BytesS>::new()),
            20 => vec(token.clone(), 1..4),
            // a long malformed region (more reports in a row than any plausible cap)
            1 => vec(token, 35..120),
        ];
        (vec(val, 0..12), vec(gap, 13), 0u8..4, 0u8..N_PIPELINES, prop::bool::weighted(0.2))
            .prop_map(|(values, mut noise, policy, pipeline, only_objects)| {
                noise.truncate(values.len() + 1);
                Case06 { values, noise, policy, pipeline, only_objects }
            })
            // one case in six ends with a value that is cut off by the end of the input (an open
            // array, object, string or literal): bytes that are not part of any value either
            .prop_flat_map(|c| (Just(c), prop::option::weighted(0.17, prop::sample::select(vec!["[1, 2", "{\"a\":", "[1,", "{\"a\"", "\"abc", "[[", "{\"a\":{\"b\":[", "[\"x\", {\"k\": [true"]))))
            .prop_map(|(mut c, tail)| {
                if let Some(t) = tail {
                    if let Some(last) = c.noise.last_mut() {
                        last.push(BytesS(t.as_bytes().to_vec()));
                    }
                }
                c
            })
            .boxed()
    }
    fn check(&self, case: &Case06) -> CaseResult {
        let (clean, noisy) = build_inputs(&case.values, &case.noise);
        if case.pipeline == 4 && !crate::univ::coherent_for_unique(&clean) {
            return CaseResult::Discard("--unique over values where jawk's = and hash disagree (outside C10's domain)".into());
        }
        let mut args = pipeline_args(case.pipeline);
        if case.only_objects {
            args.push("--only-objects-and-arrays".into());
        }
        let base = run(&args, &clean); // default policy = ignore, no noise: the reference
        if !base.res.is_ok() {
            return CaseResult::Discard(format!("pipeline fails on the clean stream: {}", base.res.short()));
        }
        args.push(format!("--on-error={}", POLICIES[case.policy as usize]));
        // a clean stream yields no report under this policy
        let c = run(&args, &clean);
        if !c.res.is_ok() || c.stdout != base.stdout || !c.stderr.is_empty() {
            return CaseResult::Fail(format!("clean stream under --on-error={}: result {} stdout {} stderr {}", POLICIES[case.policy as usize], c.res.short(), esc_trunc(&c.stdout, 200), esc_trunc(&c.stderr, 200)));
        }
        let n = run(&args, &noisy);
        let noisy_gaps: Vec<usize> = (0..=case.values.len()).filter(|g| case.noise.get(*g).map(|t| !t.is_empty()).unwrap_or(false)).collect();
        let inner = noisy_gaps.iter().any(|g| *g > 0 && *g < case.values.len());
        let info = Info::new(case.values.len() >= 2 && inner)
            .class(["policy:ignore", "policy:stdout", "policy:stderr", "policy:panic"][case.policy as usize])
            .class(["pipe:none", "pipe:select", "pipe:filter", "pipe:select+index", "pipe:unique", "pipe:sort", "pipe:group", "pipe:split"][case.pipeline as usize])
            .class_if(case.only_objects, "only_objects_and_arrays")
            .class_if(case.noise.iter().any(|g| g.len() >= 33), "more_than_32_reports_in_a_row")
            .class_if(case.noise.iter().flatten().any(|t| t.0.first() == Some(&b'"') && t.0.is_ascii()), "broken_string_pair")
            .class_if(case.noise.iter().flatten().any(|t| t.0.first() == Some(&b'"') && !t.0.is_ascii()), "quoted_string_that_is_not_utf8")
            .class_if(case.noise.iter().flatten().any(|t| matches!(t.0.first(), Some(b't') | Some(b'f') | Some(b'n'))), "almost_a_literal")
            .class_if(noisy_gaps.first() == Some(&0), "noise_at_start")
            .class_if(noisy_gaps.last() == Some(&case.values.len()), "noise_at_end")
            .class_if(case.noise.iter().flatten().any(|t| t.0.iter().any(|b| *b >= 0x80)), "non_utf8_noise")
            .class_if(case.noise.iter().flatten().any(|t| t.0.iter().any(|b| matches!(b, b'}' | b']'))), "closing_bracket_noise")
            .obs(json!({"stdout": esc_trunc(&n.stdout, 300), "stderr": esc_trunc(&n.stderr, 200), "result": n.res.short()}));
        let fail = |m: String| CaseResult::Fail(format!("{} [input {}]", m, esc_trunc(&noisy, 300)));
        if n.res.is_panic() {
            return fail(format!("panic: {}", n.res.short()));
        }
        // every malformed region is reported: taking one region away takes at least one
        // `error:` line away (policies stdout / stderr)
        if matches!(case.policy, 1 | 2) && !noisy_gaps.is_empty() && n.res.is_ok() {
            let h = noisy.iter().fold(0u64, |a, b| a.wrapping_mul(31).wrapping_add(*b as u64));
            let g = noisy_gaps[(h % noisy_gaps.len() as u64) as usize];
            let mut fewer = case.noise.clone();
            fewer[g].clear();
            let (_, noisy2) = build_inputs(&case.values, &fewer);
            let n2 = run(&args, &noisy2);
            let count = |o: &Outcome| lines(if case.policy == 1 { &o.stdout } else { &o.stderr }).iter().filter(|l| l.starts_with(b"error:")).count();
            if n2.res.is_ok() && count(&n) <= count(&n2) {
                return fail(format!("the malformed region in gap {} is not reported: {} error lines with it, {} without it", g, count(&n), count(&n2)));
            }
        }
        // reports are not lost when --take ends the run early: with --take = number of values every
        // region in front of the last value has been read, so it is reported as in the run without
        // the limit (policy stderr, no stage between reader and printer)
        let mut take_probe = false;
        if case.policy == 2 && case.pipeline == 0 && !case.only_objects && !case.values.is_empty() && n.res.is_ok() && !noisy_gaps.is_empty() {
            let mut front = case.noise.clone();
            if let Some(last) = front.last_mut() {
                last.clear();
            }
            let (_, noisy3) = build_inputs(&case.values, &front);
            let n3 = run(&args, &noisy3);
            let rows = lines(&base.stdout).len();
            if n3.res.is_ok() && rows >= 1 {
                let mut a = args.clone();
                a.push(format!("--take={}", rows));
                let t = run(&a, &noisy);
                let count = |o: &Outcome| lines(&o.stderr).iter().filter(|l| l.starts_with(b"error:")).count();
                if !t.res.is_ok() || t.stdout != base.stdout {
                    return fail(format!("--take={} (all {} rows) changes the rows: {} {}", rows, rows, t.res.short(), esc_trunc(&t.stdout, 200)));
                }
                if count(&t) < count(&n3) {
                    return fail(format!("--take={} loses reports: {} error lines, but the regions in front of the last value give {} without the limit", rows, count(&t), count(&n3)));
                }
                take_probe = count(&n3) > 0;
            }
        }
        let info = info.class_if(take_probe, "reports_kept_when_take_ends_the_run");
        match case.policy {
            0 => {
                if !n.res.is_ok() || n.stdout != base.stdout || !n.stderr.is_empty() {
                    return fail(format!("ignore: result {} stdout {} (clean: {}) stderr {}", n.res.short(), esc_trunc(&n.stdout, 300), esc_trunc(&base.stdout, 300), esc_trunc(&n.stderr, 100)));
                }
            }
            1 => {
                if !n.res.is_ok() || !n.stderr.is_empty() {
                    return fail(format!("stdout policy: result {} stderr {}", n.res.short(), esc_trunc(&n.stderr, 100)));
                }
                let all = lines(&n.stdout);
                let rows: Vec<&[u8]> = all.iter().copied().filter(|l| !l.starts_with(b"error:")).collect();
                if rows != lines(&base.stdout) {
                    return fail(format!("stdout policy: rows differ from the clean run: {} vs {}", esc_trunc(&n.stdout, 300), esc_trunc(&base.stdout, 300)));
                }
                let nerr = all.len() - rows.len();
                if nerr < noisy_gaps.len() {
                    return fail(format!("stdout policy: {} error lines for {} malformed regions", nerr, noisy_gaps.len()));
                }
                if one_row_per_value(case.pipeline) && !case.only_objects {
                    let mut slot = 0usize;
                    let mut per = vec![0usize; case.values.len() + 1];
                    for l in &all {
                        if l.starts_with(b"error:") {
                            per[slot.min(case.values.len())] += 1;
                        } else {
                            slot += 1;
                        }
                    }
                    for g in 0..=case.values.len() {
                        let noisy_here = noisy_gaps.contains(&g);
                        if noisy_here != (per[g] > 0) {
                            return fail(format!("stdout policy: gap {} is {} but has {} error lines there", g, if noisy_here { "noisy" } else { "clean" }, per[g]));
                        }
                    }
                }
            }
            2 => {
                if !n.res.is_ok() || n.stdout != base.stdout {
                    return fail(format!("stderr policy: result {} stdout {} (clean: {})", n.res.short(), esc_trunc(&n.stdout, 300), esc_trunc(&base.stdout, 300)));
                }
                let el = lines(&n.stderr);
                if el.iter().any(|l| !l.starts_with(b"error:")) {
                    return fail(format!("stderr policy: stderr holds something else than error: lines: {}", esc_trunc(&n.stderr, 300)));
                }
                if el.len() < noisy_gaps.len() {
                    return fail(format!("stderr policy: {} error lines for {} malformed regions", el.len(), noisy_gaps.len()));
                }
            }
            _ => {
                if noisy_gaps.is_empty() {
                    if !n.res.is_ok() || n.stdout != base.stdout || !n.stderr.is_empty() {
                        return fail("panic policy on a clean stream differs from the clean run".into());
                    }
                } else {
                    if !n.res.is_err() {
                        return fail(format!("panic policy: noise present but the run reported {}", n.res.short()));
                    }
                    if !n.stderr.is_empty() {
                        return fail(format!("panic policy: something was written to the error stream: {}", esc_trunc(&n.stderr, 200)));
                    }
                    if streaming(case.pipeline) {
                        let first = noisy_gaps[0];
                        let (prefix, _) = build_inputs(&case.values[..first], &[]);
                        let mut pa = pipeline_args(case.pipeline);
                        if case.only_objects {
                            pa.push("--only-objects-and-arrays".into());
                        }
                        let p = run(&pa, &prefix);
                        if n.stdout != p.stdout {
                            return fail(format!("panic policy: stdout {} is not exactly the rows of the {} values before the first malformed byte ({})", esc_trunc(&n.stdout, 300), first, esc_trunc(&p.stdout, 300)));
                        }
                    }
                }
            }
        }
        CaseResult::Pass(info)
    }
}

pub fn run_all(ctx: &mut Ctx) {
    ctx.rule = "0..12 generated values (independent spellings) with 0..3 whitespace-delimited garbage tokens at every gap, each token 1..3 bytes drawn from bytes that cannot start a JSON value (structural bytes, letters, C0 controls, 0x80-0xFF) or a pair of strings that die on a bad escape, or the beginning of true/false/null followed by a structural byte, or a complete quoted string that is not UTF-8, one gap in fifty a long region of 35..120 tokens, optionally --only-objects-and-arrays, x 4 --on-error policies x 8 pipelines (none, select, filter, select+&index, unique, sort, group, split); oracle = differential against the noise-free run of the same pipeline + policy-specific placement of error: lines + removing one malformed region must remove at least one error: line; non-trivial = >= 2 values and a noisy gap strictly between two values".into();
    ctx.assumptions = vec!["every error report is one line starting with `error:` (what lib.rs writes); rows of these pipelines never start with `error:` because they are JSON texts".into()];
    C06Noise.run(ctx);
}

pub fn checks() -> Vec<Box<dyn DynCheck>> {
    vec![Box::new(C06Noise)]
}
