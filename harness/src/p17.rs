//! C17 Delivery independence, files, input context.

use crate::engine::*;
use crate::gen::*;
use crate::rjson::*;
use crate::runner::*;
use proptest::collection::vec;
use proptest::prelude::*;
use serde::{Deserialize, Serialize};
use serde_json::json;
use std::sync::atomic::{AtomicU64, Ordering};

#[derive(Clone, Debug, Serialize, Deserialize)]
pub struct Case17 {
    /// value texts (ASCII, or with raw multi-byte characters)
    pub texts: Vec<String>,
    /// per gap (texts.len()+1): (touch previous value if legal, whitespace seed, garbage tokens)
    pub gaps: Vec<(bool, u64, Vec<String>)>,
    /// relative cut positions (x/65536 of the length) that partition the bytes into files
    pub cuts: Vec<u16>,
    pub chunks: Vec<usize>,
    pub interrupt_every: usize,
    pub only_objects: bool,
}

pub struct Built {
    pub bytes: Vec<u8>,
    pub spans: Vec<(usize, usize)>,
    /// gap g (before value g) contains garbage
    pub noisy_gap: Vec<bool>,
}

pub fn build(case: &Case17) -> Built {
    let mut out: Vec<u8> = Vec::new();
    let mut spans = Vec::new();
    let mut noisy_gap = Vec::new();
    let ws = [b' ', b'\n', b'\t', b'\r', b'\n'];
    let push_ws = |out: &mut Vec<u8>, seed: u64, min1: bool| {
        let mut m = Mix(seed);
        let n = if min1 { 1 + m.below(3) } else { m.below(3) };
        for _ in 0..n {
            out.push(ws[m.below(5) as usize]);
        }
    };
    for i in 0..=case.texts.len() {
        let (touch, seed, garbage) = case.gaps.get(i).cloned().unwrap_or((false, 1, vec![]));
        noisy_gap.push(!garbage.is_empty());
        if !garbage.is_empty() {
            push_ws(&mut out, seed, i > 0);
            for (k, g) in garbage.iter().enumerate() {
                out.extend_from_slice(g.as_bytes());
                push_ws(&mut out, seed.wrapping_add(k as u64 + 1), true);
            }
        } else if i == 0 || i == case.texts.len() {
            push_ws(&mut out, seed, false);
        } else if touch && can_touch(&case.texts[i - 1], &case.texts[i]) {
            // nothing
        } else {
            push_ws(&mut out, seed, true);
        }
        if let Some(t) = case.texts.get(i) {
            let s = out.len();
            out.extend_from_slice(t.as_bytes());
            spans.push((s, out.len()));
        }
    }
    Built { bytes: out, spans, noisy_gap }
}

fn tmp_dir() -> std::path::PathBuf {
    let base = std::env::var("CARGO_TARGET_DIR").map(std::path::PathBuf::from).unwrap_or_else(|_| std::env::current_exe().unwrap().parent().unwrap().parent().unwrap().to_path_buf());
    let d = base.join("tmp").join(format!("{}", std::process::id()));
    let _ = std::fs::create_dir_all(&d);
    d
}
static SEQ: AtomicU64 = AtomicU64::new(0);

const POS_ARGS: &[&str] = &[
    "--select=&started-at-line-number=sl",
    "--select=&started-at-char-number=sc",
    "--select=&ended-at-line-number=el",
    "--select=&ended-at-char-number=ec",
];

fn sv(v: &[&str]) -> Vec<String> {
    v.iter().map(|s| s.to_string()).collect()
}

fn int_member(row: &RVal, k: &str) -> Option<i128> {
    match row.get(k) {
        Some(RVal::Int(i)) => Some(*i),
        _ => None,
    }
}

pub struct C17Delivery;
impl Check for C17Delivery {
    type Case = Case17;
    fn name(&self) -> &'static str {
        "C17.delivery"
    }
    fn cases(&self, tier: Tier) -> u64 {
        tier.pick(6_000, 150_000)
    }
    fn strategy(&self, _t: Tier) -> BoxedStrategy<Case17> {
        let text = prop_oneof![
            5 => (arb_gval(CharSet::Ascii, 3, 10), arb_spelling()).prop_map(|(v, sp)| serialise(&v, &sp)),
            // raw multi-byte text: columns count bytes (the range is a byte range)
            2 => (arb_gval(CharSet::Bmp, 3, 10), arb_spelling()).prop_map(|(v, sp)| serialise(&v, &sp)),
            3 => prop::sample::select(vec!["1", "true", "null", "\"a\"", "[]", "{}", "-0.5", "[1,\n2]", "{\"a\":\n 1}", "12", "false", "\"\u{e9}\u{e9}\u{e9}\"", "[\"\u{65e5}\u{672c}\",\n\"\u{e9}\"]", "{\"\u{e9}\":1}"]).prop_map(|s| s.to_string()),
        ];
        let garbage = prop_oneof![
            5 => Just(Vec::<String>::new()),
            1 => vec("[}\\],:.eE+aruls]{1,3}", 1..3),
        ];
        (
            vec(text, 0..10),
            vec((prop::bool::weighted(0.3), any::<u64>(), garbage), 11),
            vec(any::<u16>(), 0..4),
            vec(1usize..7, 1..4),
            prop_oneof![Just(0usize), 2usize..5],
            prop::bool::weighted(0.3),
        )
            .prop_map(|(texts, mut gaps, cuts, chunks, interrupt_every, only_objects)| {
                gaps.truncate(texts.len() + 1);
                Case17 { texts, gaps, cuts, chunks, interrupt_every, only_objects }
            })
            .boxed()
    }
    fn check(&self, case: &Case17) -> CaseResult {
        let b = build(case);
        let bytes = &b.bytes;
        let oo: Vec<String> = if case.only_objects { sv(&["--only-objects-and-arrays"]) } else { vec![] };
        let fail = |m: String| CaseResult::Fail(format!("{} [input {}]", m, esc_trunc(bytes, 400)));
        // ---------- A. delivery independence (stdin chunkings)
        let mut ctx_args = sv(&["--select=.=v", "--select=&index=i", "--select=&index-in-file=j", "--on-error=stdout"]);
        ctx_args.extend(sv(POS_ARGS));
        ctx_args.extend(oo.clone());
        let whole = run(&ctx_args, bytes);
        if !whole.res.is_ok() {
            return fail(format!("run failed: {}", whole.res.short()));
        }
        for d in [
            Delivery::Chunks(vec![1]),
            Delivery::Chunks(case.chunks.clone()),
            Delivery::ChunksInterrupted(case.chunks.clone(), case.interrupt_every.max(2)),
        ] {
            let (o, _) = run_spec(&RunSpec { args: ctx_args.clone(), stdin: bytes.clone(), delivery: Some(d.clone()), ..Default::default() });
            if o.stdout != whole.stdout || o.res != whole.res {
                return fail(format!("delivery {:?} changes the output: {} vs {}", d, esc_trunc(&o.stdout, 300), esc_trunc(&whole.stdout, 300)));
            }
        }
        // ---------- B. indices and positions (rows that are not error: lines)
        let row_lines: Vec<&[u8]> = whole.stdout.split(|c| *c == b'\n').filter(|l| !l.is_empty() && !l.starts_with(b"error:")).collect();
        let vals: Vec<RVal> = match case.texts.iter().map(|t| parse_one(t.as_bytes())).collect::<Result<Vec<_>, _>>() {
            Ok(v) => v,
            Err(e) => return CaseResult::Discard(format!("generator produced a bad text: {}", e)),
        };
        let processed: Vec<usize> = (0..vals.len()).filter(|k| !case.only_objects || matches!(vals[*k], RVal::Obj(_) | RVal::Arr(_))).collect();
        if row_lines.len() != processed.len() {
            return fail(format!("{} rows for {} processed values", row_lines.len(), processed.len()));
        }
        let mut line_starts = vec![0usize];
        for (i, c) in bytes.iter().enumerate() {
            if *c == b'\n' {
                line_starts.push(i + 1);
            }
        }
        let to_off = |line: i128, col: i128| -> Option<usize> {
            if line < 1 || col < 1 || line as usize > line_starts.len() {
                return None;
            }
            let ls = line_starts[line as usize - 1];
            let le = line_starts.get(line as usize).copied().unwrap_or(bytes.len() + 1);
            let off = ls + (col as usize - 1);
            if off > le.min(bytes.len()) {
                return None;
            }
            Some(off)
        };
        let mut prev_end: Option<(usize, usize)> = None; // (value index, E)
        let mut line_breaks_seen = 0;
        for (n, (l, k)) in row_lines.iter().zip(processed.iter()).enumerate() {
            let row = match parse_one(l) {
                Ok(r) => r,
                Err(e) => return fail(format!("row {} is not JSON: {}", n, e)),
            };
            match row.get("v") {
                Some(v) if same_value(&vals[*k], v) => {}
                _ => return fail(format!("row {} is not value {}", n, k)),
            }
            if int_member(&row, "i") != Some(n as i128) {
                return fail(format!("&index of the {}-th processed value is {:?}", n, row.get("i").map(|x| x.to_json())));
            }
            if int_member(&row, "j") != Some(n as i128) {
                return fail(format!("&index-in-file of the {}-th processed value is {:?}", n, row.get("j").map(|x| x.to_json())));
            }
            let (Some(sl), Some(sc), Some(el), Some(ec)) = (int_member(&row, "sl"), int_member(&row, "sc"), int_member(&row, "el"), int_member(&row, "ec")) else {
                return fail(format!("row {} lacks a position", n));
            };
            let (Some(s_off), Some(e_off)) = (to_off(sl, sc), to_off(el, ec)) else {
                return fail(format!("row {}: position ({},{})-({},{}) does not exist in the input (lines are counted by line feeds)", n, sl, sc, el, ec));
            };
            let (s, e) = b.spans[*k];
            if !(s_off <= s && e <= e_off) {
                return fail(format!("row {}: range ({},{})-({},{}) = bytes {}..{} does not contain the value's text at bytes {}..{}", n, sl, sc, el, ec, s_off, e_off, s, e));
            }
            if let Some((pk, pe)) = prev_end {
                // contiguous when nothing was skipped or malformed in between
                if pk + 1 == *k && !b.noisy_gap[*k] && pe != s_off {
                    return fail(format!("row {}: range starts at byte {} but the previous range ended at byte {}", n, s_off, pe));
                }
            }
            prev_end = Some((*k, e_off));
            if el > sl || sl > 1 {
                line_breaks_seen += 1;
            }
        }
        // ---------- B2. input-context selectors evaluated late, by stages that buffer rows
        {
            let mut base_args = sv(&["--select=.=v", "--select=&index=i", "--select=&started-at-line-number=sl"]);
            base_args.extend(oo.clone());
            let plain_rows = run(&base_args, bytes);
            let lines: Vec<&[u8]> = plain_rows.stdout.split(|c| *c == b'\n').filter(|l| !l.is_empty()).collect();
            let mut a = base_args.clone();
            a.extend(sv(&["--sort-by=&index=DESC", "--sort-by=1"]));
            let rev = run(&a, bytes);
            let mut exp: Vec<u8> = Vec::new();
            for l in lines.iter().rev() {
                exp.extend_from_slice(l);
                exp.push(b'\n');
            }
            if !rev.res.is_ok() || rev.stdout != exp {
                return fail(format!("--sort-by=&index=DESC --sort-by=1 does not print the rows in reverse input order with their own positions: {} instead of {}", esc_trunc(&rev.stdout, 300), esc_trunc(&exp, 300)));
            }
            let mut a = base_args.clone();
            a.extend(sv(&["--sort-by=1", "--group-by=(stringify &index)"]));
            let grp = run(&a, bytes);
            let rows: Result<Vec<RVal>, String> = lines.iter().map(|l| parse_one(l)).collect();
            if let Ok(rows) = rows {
                let model = RVal::Obj(rows.iter().enumerate().map(|(k, r)| (k.to_string(), RVal::Arr(vec![r.clone()]))).collect());
                let got = grp.stdout.strip_suffix(b"\n").map(parse_one);
                if !grp.res.is_ok() || !matches!(&got, Some(Ok(g)) if same_value(&model, g)) {
                    return fail(format!("--sort-by=1 --group-by=(stringify &index): every row must sit alone under its own ordinal: {}", esc_trunc(&grp.stdout, 400)));
                }
            }
        }
        // ---------- C. stdin vs one file vs several files
        let dir = tmp_dir().join(format!("c17-{}", SEQ.fetch_add(1, Ordering::Relaxed)));
        let _ = std::fs::create_dir_all(&dir);
        let cleanup = || {
            let _ = std::fs::remove_dir_all(&dir);
        };
        let mut cut_pos: Vec<usize> = case.cuts.iter().map(|c| pick_idx(*c, bytes.len() + 1)).collect();
        cut_pos.sort();
        cut_pos.dedup();
        let mut parts: Vec<&[u8]> = Vec::new();
        let mut last = 0;
        for c in &cut_pos {
            parts.push(&bytes[last..*c]);
            last = *c;
        }
        parts.push(&bytes[last..]);
        let mut paths: Vec<String> = Vec::new();
        for (k, p) in parts.iter().enumerate() {
            // names in non-alphabetical order: the files are processed in the order given
            let path = dir.join(format!("{}{}.json", ["m", "c", "x", "a"][k % 4], k));
            if std::fs::write(&path, p).is_err() {
                cleanup();
                return CaseResult::Discard("cannot write temp file".into());
            }
            paths.push(path.to_str().unwrap().to_string());
        }
        let whole_path = dir.join("whole.json");
        let _ = std::fs::write(&whole_path, bytes);
        // stdin vs file (no file name in anything printed)
        let mut plain = sv(&["--select=.=v", "--select=&index=i", "--select=&index-in-file=j"]);
        plain.extend(sv(POS_ARGS));
        plain.extend(oo.clone());
        let via_stdin = run(&plain, bytes);
        let mut a = plain.clone();
        a.push(whole_path.to_str().unwrap().to_string());
        let via_file = run(&a, b"");
        if via_file.stdout != via_stdin.stdout || via_file.res != via_stdin.res {
            cleanup();
            return fail(format!("reading the same bytes from a file differs from stdin: {} vs {}", esc_trunc(&via_file.stdout, 300), esc_trunc(&via_stdin.stdout, 300)));
        }
        if via_file.stdin_opened != 0 {
            cleanup();
            return fail("stdin was opened although an input file was given".into());
        }
        // several files: everything except the run-global &index must be the concatenation of the single-file runs
        let mut local = sv(&["--select=.=v", "--select=&index-in-file=j", "--select=&file-name=f", "--on-error=stdout"]);
        local.extend(sv(POS_ARGS));
        local.extend(oo.clone());
        let mut concat: Vec<u8> = Vec::new();
        let mut counts: Vec<usize> = Vec::new();
        let mut singles: Vec<Vec<u8>> = Vec::new();
        for p in &paths {
            let mut a = local.clone();
            a.push(p.clone());
            let o = run(&a, b"");
            if !o.res.is_ok() {
                cleanup();
                return fail(format!("single-file run failed: {}", o.res.short()));
            }
            // j restarts at 0 and f names the file
            let mut n = 0usize;
            for l in o.stdout.split(|c| *c == b'\n').filter(|l| !l.is_empty() && !l.starts_with(b"error:")) {
                let row = match parse_one(l) {
                    Ok(r) => r,
                    Err(e) => {
                        cleanup();
                        return fail(format!("row is not JSON: {}", e));
                    }
                };
                if int_member(&row, "j") != Some(n as i128) || !matches!(row.get("f"), Some(RVal::Str(f)) if f == p) {
                    cleanup();
                    return fail(format!("file {}: row {} has index-in-file {:?} file-name {:?}", p, n, row.get("j").map(|x| x.to_json()), row.get("f").map(|x| x.to_json())));
                }
                n += 1;
            }
            counts.push(n);
            concat.extend_from_slice(&o.stdout);
            singles.push(o.stdout.clone());
        }
        let mut a = local.clone();
        a.extend(paths.iter().cloned());
        let multi = run(&a, b"");
        if multi.stdout != concat || !multi.res.is_ok() {
            cleanup();
            return fail(format!("files {:?}: output of the joint run differs from the concatenation of the single-file runs ({}): {} vs {}", cut_pos, multi.res.short(), esc_trunc(&multi.stdout, 400), esc_trunc(&concat, 400)));
        }
        // a file named twice is read twice (f1 .. fn, then f_k again)
        {
            let k = (bytes.len() + paths.len()) % paths.len();
            let mut a = local.clone();
            a.extend(paths.iter().cloned());
            a.push(paths[k].clone());
            let twice = run(&a, b"");
            let mut exp = concat.clone();
            exp.extend_from_slice(&singles[k]);
            if twice.stdout != exp || !twice.res.is_ok() {
                cleanup();
                return fail(format!("files {:?} with file {} named a second time at the end: the output ({}) {} is not the joint output followed by that file's own output {}", cut_pos, k, twice.res.short(), esc_trunc(&twice.stdout, 400), esc_trunc(&exp, 400)));
            }
        }
        // the same files given as one directory argument: the order of the files is the file
        // system's, but every file is still processed as a unit with its own index-in-file
        {
            let sub = dir.join("as-dir");
            let _ = std::fs::create_dir_all(&sub);
            let mut sub_paths = Vec::new();
            for (k, p) in parts.iter().enumerate() {
                let sp = sub.join(format!("{}{}.json", ["m", "c", "x", "a"][k % 4], k));
                let _ = std::fs::write(&sp, p);
                sub_paths.push(sp.to_str().unwrap().to_string());
            }
            let mut a = sv(&["--select=.=v", "--select=&index-in-file=j", "--select=&file-name=f"]);
            a.extend(sv(POS_ARGS));
            a.extend(oo.clone());
            let mut per_file: Vec<Vec<u8>> = Vec::new();
            for sp in &sub_paths {
                let mut b2 = a.clone();
                b2.push(sp.clone());
                per_file.push(run(&b2, b"").stdout);
            }
            let mut b2 = a.clone();
            b2.push(sub.to_str().unwrap().to_string());
            let d = run(&b2, b"");
            if !d.res.is_ok() {
                cleanup();
                return fail(format!("run on a directory argument failed: {}", d.res.short()));
            }
            // the directory run must be some permutation of the per-file outputs, each intact
            let mut rest: &[u8] = &d.stdout;
            let mut used = vec![false; per_file.len()];
            let mut progress = true;
            while !rest.is_empty() && progress {
                progress = false;
                for (i, pf) in per_file.iter().enumerate() {
                    if !used[i] && !pf.is_empty() && rest.starts_with(pf) {
                        rest = &rest[pf.len()..];
                        used[i] = true;
                        progress = true;
                        break;
                    }
                }
            }
            let all_used = per_file.iter().zip(used.iter()).all(|(pf, u)| *u || pf.is_empty());
            if !rest.is_empty() || !all_used {
                cleanup();
                return fail(format!("files {:?} given as a directory: the output {} is not a sequence of the per-file outputs {:?}", cut_pos, esc_trunc(&d.stdout, 400), per_file.iter().map(|p| esc_trunc(p, 120)).collect::<Vec<_>>()));
            }
        }
        // a directory argument that holds a symbolic link to another directory: the files
        // behind the link are read like the files of a real sub-directory (one case in four)
        if bytes.len() % 4 == 1 {
            let tgt = dir.join("link-target");
            let holder = dir.join("with-link");
            let _ = std::fs::create_dir_all(&tgt);
            let _ = std::fs::create_dir_all(&holder);
            let _ = std::fs::write(tgt.join("t.json"), bytes);
            let _ = std::fs::write(holder.join("own.json"), parts[0]);
            if std::os::unix::fs::symlink(&tgt, holder.join("zz-link")).is_ok() {
                let mut a = sv(&["--select=.=v", "--select=&index-in-file=j"]);
                a.extend(oo.clone());
                let run_on = |p: &std::path::Path| {
                    let mut b2 = a.clone();
                    b2.push(p.to_str().unwrap().to_string());
                    run(&b2, b"")
                };
                let own = run_on(&holder.join("own.json"));
                let linked = run_on(&holder.join("zz-link").join("t.json"));
                let both = run_on(&holder);
                let mut e1 = own.stdout.clone();
                e1.extend_from_slice(&linked.stdout);
                let mut e2 = linked.stdout.clone();
                e2.extend_from_slice(&own.stdout);
                if !both.res.is_ok() || (both.stdout != e1 && both.stdout != e2) {
                    cleanup();
                    return fail(format!("a directory argument with a file and a symbolic link to a directory: result {} output {} is not the two per-file outputs {} and {} in either order", both.res.short(), esc_trunc(&both.stdout, 300), esc_trunc(&own.stdout, 150), esc_trunc(&linked.stdout, 150)));
                }
            }
        }
        // a named pipe as input file (one case in thirty-two): the same rows as from a regular file
        if bytes.len() % 32 == 3 {
            let mut a = plain.clone();
            let r = crate::fifo::with_fed_fifo(bytes.clone(), |p| {
                a.push(p.to_string());
                run(&a, b"")
            });
            if let Ok((o, opened)) = r {
                if !opened || o.stdout != via_stdin.stdout || o.res != via_stdin.res {
                    cleanup();
                    return fail(format!("the same bytes from a named pipe given as input file: {} {} (pipe opened: {}) instead of {}", o.res.short(), esc_trunc(&o.stdout, 300), opened, esc_trunc(&via_stdin.stdout, 300)));
                }
            }
        }
        // &index counts through all files
        let mut a = sv(&["--select=&index=i", "--select=&index-in-file=j"]);
        a.extend(oo.clone());
        a.extend(paths.iter().cloned());
        let idx = run(&a, b"");
        let total: usize = counts.iter().sum();
        let mut expect = String::new();
        let mut i = 0;
        for c in &counts {
            for j in 0..*c {
                expect.push_str(&format!("{{\"i\": {}, \"j\": {}}}\n", i, j));
                i += 1;
            }
        }
        cleanup();
        if idx.stdout != expect.as_bytes() {
            return fail(format!("files {:?}: &index/&index-in-file over {} rows in {} files: got {} expected {}", cut_pos, total, paths.len(), esc_trunc(&idx.stdout, 300), esc_trunc(expect.as_bytes(), 300)));
        }
        let files_with_values = counts.iter().filter(|c| **c > 0).count();
        let inside_cut = cut_pos.iter().any(|c| b.spans.iter().any(|(s, e)| s < c && c < e));
        CaseResult::Pass(
            Info::new(files_with_values >= 2 || (processed.len() >= 3 && line_breaks_seen >= 2))
                .class_if(paths.len() >= 2, "several_files")
                .class_if(inside_cut, "cut_inside_a_value")
                .class_if(case.only_objects, "only_objects_and_arrays")
                .class_if(b.noisy_gap.iter().any(|x| *x), "noisy")
                .class_if(processed.len() < vals.len(), "scalars_skipped")
                .class_if(line_starts.len() > 3, "multi_line")
                .class_if(!bytes.is_ascii(), "multi_byte_text")
                .obs(json!({"files": paths.len(), "rows_per_file": counts, "first_rows": esc_trunc(&whole.stdout, 300)})),
        )
    }
}

/// Delivery independence on what the position checks cannot use: non-ASCII content (a
/// multi-byte character split between two reads), long inputs (tens of KiB, so that every
/// internal buffer is refilled many times), chunk sizes around the usual buffer sizes.
#[derive(Clone, Debug, Serialize, Deserialize)]
pub struct CaseWide {
    pub input: BytesS,
    pub chunks: Vec<usize>,
    pub interrupt_every: usize,
    pub pipeline: u8,
}

pub struct C17Wide;
impl Check for C17Wide {
    type Case = CaseWide;
    fn name(&self) -> &'static str {
        "C17.delivery_wide"
    }
    fn cases(&self, tier: Tier) -> u64 {
        tier.pick(3_000, 100_000)
    }
    fn strategy(&self, _t: Tier) -> BoxedStrategy<CaseWide> {
        let input = prop_oneof![
            6 => arb_stream(CharSet::Full, 12).prop_map(|s| s.bytes),
            2 => arb_long_stream().prop_map(|s| s.bytes),
            1 => (arb_stream(CharSet::Bmp, 8), vec(any::<u8>(), 0..6), any::<u16>()).prop_map(|(s, junk, at)| {
                // some garbage in the middle (also invalid UTF-8)
                let mut b = s.bytes.0;
                let p = pick_idx(at, b.len() + 1);
                b.splice(p..p, junk);
                BytesS(b)
            }),
        ];
        let chunk = prop_oneof![4 => 1usize..9, 2 => prop::sample::select(vec![15usize, 16, 17, 63, 64, 65, 255, 256, 4095, 4096, 4097, 8191, 8192, 8193]), 1 => 1usize..20000];
        (input, vec(chunk, 1..5), prop_oneof![Just(0usize), 2usize..6], 0u8..4, prop::bool::weighted(0.08))
            .prop_map(|(mut input, chunks, interrupt_every, pipeline, bom)| {
                if bom {
                    // a byte order mark is three bytes of noise like any other, for stdin and for files
                    input.0.splice(0..0, [0xEFu8, 0xBB, 0xBF]);
                }
                CaseWide { input, chunks, interrupt_every, pipeline }
            })
            .boxed()
    }
    fn check(&self, c: &CaseWide) -> CaseResult {
        let bytes = &c.input.0;
        let args: Vec<String> = match c.pipeline {
            0 => vec![],
            1 => sv(&["--select=.=v", "--select=&index=i", "--on-error=stdout"]),
            2 => sv(&["--on-error=stdout", "--style=pretty"]),
            _ => sv(&["--select=(stringify .)=s", "--select=&started-at-line-number=l", "--on-error=stderr", "--utf8-strings"]),
        };
        let whole = run(&args, bytes);
        if whole.res.is_panic() {
            return CaseResult::Fail(format!("panic: {}", whole.res.short()));
        }
        let mut schedules = vec![Delivery::Chunks(vec![1]), Delivery::Chunks(c.chunks.clone())];
        if c.interrupt_every > 0 {
            schedules.push(Delivery::ChunksInterrupted(c.chunks.clone(), c.interrupt_every));
        }
        for d in schedules {
            let (o, _) = run_spec(&RunSpec { args: args.clone(), stdin: bytes.clone(), delivery: Some(d.clone()), ..Default::default() });
            if o.stdout != whole.stdout || o.stderr != whole.stderr || o.res != whole.res {
                return CaseResult::Fail(format!("delivery {:?} changes the output ({} vs {}): {} vs {} [args {:?}, {} input bytes: {}]", d, o.res.short(), whole.res.short(), esc_trunc(&o.stdout, 200), esc_trunc(&whole.stdout, 200), args, bytes.len(), esc_trunc(bytes, 200)));
            }
        }
        // the same bytes as a file
        let dir = tmp_dir().join(format!("c17w-{}", SEQ.fetch_add(1, Ordering::Relaxed)));
        let _ = std::fs::create_dir_all(&dir);
        let path = dir.join("in.json");
        if std::fs::write(&path, bytes).is_err() {
            let _ = std::fs::remove_dir_all(&dir);
            return CaseResult::Discard("cannot write temp file".into());
        }
        // error reports name the file, so the comparison with stdin is made without reports
        let quiet: Vec<String> = args.iter().filter(|x| !x.starts_with("--on-error=")).cloned().collect();
        let whole = run(&quiet, bytes);
        let mut a = quiet.clone();
        a.push(path.to_str().unwrap().to_string());
        let f = run(&a, b"");
        let _ = std::fs::remove_dir_all(&dir);
        if f.stdout != whole.stdout || f.stderr != whole.stderr || f.res != whole.res {
            return CaseResult::Fail(format!("reading the same bytes from a file differs from stdin: {} vs {} [args {:?}, {} bytes]", esc_trunc(&f.stdout, 200), esc_trunc(&whole.stdout, 200), args, bytes.len()));
        }
        CaseResult::Pass(
            Info::new(bytes.len() >= 2 && !whole.stdout.is_empty())
                .class_if(!bytes.is_ascii(), "non_ascii")
                .class_if(bytes.starts_with(&[0xEF, 0xBB, 0xBF]), "byte_order_mark")
                .class_if(std::str::from_utf8(bytes).is_err(), "invalid_utf8")
                .class_if(bytes.len() > 8192, "longer_than_8KiB")
                .class_if(c.chunks.iter().any(|x| *x >= 4095), "buffer_sized_chunks")
                .weight(3)
                .obs(json!({"bytes": bytes.len(), "chunks": c.chunks, "stdout": esc_trunc(&whole.stdout, 120)})),
        )
    }
}

/// Stateful stages see one sequence of values, however it is spread over files: the values of
/// f1, then f2, ... - `--unique`, `--sort-by`, `--group-by`, `--skip/--take`, `--merge` and
/// `&index` over several files must give what the same values give on standard input.
#[derive(Clone, Debug, Serialize, Deserialize)]
pub struct CaseFiles {
    pub texts: Vec<String>,
    /// number of values in each file (the rest goes to the last file)
    pub split: Vec<usize>,
    pub pipeline: u8,
}

const STATEFUL: &[&[&str]] = &[
    &["--unique"],
    &["--sort-by=."],
    &["--sort-by=(stringify .) DESC", "--unique"],
    &["--group-by=(stringify .)"],
    &["--merge"],
    &["--skip=1", "--take=3"],
    &["--select=.=v", "--select=&index=i", "--unique"],
    &["--unique", "--sort-by=.", "--skip=1", "--take=2", "--merge"],
    &["--filter=(= (% &index 2) 0)", "--select=.=v"],
    &["--select=.=v", "--output-style=csv", "--unique"],
];

pub struct C17Files;
impl Check for C17Files {
    type Case = CaseFiles;
    fn name(&self) -> &'static str {
        "C17.files_stateful"
    }
    fn cases(&self, tier: Tier) -> u64 {
        tier.pick(6_000, 200_000)
    }
    fn strategy(&self, _t: Tier) -> BoxedStrategy<CaseFiles> {
        // few distinct values, so that duplicates and ties straddle the file boundaries
        let text = prop::sample::select(vec!["1", "2", "1.0", "\"a\"", "\"b\"", "null", "[1]", "[1.0]", "{\"k\":1}", "{\"k\":2}", "true", "[]", "3"]).prop_map(|s| s.to_string());
        (vec(text, 0..12), vec(0usize..5, 1..4), 0..STATEFUL.len() as u8).prop_map(|(texts, split, pipeline)| CaseFiles { texts, split, pipeline }).boxed()
    }
    fn check(&self, c: &CaseFiles) -> CaseResult {
        let args: Vec<String> = STATEFUL[c.pipeline as usize % STATEFUL.len()].iter().map(|s| s.to_string()).collect();
        let joined: String = c.texts.iter().map(|t| format!("{}\n", t)).collect();
        let via_stdin = run(&args, joined.as_bytes());
        if !via_stdin.res.is_ok() {
            return CaseResult::Fail(format!("run on standard input failed: {} (args {:?})", via_stdin.res.short(), args));
        }
        let dir = tmp_dir().join(format!("c17f-{}", SEQ.fetch_add(1, Ordering::Relaxed)));
        let _ = std::fs::create_dir_all(&dir);
        let mut paths = Vec::new();
        let mut at: usize = 0;
        let mut sizes = c.split.clone();
        sizes.push(usize::MAX);
        for (k, n) in sizes.iter().enumerate() {
            let end = at.saturating_add(*n).min(c.texts.len());
            let body: String = c.texts[at..end].iter().map(|t| format!("{}\n", t)).collect();
            let p = dir.join(format!("{}{}.json", ["q", "d", "z", "b", "m"][k % 5], k));
            if std::fs::write(&p, body).is_err() {
                let _ = std::fs::remove_dir_all(&dir);
                return CaseResult::Discard("cannot write temp file".into());
            }
            paths.push(p.to_str().unwrap().to_string());
            at = end;
        }
        // files first: `--merge <path>` would read the path as the optional value of --group-by
        let mut a: Vec<String> = paths.clone();
        a.extend(args.iter().cloned());
        let via_files = run(&a, b"");
        let _ = std::fs::remove_dir_all(&dir);
        if via_files.res != via_stdin.res || via_files.stdout != via_stdin.stdout {
            return CaseResult::Fail(format!(
                "the values {:?} spread over {} files (sizes {:?}) give {} {}, on standard input they give {} (args {:?})",
                c.texts,
                paths.len(),
                c.split,
                via_files.res.short(),
                esc_trunc(&via_files.stdout, 300),
                esc_trunc(&via_stdin.stdout, 300),
                args
            ));
        }
        let files_with_values = {
            let mut n = 0;
            let mut at: usize = 0;
            for s in &sizes {
                let end = at.saturating_add(*s).min(c.texts.len());
                if end > at {
                    n += 1;
                }
                at = end;
            }
            n
        };
        CaseResult::Pass(Info::new(files_with_values >= 2 && c.texts.len() >= 3).class_if(files_with_values >= 3, "three_or_more_files_with_values").class_if(sizes.iter().any(|s| *s == 0), "empty_file").obs(json!({"args": args, "files": paths.len(), "stdout": esc_trunc(&via_stdin.stdout, 200)})))
    }
}

// ---------------------------------------------------------------- more input files than descriptors

/// Input files are read one after the other: a run over more files than the process may hold
/// open at once still works. The soft RLIMIT_NOFILE is lowered to 96 for the duration of this
/// one single-threaded case (no other case is running then) and restored afterwards.
#[derive(Clone, Debug, Serialize, Deserialize)]
pub struct CaseMany {
    pub files: u32,
}

pub struct C17Many;
impl Check for C17Many {
    type Case = CaseMany;
    fn name(&self) -> &'static str {
        "C17.many_files"
    }
    fn cases(&self, _t: Tier) -> u64 {
        0
    }
    fn strategy(&self, _t: Tier) -> BoxedStrategy<CaseMany> {
        Just(CaseMany { files: 300 }).boxed()
    }
    fn check(&self, c: &CaseMany) -> CaseResult {
        let dir = tmp_dir().join(format!("c17-many-{}", SEQ.fetch_add(1, Ordering::Relaxed)));
        let _ = std::fs::create_dir_all(&dir);
        let mut args = sv(&["--select=.k=k", "--select=&index=i", "--select=&index-in-file=j"]);
        let mut exp = String::new();
        for i in 0..c.files {
            let p = dir.join(format!("f{:05}.json", i));
            if std::fs::write(&p, format!("{{\"k\":{}}}\n", i)).is_err() {
                let _ = std::fs::remove_dir_all(&dir);
                return CaseResult::Discard("cannot write temp files".into());
            }
            args.push(p.to_str().unwrap().to_string());
            exp.push_str(&format!("{{\"k\": {}, \"i\": {}, \"j\": 0}}\n", i, i));
        }
        let mut old = libc::rlimit { rlim_cur: 0, rlim_max: 0 };
        let lowered = unsafe { libc::getrlimit(libc::RLIMIT_NOFILE, &mut old) == 0 && old.rlim_cur > 96 && libc::setrlimit(libc::RLIMIT_NOFILE, &libc::rlimit { rlim_cur: 96, rlim_max: old.rlim_max }) == 0 };
        let o = run(&args, b"");
        if lowered {
            unsafe { libc::setrlimit(libc::RLIMIT_NOFILE, &old) };
        }
        let _ = std::fs::remove_dir_all(&dir);
        if !o.res.is_ok() || o.stdout != exp.as_bytes() {
            return CaseResult::Fail(format!("{} input files with at most 96 open descriptors: result {} and {} rows, expected {} rows (k, &index = file number, &index-in-file = 0); output starts {}", c.files, o.res.short(), o.stdout.iter().filter(|b| **b == b'\n').count(), c.files, esc_trunc(&o.stdout, 200)));
        }
        CaseResult::Pass(Info::new(lowered).class_if(lowered, "descriptor_limit_lowered_to_96").obs(json!({"files": c.files})))
    }
}

/// Positions and names far from the origin: values behind a line of 250 to 200 000 bytes
/// (blanks, small values, one long string, multi-byte text) or behind 250 to 140 000 line feeds,
/// and an input file whose path is 250 to 4000 bytes long. A counter that is narrower than the
/// input (8, 15, 16 bits), a name cut at a "maximum", a buffer-sized special case only show here.
#[derive(Clone, Debug, Serialize, Deserialize)]
pub struct CaseFar {
    /// 0 blanks, 1 small values, 2 one long ASCII string, 3 line feeds, 4 one string of 2- and 3-byte characters
    pub prefix: u8,
    pub len: usize,
    pub tail: Vec<String>,
    pub seps: Vec<u8>,
    /// 0 = standard input; otherwise the input is a file whose path has about this many bytes
    pub path_len: usize,
}

pub struct C17Far;
impl Check for C17Far {
    type Case = CaseFar;
    fn name(&self) -> &'static str {
        "C17.far_positions"
    }
    fn cases(&self, tier: Tier) -> u64 {
        tier.pick(480, 12_000)
    }
    fn strategy(&self, _t: Tier) -> BoxedStrategy<CaseFar> {
        let len = prop_oneof![
            6 => prop::sample::select(vec![254usize, 255, 256, 257, 4095, 4096, 4097, 8191, 8192, 8193, 32766, 32767, 32768, 32769, 65533, 65534, 65535, 65536, 65537, 65538, 70000, 131071, 131072, 131073]),
            2 => 1usize..200_000,
        ];
        let tail = vec(prop::sample::select(vec!["7", "\"ab\"", "[1,\n2]", "{\"a\":\n 1}", "true", "null", "-0.5", "\"\u{e9}\u{65e5}\"", "[]", "12"]).prop_map(|s| s.to_string()), 1..5);
        let path_len = prop_oneof![3 => Just(0usize), 1 => prop::sample::select(vec![250usize, 254, 255, 256, 257, 300, 511, 512, 513, 1023, 1024, 1025, 2000, 3900])];
        (0u8..5, len, tail, vec(0u8..4, 6), path_len).prop_map(|(prefix, len, tail, seps, path_len)| CaseFar { prefix, len, tail, seps, path_len }).boxed()
    }
    fn check(&self, c: &CaseFar) -> CaseResult {
        // ---- the input and where every value's text lies
        let mut bytes: Vec<u8> = Vec::new();
        let mut spans: Vec<(usize, usize)> = Vec::new();
        let len = if c.prefix == 1 { c.len.min(140_000) } else if c.prefix == 3 { c.len.min(140_000) } else { c.len };
        match c.prefix {
            0 => bytes.extend(std::iter::repeat(b' ').take(len)),
            1 => {
                for _ in 0..len / 2 {
                    let s = bytes.len();
                    bytes.push(b'1');
                    spans.push((s, s + 1));
                    bytes.push(b' ');
                }
            }
            2 => {
                bytes.push(b'"');
                bytes.extend(std::iter::repeat(b'x').take(len));
                bytes.push(b'"');
                spans.push((0, bytes.len()));
                bytes.push(b' ');
            }
            3 => bytes.extend(std::iter::repeat(b'\n').take(len)),
            _ => {
                bytes.push(b'"');
                while bytes.len() < len {
                    bytes.extend_from_slice(if bytes.len() % 5 < 2 { "\u{e9}".as_bytes() } else { "\u{65e5}".as_bytes() });
                }
                bytes.push(b'"');
                spans.push((0, bytes.len()));
                bytes.push(b' ');
            }
        }
        for (i, t) in c.tail.iter().enumerate() {
            let s = bytes.len();
            bytes.extend_from_slice(t.as_bytes());
            spans.push((s, bytes.len()));
            bytes.extend_from_slice(match c.seps.get(i).copied().unwrap_or(0) {
                0 => b" ",
                1 => b"\n",
                2 => b" \t ",
                _ => b"\r\n",
            });
        }
        let fail = |m: String| CaseResult::Fail(format!("{} [prefix kind {} of {} bytes, then {:?}]", m, c.prefix, len, c.tail));
        let mut args = sv(&["--select=&index=i"]);
        args.extend(sv(POS_ARGS));
        let mut dir_to_remove = None;
        let mut path_used: Option<String> = None;
        let out = if c.path_len == 0 {
            run(&args, &bytes)
        } else {
            // a deep directory: every component is short, the whole path is long
            let base = tmp_dir().join(format!("c17far-{}", SEQ.fetch_add(1, Ordering::Relaxed)));
            let mut p = base.clone();
            let comp = "d".repeat(100);
            while p.as_os_str().len() + 9 + comp.len() < c.path_len {
                p = p.join(&comp);
            }
            let rest = c.path_len.saturating_sub(p.as_os_str().len() + 1 + 7).clamp(1, 200);
            let file = p.join(format!("{}-a.json", "f".repeat(rest)));
            let twin = p.join(format!("{}-b.json", "f".repeat(rest)));
            if std::fs::create_dir_all(&p).is_err() || std::fs::write(&file, &bytes).is_err() || std::fs::write(&twin, b"0").is_err() {
                let _ = std::fs::remove_dir_all(&base);
                return CaseResult::Discard("cannot create the deep directory".into());
            }
            dir_to_remove = Some(base);
            let (fs, ts) = (file.to_str().unwrap().to_string(), twin.to_str().unwrap().to_string());
            let mut a = args.clone();
            a.push("--select=&file-name=f".into());
            a.push(fs.clone());
            a.push(ts.clone());
            path_used = Some(fs);
            let o = run(&a, b"");
            // the twin's only row names the twin, which differs from the first path in one late byte
            let last = o.stdout.split(|b| *b == b'\n').filter(|l| !l.is_empty()).last().map(|l| l.to_vec()).unwrap_or_default();
            match parse_one(&last) {
                Ok(r) if matches!(r.get("f"), Some(RVal::Str(s)) if *s == ts) => {}
                _ => {
                    if let Some(d) = &dir_to_remove {
                        let _ = std::fs::remove_dir_all(d);
                    }
                    return fail(format!("the row of the second file does not carry its path of {} bytes as &file-name: {}", ts.len(), esc_trunc(&last, 200)));
                }
            }
            let mut o = o;
            // drop the twin's row
            let keep = o.stdout.len() - last.len() - 1;
            o.stdout.truncate(keep);
            o
        };
        if let Some(d) = &dir_to_remove {
            let _ = std::fs::remove_dir_all(d);
        }
        if !out.res.is_ok() {
            return fail(format!("run failed: {}", out.res.short()));
        }
        let mut line_starts = vec![0usize];
        for (i, b) in bytes.iter().enumerate() {
            if *b == b'\n' {
                line_starts.push(i + 1);
            }
        }
        let to_off = |line: i128, col: i128| -> Option<usize> {
            if line < 1 || col < 1 || line as usize > line_starts.len() {
                return None;
            }
            let ls = line_starts[line as usize - 1];
            let le = line_starts.get(line as usize).copied().unwrap_or(bytes.len() + 1);
            let off = ls + (col as usize - 1);
            if off > le.min(bytes.len()) {
                return None;
            }
            Some(off)
        };
        // rows are one-line JSON without inner line feeds here (no value is printed)
        let rows: Vec<&[u8]> = out.stdout.split(|b| *b == b'\n').filter(|l| !l.is_empty()).collect();
        if rows.len() != spans.len() {
            return fail(format!("{} rows for {} values", rows.len(), spans.len()));
        }
        let mut prev_end: Option<usize> = None;
        for (n, l) in rows.iter().enumerate() {
            let row = match parse_one(l) {
                Ok(r) => r,
                Err(e) => return fail(format!("row {} is not JSON: {}", n, e)),
            };
            if int_member(&row, "i") != Some(n as i128) {
                return fail(format!("&index of value {} is {:?}", n, row.get("i").map(|x| x.to_json())));
            }
            if let Some(p) = &path_used {
                if !matches!(row.get("f"), Some(RVal::Str(s)) if s == p) {
                    return fail(format!("&file-name is not the path of {} bytes that was given: {:?}", p.len(), row.get("f").map(|x| esc_trunc(x.to_json().as_bytes(), 80))));
                }
            }
            let (Some(sl), Some(sc), Some(el), Some(ec)) = (int_member(&row, "sl"), int_member(&row, "sc"), int_member(&row, "el"), int_member(&row, "ec")) else {
                return fail(format!("row {} lacks a position", n));
            };
            let (Some(s_off), Some(e_off)) = (to_off(sl, sc), to_off(el, ec)) else {
                return fail(format!("value {}: position ({},{})-({},{}) does not exist in the input (lines are counted by line feeds, columns in bytes)", n, sl, sc, el, ec));
            };
            let (s, e) = spans[n];
            if !(s_off <= s && e <= e_off) {
                return fail(format!("value {}: range ({},{})-({},{}) = bytes {}..{} does not contain the value's text at bytes {}..{}", n, sl, sc, el, ec, s_off, e_off, s, e));
            }
            if let Some(pe) = prev_end {
                if pe != s_off {
                    return fail(format!("value {}: range starts at byte {} but the previous range ended at byte {}", n, s_off, pe));
                }
            }
            prev_end = Some(e_off);
        }
        CaseResult::Pass(
            Info::new(len >= 250)
                .class(["blanks", "small_values", "long_string", "line_feeds", "multi_byte_string"][c.prefix as usize])
                .class_if(len > 65535, "beyond_65535")
                .class_if(len > 32767 && len <= 65535, "32768_to_65535")
                .class_if(c.path_len > 255, "path_longer_than_255_bytes")
                .class_if(c.path_len > 1024, "path_longer_than_1024_bytes")
                .weight(2)
                .obs(json!({"prefix": c.prefix, "len": len, "rows": rows.len(), "path_len": path_used.as_ref().map(|p| p.len())})),
        )
    }
}

pub fn run_all(ctx: &mut Ctx) {
    ctx.rule = "0..10 value texts (ASCII or with raw multi-byte characters) (independent spellings incl. inner line breaks) with whitespace / touching / garbage gaps x read-chunk schedules (1-byte, random sizes, with Interrupted) x stdin vs file x partitions of the bytes into 1..4 files at arbitrary offsets (also inside a value) x --only-objects-and-arrays. Oracle: identical stdout for every delivery; joint multi-file run = concatenation of single-file runs; &index = 0,1,2.. over the run, &index-in-file restarts per file, &file-name = the path; (line,col) pairs map through the line-feed positions to a byte range that contains the value's text, contiguous with the previous range when nothing lies between. non-trivial = >= 2 files that each yield a row, or >= 3 processed values with >= 2 rows beyond line 1".into();
    ctx.assumptions = vec!["columns are byte columns (the property says byte range); checked on ASCII and on raw multi-byte text".into()];
    ctx.rule.push_str(". C17.delivery_wide: streams over the full Unicode alphabet, long streams (10-100 KiB) and streams with garbage incl. invalid UTF-8 x chunk schedules (1-byte, 1..8, sizes around 16/64/256/4096/8192, with Interrupted) x 4 pipelines x stdin vs file: identical stdout, stderr and result");
    C17Delivery.run(ctx);
    C17Wide.run(ctx);
    ctx.rule.push_str(". C17.files_stateful: 0..11 values from a small set (duplicates and ties) spread over 2..4 files between values (also empty files) x 10 stateful pipelines (--unique, --sort-by, --group-by, --merge, --skip/--take, &index): same result as the values on standard input");
    C17Files.run(ctx);
    ctx.rule.push_str(". C17.far_positions: 1..4 values behind a first line of 250..200000 bytes (blanks, small values, one long string, multi-byte text; lengths around 2^8, 2^12, 2^13, 2^15, 2^16, 2^17) or behind that many line feeds, read from standard input or from a file whose path is 250..3900 bytes long (components of 100 bytes) next to a twin that differs in one late byte: &index exact, positions map to byte ranges that contain the value and are contiguous, &file-name is the path given; non-trivial = prefix of >= 250 bytes");
    C17Far.run(ctx);
    ctx.rule.push_str(". C17.many_files: 300 one-value files in one run while the process may hold at most 96 descriptors: rows, &index and &index-in-file exact");
    {
        let c = CaseMany { files: 300 };
        let r = C17Many.check(&c);
        ctx.record("C17.many_files", &serde_json::to_value(&c).unwrap(), r);
    }
    let _ = std::fs::remove_dir_all(tmp_dir());
}

pub fn checks() -> Vec<Box<dyn DynCheck>> {
    vec![Box::new(C17Delivery), Box::new(C17Wide), Box::new(C17Files), Box::new(C17Many), Box::new(C17Far)]
}
