//! C08 --skip/--take = slice of the unlimited result.

use crate::engine::*;
use crate::p07::SortKey;
use crate::pipe::*;
use crate::rjson::*;
use crate::rows::*;
use crate::runner::*;
use crate::univ::*;
use proptest::collection::vec;
use proptest::prelude::*;
use serde::{Deserialize, Serialize};
use serde_json::json;

#[derive(Clone, Debug, Serialize, Deserialize)]
pub struct Case08 {
    pub recs: Vec<Rec>,
    pub pipe: Pipe,
}

fn lines(b: &[u8]) -> Vec<&[u8]> {
    let mut v: Vec<&[u8]> = b.split(|c| *c == b'\n').collect();
    if v.last().map(|l| l.is_empty()).unwrap_or(false) {
        v.pop();
    }
    v
}

/// The metamorphic relation. `base` = stdout of the pipeline without limits and without group.
pub fn check_slice(pipe: &Pipe, input: &[u8], base: &Outcome) -> Result<(usize, Vec<u8>), String> {
    if !base.res.is_ok() {
        return Err(format!("unlimited run failed: {}", base.res.short()));
    }
    let all = lines(&base.stdout);
    let s = (pipe.skip.min(all.len() as u64)) as usize;
    let e = match pipe.take {
        Some(t) => (s as u64).saturating_add(t).min(all.len() as u64) as usize,
        None => all.len(),
    };
    let slice = &all[s..e];
    let lim = run(&pipe.args(true, true), input);
    if !lim.res.is_ok() {
        return Err(format!("limited run failed: {}", lim.res.short()));
    }
    if pipe.group == 0 {
        let got = lines(&lim.stdout);
        if got != slice {
            return Err(format!(
                "--skip {} --take {:?} printed {} rows that are not rows {}..{} of the {} unlimited rows: got {} expected {}",
                pipe.skip,
                pipe.take,
                got.len(),
                s,
                e,
                all.len(),
                esc_trunc(&lim.stdout, 300),
                esc_trunc(&slice.join(&b"\n"[..]), 300)
            ));
        }
    } else {
        let rows: Vec<RVal> = slice.iter().map(|l| parse_one(l)).collect::<Result<_, _>>().map_err(|e| format!("unlimited row not JSON: {}", e))?;
        let model = if pipe.group == 1 { group_model(&rows) } else { RVal::Arr(rows) };
        let got = parse_rows(&lim.stdout)?;
        if got.len() != 1 {
            return Err(format!("grouping with limits printed {} rows instead of exactly one: {}", got.len(), esc_trunc(&lim.stdout, 300)));
        }
        if !same_value(&model, &got[0]) {
            return Err(format!("group built from the wrong rows: expected {} got {}", trunc(&model.to_json(), 400), trunc(&got[0].to_json(), 400)));
        }
    }
    Ok((all.len(), lim.stdout))
}

pub struct C08Slice;
impl Check for C08Slice {
    type Case = Case08;
    fn name(&self) -> &'static str {
        "C08.slice"
    }
    fn cases(&self, tier: Tier) -> u64 {
        tier.pick(30_000, 600_000)
    }
    fn strategy(&self, _t: Tier) -> BoxedStrategy<Case08> {
        // one case in ten has a limit near the ends of the u64 range (S + T must not wrap)
        let huge = prop_oneof![Just(u64::MAX), Just(u64::MAX - 1), Just(u64::MAX - 6), Just(1u64 << 63), Just((1u64 << 63) - 1), Just(1u64 << 32), Just((1u64 << 32) - 1), Just(u32::MAX as u64 + 7)];
        (arb_pipe_recs(40), arb_pipe(3, true), 0u8..20, huge.clone(), huge)
            .prop_map(|(recs, mut pipe, h, a, b)| {
                match h {
                    0 => pipe.take = Some(a),
                    1 => {
                        pipe.take = Some(a);
                        pipe.skip = pipe.skip.max(1);
                    }
                    2 => pipe.skip = b,
                    3 => {
                        pipe.take = Some(a);
                        pipe.skip = b;
                    }
                    _ => {}
                }
                Case08 { recs, pipe }
            })
            .boxed()
    }
    fn check(&self, case: &Case08) -> CaseResult {
        let input = case.pipe.input(&case.recs);
        let base = run(&case.pipe.args(false, false), &input);
        match check_slice(&case.pipe, &input, &base) {
            Err(e) => CaseResult::Fail(e),
            Ok((n, out)) => {
                let p = &case.pipe;
                let ord = order();
                // boundary inside a run of tied sort keys?
                let boundary_tie = if !p.sort.is_empty() && p.select != 2 {
                    let ids = row_ids(&base.stdout).unwrap_or_default();
                    let cut = |pos: usize| {
                        pos > 0 && pos < ids.len() && {
                            let (x, y) = (&case.recs.iter().find(|r| r.id == ids[pos - 1]), &case.recs.iter().find(|r| r.id == ids[pos]));
                            match (x, y) {
                                (Some(x), Some(y)) => p.sort.iter().all(|k| match (x.get(&k.field), y.get(&k.field)) { (Some(a), Some(b)) => ord.cmp(a, b) == std::cmp::Ordering::Equal, _ => false }),
                                _ => false,
                            }
                        }
                    };
                    cut(p.skip.min(1 << 40) as usize) || p.take.map(|t| cut(p.skip.saturating_add(t).min(1 << 40) as usize)).unwrap_or(false)
                } else {
                    false
                };
                let cuts = p.take.map(|t| p.skip.saturating_add(t) < n as u64).unwrap_or(false);
                let nt = n >= 2 && (boundary_tie || (cuts && p.sort.len() >= 2) || (p.group != 0 && (p.take.is_some() || p.skip > 0)) || (cuts && (p.unique || p.split.is_some())));
                CaseResult::Pass(
                    Info::new(nt)
                        .class_if(boundary_tie, "boundary_inside_tie")
                        .class_if(cuts && p.sort.len() >= 2, "multi_key_sort_cut")
                        .class_if(p.group == 1, "group_by")
                        .class_if(p.group == 2, "merge")
                        .class_if(p.group != 0 && p.take == Some(0), "group_take_0")
                        .class_if(p.unique, "unique")
                        .class_if(p.split.is_some(), "split")
                        .class_if(p.take.is_none(), "take_absent")
                        .class_if(p.skip >= n as u64 && n > 0, "skip_beyond_end")
                        .class_if(p.skip >= 1 << 32 || p.take.map(|t| t >= 1 << 32).unwrap_or(false), "limit_beyond_2^32")
                        .class_if(p.take.map(|t| p.skip.checked_add(t).is_none()).unwrap_or(false), "skip_plus_take_beyond_u64")
                        .obs(json!({"unlimited_rows": n, "stdout": esc_trunc(&out, 300)})),
                )
            }
        }
    }
}

// ---------------------------------------------------------------- exhaustive sub-space

fn small_pipes() -> Vec<(&'static str, Pipe)> {
    let k = |f: &str, d: &str| SortKey { field: f.to_string(), dir: d.to_string(), eq_syntax: true };
    let p = |select: u8, unique: bool, sort: Vec<SortKey>, group: u8| Pipe { split: None, filter: 0, select, unique, sort, skip: 0, take: None, group };
    vec![
        ("sort asc", p(0, false, vec![k("a", "")], 0)),
        ("sort desc", p(0, false, vec![k("a", "DESC")], 0)),
        ("two-key sort", p(0, false, vec![k("a", ""), k("b", "DESC")], 0)),
        ("unique", p(2, true, vec![], 0)),
        ("sort+unique", p(2, true, vec![k("a", "DESC")], 0)),
        ("group", p(0, false, vec![], 1)),
        ("merge", p(0, false, vec![], 2)),
        ("sort+group", p(0, false, vec![k("b", ""), k("a", "DESC")], 1)),
    ]
}

/// stream number `idx` in the enumeration of all streams of length <= max_len over 4 keys
fn small_stream(mut idx: u64, max_len: usize) -> Vec<Rec> {
    // lengths 0..=max_len ; count(len) = 4^len
    let mut len = 0usize;
    loop {
        let c = 4u64.pow(len as u32);
        if idx < c || len == max_len {
            break;
        }
        idx -= c;
        len += 1;
    }
    let one = UNIVERSE.iter().position(|u| *u == "1").unwrap();
    let two = UNIVERSE.iter().position(|u| *u == "2").unwrap();
    let ga = UNIVERSE.iter().position(|u| *u == "\"a\"").unwrap();
    let gb = UNIVERSE.iter().position(|u| *u == "\"b\"").unwrap();
    (0..len)
        .map(|i| {
            let k = (idx >> (2 * i)) & 3;
            let a = if k & 1 == 0 { one } else { two };
            let b = if k & 2 == 0 { one } else { two };
            Rec { id: i as u32, fields: vec![("a".into(), a), ("b".into(), b), ("g".into(), if k & 1 == 0 { ga } else { gb })] }
        })
        .collect()
}

pub fn run_exhaustive(ctx: &mut Ctx) {
    let max_len = ctx.tier.pick(4usize, 5usize);
    let streams: u64 = (0..=max_len).map(|l| 4u64.pow(l as u32)).sum();
    let pipes = small_pipes();
    let np = pipes.len() as u64;
    let total = streams * np;
    let space = format!("all streams of length <= {} over 4 keys x 8 pipelines x skip 0..6 x take absent|0..6 (56 limit pairs per unit)", max_len);
    let counted = std::sync::atomic::AtomicU64::new(0);
    run_enum(ctx, "C08.exhaustive", total, &space, |idx| {
        let (si, pi) = (idx / np, (idx % np) as usize);
        let recs = small_stream(si, max_len);
        let (pname, base_pipe) = &pipes[pi];
        let input = base_pipe.input(&recs);
        let base = run(&base_pipe.args(false, false), &input);
        let mut failure: Option<(Pipe, String)> = None;
        'outer: for skip in 0..=6u64 {
            for take in [None, Some(0u64), Some(1), Some(2), Some(3), Some(4), Some(5), Some(6)] {
                let mut p = base_pipe.clone();
                p.skip = skip;
                p.take = take;
                counted.fetch_add(1, std::sync::atomic::Ordering::Relaxed);
                if let Err(e) = check_slice(&p, &input, &base) {
                    failure = Some((p, e));
                    break 'outer;
                }
            }
        }
        let pname = *pname;
        match failure {
            Some((p, e)) => {
                let recs2 = recs.clone();
                (Box::new(move || vjson(&Case08 { recs: recs2.clone(), pipe: p.clone() })), CaseResult::Fail(e))
            }
            None => {
                let recs2 = recs.clone();
                let bp = base_pipe.clone();
                let n = recs.len();
                (
                    Box::new(move || json!({"stream": recs2.iter().map(|r| r.text()).collect::<Vec<_>>(), "pipeline": pname, "args": bp.args(false, true), "limits": "all 56 (skip, take) pairs"})),
                    CaseResult::Pass(Info::new(n >= 2)),
                )
            }
        }
    });
    // evaluations = individual limited runs
    if let Some(st) = ctx.stats.get_mut("C08.exhaustive") {
        st.evaluations = counted.load(std::sync::atomic::Ordering::Relaxed);
    }
}

/// replayable wrapper for failures found by the enumeration
pub struct C08Exhaustive;
impl Check for C08Exhaustive {
    type Case = Case08;
    fn name(&self) -> &'static str {
        "C08.exhaustive"
    }
    fn cases(&self, _t: Tier) -> u64 {
        0
    }
    fn strategy(&self, t: Tier) -> BoxedStrategy<Case08> {
        C08Slice.strategy(t)
    }
    fn check(&self, case: &Case08) -> CaseResult {
        C08Slice.check(case)
    }
}

/// The slice relation on configurations with generated expressions in every option (the
/// generator of C03): no model, jawk with limits against jawk without.
pub struct C08ExprSlice;
impl Check for C08ExprSlice {
    type Case = crate::p03::Case03;
    fn name(&self) -> &'static str {
        "C08.expr_slice"
    }
    fn cases(&self, tier: Tier) -> u64 {
        tier.pick(40_000, 1_000_000)
    }
    fn strategy(&self, _t: Tier) -> BoxedStrategy<crate::p03::Case03> {
        (vec(any::<u32>(), 0..500), any::<u64>()).prop_map(|(tape, a)| crate::p03::decode_case03(&tape, a, a)).boxed()
    }
    fn check(&self, c: &crate::p03::Case03) -> CaseResult {
        let input: Vec<u8> = c.inputs.join("\n").into_bytes();
        if c.unique && !crate::univ::coherent_for_unique(&input) {
            return CaseResult::Discard("--unique outside C10's domain".into());
        }
        let mut flat = c.clone();
        flat.skip = 0;
        flat.take = None;
        flat.group = 0;
        flat.group_key = None;
        let mut limited = c.clone();
        limited.group = 0;
        limited.group_key = None;
        let base = run(&flat.args(0), &input);
        let lim = run(&limited.args(c.order_seed | 1), &input);
        if !base.res.is_ok() || !lim.res.is_ok() {
            return CaseResult::Fail(format!("run failed: {} / {} (args {:?})", base.res.short(), lim.res.short(), limited.args(0)));
        }
        let all: Vec<&[u8]> = base.stdout.split_inclusive(|b| *b == b'\n').collect();
        let s = (c.skip as usize).min(all.len());
        let e = match c.take {
            Some(t) => (s + t as usize).min(all.len()),
            None => all.len(),
        };
        let exp: Vec<u8> = all[s..e].concat();
        if lim.stdout != exp {
            return CaseResult::Fail(format!(
                "--skip {} --take {:?} printed {} which is not rows {}..{} of the {} unlimited rows {} (args {:?})",
                c.skip,
                c.take,
                esc_trunc(&lim.stdout, 300),
                s,
                e,
                all.len(),
                esc_trunc(&base.stdout, 300),
                limited.args(0)
            ));
        }
        // the grouped form: exactly one collection of that slice
        let mut grouped_ok = false;
        if c.group != 0 {
            let g = run(&c.args(0), &input);
            if !g.res.is_ok() {
                return CaseResult::Fail(format!("grouped run failed: {}", g.res.short()));
            }
            let rows = match crate::rjson::split_rows(&g.stdout, b"\n") {
                Ok(r) => r,
                Err(m) => return CaseResult::Fail(m),
            };
            if rows.len() != 1 {
                return CaseResult::Fail(format!("{} rows instead of exactly one collection (args {:?}): {}", rows.len(), c.args(0), esc_trunc(&g.stdout, 300)));
            }
            if c.group == 2 {
                // merge: the array of exactly the sliced rows
                let want = crate::rjson::split_rows(&exp, b"\n").map(|r| r.into_iter().map(|x| x.0.to_json()).collect::<Vec<_>>());
                let got = match &rows[0].0 {
                    crate::rjson::RVal::Arr(a) => Ok(a.iter().map(|x| x.to_json()).collect::<Vec<_>>()),
                    _ => Err("not an array".to_string()),
                };
                if want != got {
                    return CaseResult::Fail(format!("--merge with limits is not the array of rows {}..{}: {} (args {:?})", s, e, esc_trunc(&g.stdout, 300), c.args(0)));
                }
            } else if let crate::rjson::RVal::Obj(o) = &rows[0].0 {
                // group-by: the members are arrays whose concatenated length cannot exceed the slice, and every
                // grouped row is one of the sliced rows
                let sliced: Vec<String> = crate::rjson::split_rows(&exp, b"\n").map(|r| r.into_iter().map(|x| x.0.to_json()).collect()).unwrap_or_default();
                let mut n = 0;
                for (_, v) in o {
                    if let crate::rjson::RVal::Arr(a) = v {
                        for x in a {
                            n += 1;
                            if !sliced.contains(&x.to_json()) {
                                return CaseResult::Fail(format!("a grouped row is not among rows {}..{} of the unlimited result: {} (args {:?})", s, e, x.to_json(), c.args(0)));
                            }
                        }
                    }
                }
                if n > sliced.len() {
                    return CaseResult::Fail(format!("{} grouped rows from a slice of {} rows (args {:?})", n, sliced.len(), c.args(0)));
                }
            } else {
                return CaseResult::Fail(format!("--group-by printed something that is not an object: {}", esc_trunc(&g.stdout, 200)));
            }
            grouped_ok = true;
        }
        let cut = (c.skip > 0 || c.take.is_some()) && all.len() >= 2;
        CaseResult::Pass(
            Info::new(cut && (!c.sorts.is_empty() || c.unique || c.pipe.split.is_some() || c.group != 0))
                .class_if(!c.sorts.is_empty(), "sorted")
                .class_if(c.sorts.len() >= 2, "multi_key")
                .class_if(c.unique, "unique")
                .class_if(c.pipe.split.is_some(), "split")
                .class_if(grouped_ok, "grouped")
                .class_if(c.skip as usize >= all.len() && !all.is_empty(), "skip_beyond_end")
                .class_if(c.take == Some(0), "take_0")
                .weight(2)
                .obs(json!({"args": limited.args(0), "unlimited_rows": all.len()})),
        )
    }
}

// ---------------------------------------------------------------- thousands of rows

/// Thousands of rows with few distinct sort keys: anything that only happens once a buffer,
/// batch or capacity is exceeded (a top-N structure pruned in batches, a counter, a hash table
/// that grows) is invisible below that size. The rows are derived from (n, seed), so the
/// replay file stays small.
#[derive(Clone, Debug, Serialize, Deserialize)]
pub struct CaseLarge {
    pub n: u32,
    pub seed: u64,
    /// number of distinct values of .k (ties are long runs)
    pub keys: u8,
    /// one row in `absent_every` has no .k (0 = never)
    pub absent_every: u8,
    /// 0 none, 1 .k, 2 .k then .g, 3 .g then .k
    pub sort: u8,
    pub desc: bool,
    pub unique: bool,
    /// 0 none, 1 group-by .gs, 2 merge
    pub group: u8,
    pub skip: u32,
    pub take: Option<u32>,
    /// equal sort keys arrive in runs of this many consecutive rows (0 = independently drawn)
    #[serde(default)]
    pub run_len: u32,
}

fn mix(mut x: u64) -> u64 {
    x = x.wrapping_add(0x9e3779b97f4a7c15);
    x = (x ^ (x >> 30)).wrapping_mul(0xbf58476d1ce4e5b9);
    x = (x ^ (x >> 27)).wrapping_mul(0x94d049bb133111eb);
    x ^ (x >> 31)
}

pub struct C08Large;
impl C08Large {
    fn input(c: &CaseLarge) -> Vec<u8> {
        let mut out = Vec::with_capacity(c.n as usize * 40);
        for i in 0..c.n as u64 {
            let h = mix(c.seed ^ i);
            let k = if c.run_len > 0 { mix(c.seed ^ (i / c.run_len as u64) ^ 0x55) % c.keys.max(1) as u64 } else { h % c.keys.max(1) as u64 };
            let g = (h >> 20) % 5;
            if c.unique {
                // rows repeat: the serial number is left out
                if c.absent_every > 0 && (h >> 40) % c.absent_every as u64 == 0 {
                    out.extend_from_slice(format!("{{\"g\":{},\"gs\":\"g{}\",\"u\":{}}}\n", g, g, (h >> 8) % 97).as_bytes());
                } else {
                    out.extend_from_slice(format!("{{\"k\":{},\"g\":{},\"gs\":\"g{}\",\"u\":{}}}\n", k, g, g, (h >> 8) % 97).as_bytes());
                }
            } else if c.absent_every > 0 && (h >> 40) % c.absent_every as u64 == 0 {
                out.extend_from_slice(format!("{{\"i\":{},\"g\":{},\"gs\":\"g{}\"}}\n", i, g, g).as_bytes());
            } else {
                out.extend_from_slice(format!("{{\"i\":{},\"k\":{},\"g\":{},\"gs\":\"g{}\"}}\n", i, k, g, g).as_bytes());
            }
        }
        out
    }
    fn args(c: &CaseLarge, limits: bool, group: bool) -> Vec<String> {
        let mut a = Vec::new();
        if c.unique {
            a.push("--unique".to_string());
        }
        let d = if c.desc { "=DESC" } else { "" };
        match c.sort {
            1 => a.push(format!("--sort-by=.k{}", d)),
            2 => {
                a.push(format!("--sort-by=.k{}", d));
                a.push("--sort-by=.g".to_string());
            }
            3 => {
                a.push("--sort-by=.g".to_string());
                a.push(format!("--sort-by=.k{}", d));
            }
            _ => {}
        }
        if limits {
            if c.skip > 0 {
                a.push(format!("--skip={}", c.skip));
            }
            if let Some(t) = c.take {
                a.push(format!("--take={}", t));
            }
        }
        if group {
            match c.group {
                1 => a.push("--group-by=.gs".to_string()),
                2 => a.push("--merge".to_string()),
                _ => {}
            }
        }
        a
    }
}
impl Check for C08Large {
    type Case = CaseLarge;
    fn name(&self) -> &'static str {
        "C08.large"
    }
    fn cases(&self, tier: Tier) -> u64 {
        tier.pick(480, 6_000)
    }
    fn strategy(&self, t: Tier) -> BoxedStrategy<CaseLarge> {
        let max_n: u32 = t.pick(6_000, 70_000);
        // one case in thirty has more than 2^16 rows (a counter or bound of 16 bits shows only there)
        let n = prop_oneof![15 => 1_030u32..3_000, 10 => 3_000u32..max_n, 5 => 200u32..1_030, 1 => 65_530u32..70_000];
        (n, any::<u64>(), 1u8..5, prop_oneof![Just(0u8), Just(0u8), 2u8..20], prop_oneof![1 => Just(0u8), 4 => Just(1u8), 2 => Just(2u8), 1 => Just(3u8)], any::<bool>(), prop::bool::weighted(0.15), prop_oneof![4 => Just(0u8), 1 => Just(1u8), 1 => Just(2u8)], (0u8..11, any::<u16>()), (0u8..13, any::<u16>()), prop_oneof![4 => Just(0u32), 1 => prop::sample::select(vec![2u32, 7, 511, 512, 513, 1024, 1025])])
            .prop_map(|(n, seed, keys, absent_every, sort, desc, unique, group, (sk, sr), (tk, tr), run_len)| {
                let frac = |r: u16, m: u32| ((r as u64 * (m as u64 + 1)) >> 16) as u32;
                let skip = match sk {
                    0..=2 => 0,
                    3 => 1,
                    4 => 2,
                    5 => 7,
                    6 => frac(sr, n),
                    7 => 1000 + frac(sr, 100),
                    8 => n.saturating_sub(1),
                    10 => if n > 65_536 { 65_530 + frac(sr, 12) } else { frac(sr, 40) },
                    _ => frac(sr, 40),
                };
                let take = match tk {
                    0 => None,
                    1 => Some(0),
                    2 => Some(1),
                    3 => Some(2),
                    4 => Some(10),
                    5 => Some(100),
                    6 => Some(1023 + frac(tr, 3)),
                    7 => Some(frac(tr, n)),
                    8 => Some(n),
                    12 => Some(if n > 65_536 { 65_530 + frac(tr, 12) } else { 1 + frac(tr, 30) }),
                    _ => Some(1 + frac(tr, 30)),
                };
                CaseLarge { n, seed, keys, absent_every, sort, desc, unique, group, skip, take, run_len }
            })
            .boxed()
    }
    fn check(&self, c: &CaseLarge) -> CaseResult {
        let input = Self::input(c);
        let base = run(&Self::args(c, false, false), &input);
        if !base.res.is_ok() {
            return CaseResult::Fail(format!("unlimited run failed: {}", base.res.short()));
        }
        let all = lines(&base.stdout);
        let s = (c.skip as usize).min(all.len());
        let e = c.take.map(|t| (s + t as usize).min(all.len())).unwrap_or(all.len());
        let slice = &all[s..e];
        let lim = run(&Self::args(c, true, true), &input);
        if !lim.res.is_ok() {
            return CaseResult::Fail(format!("limited run failed: {} (args {:?})", lim.res.short(), Self::args(c, true, true)));
        }
        if c.group == 0 {
            let got = lines(&lim.stdout);
            if got != slice {
                let first = got.iter().zip(slice.iter()).position(|(a, b)| a != b).unwrap_or(got.len().min(slice.len()));
                return CaseResult::Fail(format!(
                    "{:?} on {} rows printed {} rows that are not rows {}..{} of the {} unlimited rows; first difference at row {}: got {} expected {}",
                    Self::args(c, true, true),
                    c.n,
                    got.len(),
                    s,
                    e,
                    all.len(),
                    first,
                    got.get(first).map(|l| esc_trunc(l, 100)).unwrap_or_default(),
                    slice.get(first).map(|l| esc_trunc(l, 100)).unwrap_or_default()
                ));
            }
        } else {
            let rows: Vec<RVal> = match slice.iter().map(|l| parse_one(l)).collect::<Result<_, _>>() {
                Ok(r) => r,
                Err(e) => return CaseResult::Fail(format!("unlimited row not JSON: {}", e)),
            };
            let model = if c.group == 1 { group_model_by(&rows, "gs") } else { RVal::Arr(rows) };
            let got = match parse_rows(&lim.stdout) {
                Ok(g) => g,
                Err(e) => return CaseResult::Fail(e),
            };
            if got.len() != 1 {
                return CaseResult::Fail(format!("grouping with limits printed {} rows instead of exactly one (args {:?})", got.len(), Self::args(c, true, true)));
            }
            if !same_value(&model, &got[0]) {
                return CaseResult::Fail(format!("group built from the wrong rows (args {:?}, {} input rows): expected {} got {}", Self::args(c, true, true), c.n, trunc(&model.to_json(), 300), trunc(&got[0].to_json(), 300)));
            }
        }
        let cut = c.take.map(|t| (c.skip as usize + t as usize) < all.len()).unwrap_or(false);
        CaseResult::Pass(
            Info::new(all.len() >= 1000 && (cut || c.skip > 0))
                .class_if(c.sort > 0 && cut, "top_n_cut")
                .class_if(c.sort > 0 && cut && all.len() > c.skip as usize + c.take.unwrap_or(0) as usize + 1024, "more_than_1024_surplus_rows")
                .class_if(c.sort >= 2, "two_sort_keys")
                .class_if(c.run_len > 0, "runs_of_equal_keys")
                .class_if(c.unique, "unique")
                .class_if(c.group == 1, "group_by")
                .class_if(c.group == 2, "merge")
                .class_if(c.absent_every > 0, "rows_without_key")
                .class_if(c.n > 65_536, "more_than_65536_rows")
                .class_if(c.take.is_none(), "take_absent")
                .obs(json!({"unlimited_rows": all.len(), "limited_bytes": lim.stdout.len()})),
        )
    }
}

/// The slice relation on rows that carry their input position: --skip must not renumber what
/// it lets through (&index, &index-in-file, line numbers are those of the unlimited run).
#[derive(Clone, Debug, Serialize, Deserialize)]
pub struct Case08P {
    pub n: usize,
    pub skip: u64,
    pub take: Option<u64>,
    /// 0 selections only, 1 with a filter, 2 with a sort, 3 with --unique, 4 values spread over two files
    pub variant: u8,
}
pub struct C08Positions;
impl Check for C08Positions {
    type Case = Case08P;
    fn name(&self) -> &'static str {
        "C08.positions"
    }
    fn cases(&self, _t: Tier) -> u64 {
        0
    }
    fn strategy(&self, _t: Tier) -> BoxedStrategy<Case08P> {
        Just(Case08P { n: 3, skip: 1, take: Some(1), variant: 0 }).boxed()
    }
    fn check(&self, c: &Case08P) -> CaseResult {
        let vals = ["1", "\"a\"", "2", "null", "2", "[3]", "1", "{\"k\":1}", "7"];
        let mut input = String::new();
        for i in 0..c.n {
            input.push_str(vals[i % vals.len()]);
            input.push_str(if i % 3 == 2 { "\n" } else { " " });
        }
        let mut base: Vec<String> = vec!["--select=.=v".into(), "--select=&index=i".into(), "--select=&index-in-file=f".into(), "--select=&started-at-line-number=l".into()];
        match c.variant {
            1 => base.push("--filter=(not (null? .))".into()),
            2 => base.push("--sort-by=&index=DESC".into()),
            3 => base.push("--unique".into()),
            _ => {}
        }
        let mut files: Vec<std::path::PathBuf> = Vec::new();
        let dir = crate::fifo::tmp_dir();
        let stdin: Vec<u8> = if c.variant == 4 {
            static SEQ: std::sync::atomic::AtomicU64 = std::sync::atomic::AtomicU64::new(0);
            let k = SEQ.fetch_add(1, std::sync::atomic::Ordering::Relaxed);
            let cut = input.len() / 2;
            let cut = (0..=cut).rev().find(|p| input.as_bytes().get(*p).map(|b| *b == b' ' || *b == b'\n').unwrap_or(true)).unwrap_or(0);
            for (j, part) in [&input[..cut], &input[cut..]].iter().enumerate() {
                let p = dir.join(format!("c08p-{}-{}.json", k, j));
                if std::fs::write(&p, part).is_err() {
                    return CaseResult::Discard("cannot write temp file".into());
                }
                base.push(p.to_str().unwrap().to_string());
                files.push(p);
            }
            Vec::new()
        } else {
            input.clone().into_bytes()
        };
        let all = run(&base, &stdin);
        let mut a = base.clone();
        if c.skip > 0 {
            a.insert(0, format!("--skip={}", c.skip));
        }
        if let Some(t) = c.take {
            a.insert(0, format!("--take={}", t));
        }
        let lim = run(&a, &stdin);
        for p in &files {
            let _ = std::fs::remove_file(p);
        }
        if !all.res.is_ok() || !lim.res.is_ok() {
            return CaseResult::Fail(format!("run failed: {} / {} (args {:?})", all.res.short(), lim.res.short(), a));
        }
        let rows = lines(&all.stdout);
        let s = (c.skip as usize).min(rows.len());
        let e = c.take.map(|t| (s + t as usize).min(rows.len())).unwrap_or(rows.len());
        let got = lines(&lim.stdout);
        if got != rows[s..e] {
            return CaseResult::Fail(format!("{:?} printed rows that are not rows {}..{} of the unlimited result (positions included): got {} expected {}", a, s, e, esc_trunc(&lim.stdout, 300), esc_trunc(&rows[s..e].join(&b"\n"[..]), 300)));
        }
        CaseResult::Pass(Info::new(s > 0 && e > s).class_if(c.variant == 4, "two_files").class_if(s > 0, "rows_skipped").obs(json!({"rows": rows.len(), "kept": e - s})))
    }
}

pub fn run_positions(ctx: &mut Ctx) {
    let takes: [Option<u64>; 6] = [None, Some(0), Some(1), Some(2), Some(3), Some(9)];
    let total = 10 * 6 * 6 * 5;
    run_enum(ctx, "C08.positions", total, "0..9 values x --skip 0..5 x --take absent,0,1,2,3,9 x (selections only, filter, sort, --unique, two files), every row carrying &index, &index-in-file and its line number", move |idx| {
        let c = Case08P { n: (idx % 10) as usize, skip: (idx / 10) % 6, take: takes[((idx / 60) % 6) as usize], variant: ((idx / 360) % 5) as u8 };
        let res = C08Positions.check(&c);
        (Box::new(move || serde_json::to_value(&c).unwrap()), res)
    });
}

pub fn run_all(ctx: &mut Ctx) {
    ctx.rule = "C08.large: 200..6000 rows (70000 in the thorough tier) derived from a seed, 1..4 distinct sort keys (long runs of ties), rows without the key, 0..2 sort keys, ASC/DESC, optionally --unique over repeating rows and group-by/merge, skip in {0,1,2,7, random, 1000..1100, n-1}, take in {absent,0,1,2,10,100,1023..1025, random, n}; same slice relation; non-trivial = >= 1000 unlimited rows and a limit that cuts. C08.expr_slice: the same slice relation on configurations with generated expressions in every option (generator of C03: --set, --split-by, --filter, --select, --unique, 0..3 --sort-by, inputs that tie), plus: with --merge the single array is exactly that slice, with --group-by exactly one object whose rows all come from that slice. C08.slice: 0..40 records (keys from small pools of the universe, so ties are common) x generated pipeline (split, filter, select, unique, 0..3 sort keys, group-by/merge) x skip 0..6 x take absent|0..6; relation: rows(with limits) = rows(without)[S..S+T] byte for byte, or for group/merge the single output equals the documented grouping of that slice. non-trivial = >= 2 unlimited rows and (the cut falls inside a run of tied sort keys, or a multi-key sort is cut, or group/merge with a limit, or unique/split is cut). C08.exhaustive: every stream up to length 4 (quick) / 5 (thorough) over 4 keys x 8 fixed pipelines x all 56 limit pairs; distinct = enumeration index".into();
    ctx.assumptions = vec!["the unlimited run of the same pipeline is the reference (metamorphic, jawk vs jawk); its own correctness is C03/C07/C09/C10's subject".into()];
    run_exhaustive(ctx);
    C08Large.run(ctx);
    C08Slice.run(ctx);
    C08ExprSlice.run(ctx);
    ctx.rule.push_str(". C08.positions: the slice relation on rows that carry &index, &index-in-file and their line number (0..9 values x skip 0..5 x take absent/0/1/2/3/9 x selections only, filter, sort, --unique, two files), enumerated: --skip does not renumber what it lets through");
    run_positions(ctx);
}

pub fn checks() -> Vec<Box<dyn DynCheck>> {
    vec![Box::new(C08Slice), Box::new(C08Exhaustive), Box::new(C08ExprSlice), Box::new(C08Large), Box::new(C08Positions)]
}
