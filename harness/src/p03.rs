//! C03 The pipeline is the documented stage composition in the documented order.
//!
//! Reference pipeline: a pure list transformer written from the CLI help text, with the
//! expressions evaluated by the reference evaluator (eval.rs). Every stage is a few lines;
//! an absent option is the identity.

use crate::engine::*;
use crate::epipe::*;
use crate::eval::*;
use crate::expr::Kind::*;
use crate::expr::*;
use crate::gen::Mix;
use crate::rjson::*;
use crate::runner::*;
use proptest::collection::vec;
use proptest::prelude::*;
use serde::{Deserialize, Serialize};
use serde_json::json;
use std::cmp::Ordering;

#[derive(Clone, Debug, Serialize, Deserialize)]
pub struct Case03 {
    pub pipe: EPipe,
    pub only_objects: bool,
    pub unique: bool,
    /// (key expression, descending)
    pub sorts: Vec<(Expr, bool)>,
    pub skip: u64,
    pub take: Option<u64>,
    /// 0 none, 1 group-by, 2 merge
    pub group: u8,
    pub group_key: Option<Expr>,
    pub inputs: Vec<String>,
    pub order_seed: u64,
    pub order_seed2: u64,
}

pub fn arb_case03() -> BoxedStrategy<Case03> {
    (vec(any::<u32>(), 0..500), any::<u64>(), any::<u64>()).prop_map(|(tape, a, b)| decode_case03(&tape, a, b)).boxed()
}

/// a case from a choice tape (shared by the proptest strategy and the libFuzzer target)
pub fn decode_case03(tape: &[u32], order_seed: u64, order_seed2: u64) -> Case03 {
    {
        {
            let mut g = Gen::new(tape, GenCfg { ill: 1, exclude: vec!["exec", "trigger", "now", "env", "parse_selection", "stringify"], ..GenCfg::default() });
            let (mut pipe, mut env) = EPipe::decode(&mut g, 3, 2);
            if pipe.split.is_none() && g.tape.chance(1, 5) {
                // plain column selections over the scalar fields (rows that differ only in
                // which columns are absent)
                pipe.selects.clear();
                env.sels.clear();
                let fields = ["n", "m", "i", "j", "s", "t", "b", "z"];
                let k = 2 + g.tape.below(2);
                let start = g.tape.below(fields.len());
                for i in 0..k {
                    let f = fields[(start + i) % fields.len()];
                    pipe.selects.push((Expr::key(0, f), format!("s{}", i)));
                    env.sels.push((format!("s{}", i), RECORD.iter().find(|r| r.0 == f).map(|r| r.1).unwrap_or(Any)));
                }
            }
            let only_objects = g.tape.chance(1, 5);
            let unique = g.tape.chance(1, 3);
            let ns = [0usize, 0, 1, 1, 2, 3][g.tape.below(6)];
            let mut sorts = Vec::new();
            for _ in 0..ns {
                let k = *g.tape.pick(&[Num, Str, Bool, Int, Any]);
                let e = if g.tape.chance(1, 2) { g.expr(k, 1, &env) } else { g.expr(k, 2, &env) };
                sorts.push((e, g.tape.chance(1, 3)));
            }
            let skip = [0u64, 0, 0, 1, 2, 3][g.tape.below(6)];
            let take = if g.tape.chance(1, 2) { Some(g.tape.below(7) as u64) } else { None };
            let group = [0u8, 0, 0, 1, 1, 2][g.tape.below(6)];
            let group_key = if group == 1 { Some(g.expr(Str, 2, &env)) } else { None };
            // inputs: copies of a few base records (ties, duplicates) with small variations, some scalars
            let nb = 1 + g.tape.below(3);
            let bases: Vec<String> = (0..nb).map(|_| g.record()).collect();
            let n = g.tape.below(13);
            let mut inputs = Vec::new();
            for _ in 0..n {
                if g.tape.chance(1, 8) {
                    let k = *g.tape.pick(&[Num, Str, Null, Bool, ArrNum]);
                    inputs.push(g.lit(k, 1));
                } else if g.tape.chance(1, 6) {
                    // sparse records: one small value sitting in different fields of the same kind,
                    // so that rows agree on the present values but not on which ones are absent
                    let v = g.tape.pick_s(&["1", "2", "null", "\"a\""]);
                    let f = g.tape.pick_s(&["n", "m", "i", "j", "s", "t", "b", "z"]);
                    inputs.push(format!("{{\"{}\":{}}}", f, v));
                } else {
                    let b = &bases[g.tape.below(bases.len())];
                    if g.tape.chance(1, 2) || b.len() < 3 {
                        inputs.push(b.clone());
                    } else {
                        // same record plus a marker field, so equal keys but different rows
                        let tag = g.tape.below(4);
                        inputs.push(format!("{{\"tag\":{},{}", tag, &b[1..]));
                    }
                }
            }
            Case03 { pipe, only_objects, unique, sorts, skip, take, group, group_key, inputs, order_seed, order_seed2 }
        }
    }
}

impl Case03 {
    /// argument list; `seed` shuffles the options, keeping the relative order of the
    /// --select and of the --sort-by options
    pub fn args(&self, seed: u64) -> Vec<String> {
        let sp = Spell::CANON;
        let mut groups: Vec<Vec<String>> = Vec::new();
        for s in &self.pipe.sets {
            groups.push(vec![if s.is_macro { format!("--set=@{}={}", s.name, print(&s.value, &sp)) } else { format!("--set={}={}", s.name, print(&s.value, &sp)) }]);
        }
        if let Some(e) = &self.pipe.split {
            groups.push(vec![format!("--split-by={}", print(e, &sp))]);
        }
        if let Some(e) = &self.pipe.filter {
            groups.push(vec![format!("--filter={}", print(e, &sp))]);
        }
        if self.only_objects {
            groups.push(vec!["--only-objects-and-arrays".into()]);
        }
        if self.unique {
            groups.push(vec!["--unique".into()]);
        }
        if self.skip > 0 {
            groups.push(vec![format!("--skip={}", self.skip)]);
        }
        if let Some(t) = self.take {
            groups.push(vec![format!("--take={}", t)]);
        }
        match self.group {
            1 => groups.push(vec![format!("--group-by={}", print(self.group_key.as_ref().unwrap(), &sp))]),
            2 => groups.push(vec!["--merge".into()]),
            _ => {}
        }
        // ordered families occupy slots; their members fill the slots in order
        let sel: Vec<String> = self.pipe.selects.iter().map(|(e, n)| select_arg(e, n, &sp)).collect();
        let srt: Vec<String> = self.sorts.iter().map(|(e, d)| format!("--sort-by={}{}", print(e, &sp), if *d { " DESC" } else { "" })).collect();
        #[derive(Clone)]
        enum Slot {
            One(Vec<String>),
            Sel,
            Srt,
        }
        let mut slots: Vec<Slot> = groups.into_iter().map(Slot::One).collect();
        slots.extend(std::iter::repeat(Slot::Sel).take(sel.len()));
        slots.extend(std::iter::repeat(Slot::Srt).take(srt.len()));
        if seed != 0 {
            let mut m = Mix(seed);
            for i in (1..slots.len()).rev() {
                let j = m.below(i as u64 + 1) as usize;
                slots.swap(i, j);
            }
        }
        let (mut si, mut ri) = (0, 0);
        let mut out = Vec::new();
        for s in slots {
            match s {
                Slot::One(v) => out.extend(v),
                Slot::Sel => {
                    out.push(sel[si].clone());
                    si += 1;
                }
                Slot::Srt => {
                    out.push(srt[ri].clone());
                    ri += 1;
                }
            }
        }
        out
    }
}

#[derive(Clone)]
struct Row {
    cx: Cx,
    sels: Vec<(String, Option<RVal>)>,
}

impl Row {
    fn value(&self) -> RVal {
        if self.sels.is_empty() {
            self.cx.chain[0].clone().unwrap()
        } else {
            let mut o: Vec<(String, RVal)> = Vec::new();
            for (n, v) in &self.sels {
                if let Some(v) = v {
                    match o.iter().position(|m| &m.0 == n) {
                        Some(p) => o[p].1 = v.clone(),
                        None => o.push((n.clone(), v.clone())),
                    }
                }
            }
            RVal::Obj(o)
        }
    }
}

enum Model {
    Rows(Vec<RVal>),
    Unspecified(String),
}

fn concrete(ev: Ev) -> Result<Option<RVal>, String> {
    match ev {
        Ev::Val(v) => Ok(v),
        other => Err(format!("an expression value is not pinned by the documentation ({})", describe(&other))),
    }
}

/// the documented pipeline as a list transformer
fn model(c: &Case03) -> Model {
    let mut base = Cx::default();
    for s in &c.pipe.sets {
        if s.is_macro {
            base.macros.push((s.name.clone(), s.value.clone()));
        } else if let Expr::Lit(t) = &s.value {
            match parse_one(t.as_bytes()) {
                Ok(v) => base.vars.push((s.name.clone(), v)),
                Err(e) => return Model::Unspecified(e),
            }
        } else {
            // a value expression is closed: evaluated without input and without bindings
            match concrete(Evaluator::new().eval(&s.value, &Cx::default())) {
                Ok(Some(v)) => base.vars.push((s.name.clone(), v)),
                Ok(None) => return Model::Unspecified("--set value is nothing (rejected configuration)".into()),
                Err(m) => return Model::Unspecified(m),
            }
        }
    }
    let ev = |e: &Expr, cx: &Cx| concrete(Evaluator::new().eval(e, cx));
    // input values
    let mut rows: Vec<Row> = Vec::new();
    for t in &c.inputs {
        let v = match parse_one(t.as_bytes()) {
            Ok(v) => v,
            Err(e) => return Model::Unspecified(e),
        };
        if c.only_objects && !matches!(v, RVal::Arr(_) | RVal::Obj(_)) {
            continue;
        }
        let mut cx = base.clone();
        cx.chain = vec![Some(v)];
        rows.push(Row { cx, sels: vec![] });
    }
    macro_rules! tryu {
        ($e:expr) => {
            match $e {
                Ok(v) => v,
                Err(m) => return Model::Unspecified(m),
            }
        };
    }
    // split
    if let Some(e) = &c.pipe.split {
        let mut out = Vec::new();
        for r in rows {
            if let Some(RVal::Arr(items)) = tryu!(ev(e, &r.cx)) {
                for it in items {
                    let mut cx = r.cx.clone();
                    cx.chain.insert(0, Some(it));
                    out.push(Row { cx, sels: vec![] });
                }
            }
        }
        rows = out;
    }
    // filter
    if let Some(e) = &c.pipe.filter {
        let mut out = Vec::new();
        for r in rows {
            if matches!(tryu!(ev(e, &r.cx)), Some(RVal::Bool(true))) {
                out.push(r);
            }
        }
        rows = out;
    }
    // select
    for (e, n) in &c.pipe.selects {
        for r in rows.iter_mut() {
            let v = tryu!(ev(e, &r.cx));
            r.sels.push((n.clone(), v.clone()));
            r.cx.sels.push((n.clone(), v));
        }
    }
    // unique
    if c.unique {
        // rows that are equal - or whose equality is unspecified - share a coarse key (numbers by
        // their double, objects by their sorted members), so only those are compared: linear
        // instead of quadratic on tens of thousands of rows
        fn coarse(v: &RVal, o: &mut String) {
            match v {
                RVal::Null => o.push('n'),
                RVal::Bool(b) => o.push(if *b { 't' } else { 'f' }),
                RVal::Int(_) | RVal::Float(_) => {
                    let f = v.as_f64().unwrap_or(0.0);
                    let f = if f == 0.0 { 0.0 } else { f };
                    o.push_str(&format!("#{:x};", f.to_bits()));
                }
                RVal::Str(s) => o.push_str(&format!("s{}:{}", s.len(), s)),
                RVal::Arr(a) => {
                    o.push('[');
                    for x in a {
                        coarse(x, o);
                        o.push(',');
                    }
                    o.push(']');
                }
                RVal::Obj(m) => {
                    let mut parts: Vec<String> = m
                        .iter()
                        .map(|(k, x)| {
                            let mut t = format!("s{}:{}=", k.len(), k);
                            coarse(x, &mut t);
                            t
                        })
                        .collect();
                    parts.sort();
                    o.push('{');
                    for p in parts {
                        o.push_str(&p);
                        o.push(',');
                    }
                    o.push('}');
                }
            }
        }
        let mut buckets: std::collections::HashMap<String, Vec<usize>> = std::collections::HashMap::new();
        let mut out: Vec<Row> = Vec::new();
        for r in rows {
            let mut dup = false;
            let mut key = String::new();
            if r.sels.is_empty() {
                coarse(r.cx.chain[0].as_ref().unwrap(), &mut key);
            } else {
                for (_, v) in &r.sels {
                    match v {
                        None => key.push('~'),
                        Some(x) => coarse(x, &mut key),
                    }
                    key.push('|');
                }
            }
            let bucket = buckets.entry(key).or_default();
            for k in bucket.iter().map(|i| &out[*i]) {
                let same = if r.sels.is_empty() {
                    eq3(k.cx.chain[0].as_ref().unwrap(), r.cx.chain[0].as_ref().unwrap())
                } else {
                    let mut all = Some(true);
                    for (a, b) in k.sels.iter().zip(r.sels.iter()) {
                        let e = match (&a.1, &b.1) {
                            (None, None) => Some(true),
                            (Some(x), Some(y)) => eq3(x, y),
                            _ => Some(false),
                        };
                        match e {
                            Some(false) => {
                                all = Some(false);
                                break;
                            }
                            None => all = None,
                            _ => {}
                        }
                    }
                    all
                };
                match same {
                    None => return Model::Unspecified("equality up to member order / beyond 2^53".into()),
                    Some(true) => {
                        dup = true;
                        break;
                    }
                    _ => {}
                }
            }
            if !dup {
                bucket.push(out.len());
                out.push(r);
            }
        }
        rows = out;
    }
    // sort: rows without a key are dropped; first --sort-by most significant; stable
    if !c.sorts.is_empty() {
        let mut keyed: Vec<(Vec<RVal>, Row)> = Vec::new();
        'rows: for r in rows {
            let mut ks = Vec::new();
            for (e, _) in &c.sorts {
                match tryu!(ev(e, &r.cx)) {
                    Some(k) => ks.push(k),
                    None => continue 'rows,
                }
            }
            keyed.push((ks, r));
        }
        let mut unknown = false;
        for i in 0..c.sorts.len() {
            if !all_comparable(&keyed.iter().map(|k| &k.0[i]).collect::<Vec<_>>()) {
                return Model::Unspecified("sort key order not specified (different objects / integers beyond 2^53)".into());
            }
        }
        keyed.sort_by(|a, b| {
            for (i, (_, desc)) in c.sorts.iter().enumerate() {
                let o = match cmp3(&a.0[i], &b.0[i]) {
                    Some(o) => o,
                    None => {
                        unknown = true;
                        Ordering::Equal
                    }
                };
                let o = if *desc { o.reverse() } else { o };
                if o != Ordering::Equal {
                    return o;
                }
            }
            Ordering::Equal
        });
        if unknown {
            return Model::Unspecified("sort key order not specified (different objects / integers beyond 2^53)".into());
        }
        rows = keyed.into_iter().map(|x| x.1).collect();
    }
    // skip / take
    let rows: Vec<Row> = rows.into_iter().skip(c.skip as usize).take(c.take.map(|t| t as usize).unwrap_or(usize::MAX)).collect();
    // group / merge
    match c.group {
        1 => {
            let e = c.group_key.as_ref().unwrap();
            let mut keys: Vec<String> = Vec::new();
            let mut groups: Vec<Vec<RVal>> = Vec::new();
            for r in &rows {
                if let Some(RVal::Str(k)) = tryu!(ev(e, &r.cx)) {
                    match keys.iter().position(|x| *x == k) {
                        Some(p) => groups[p].push(r.value()),
                        None => {
                            keys.push(k);
                            groups.push(vec![r.value()]);
                        }
                    }
                }
            }
            Model::Rows(vec![RVal::Obj(keys.into_iter().zip(groups.into_iter().map(RVal::Arr)).collect())])
        }
        2 => Model::Rows(vec![RVal::Arr(rows.iter().map(|r| r.value()).collect())]),
        _ => Model::Rows(rows.iter().map(|r| r.value()).collect()),
    }
}

pub struct C03Pipeline;
impl Check for C03Pipeline {
    type Case = Case03;
    fn name(&self) -> &'static str {
        "C03.pipeline"
    }
    fn cases(&self, tier: Tier) -> u64 {
        tier.pick(60_000, 2_000_000)
    }
    fn strategy(&self, _t: Tier) -> BoxedStrategy<Case03> {
        arb_case03()
    }
    fn check(&self, c: &Case03) -> CaseResult {
        let input: Vec<u8> = c.inputs.join("\n").into_bytes();
        let a1 = c.args(0);
        let o1 = run(&a1, &input);
        match &o1.res {
            Res::Ok => {}
            Res::Panic(m) => return CaseResult::Fail(format!("panic: {} args {:?}", m, a1)),
            other => return CaseResult::Fail(format!("a generated configuration was rejected: {} args {:?}", other.short(), a1)),
        }
        let modelled = model(c);
        if c.unique && matches!(&modelled, Model::Unspecified(m) if m.starts_with("equality")) {
            // jawk's = and its hash disagree on these rows: what --unique keeps depends on the
            // per-process hash seed, so not even two runs of jawk need to agree (outside C10's domain)
            return CaseResult::Pass(Info::new(false).class("unique_outside_domain"));
        }
        // independence from the order of the options
        let a2 = c.args(c.order_seed | 1);
        let o2 = run(&a2, &input);
        if o2.res != o1.res || o2.stdout != o1.stdout {
            return CaseResult::Fail(format!("the order of the options changes the result: {:?} gives {} {}; {:?} gives {} {}", a1, o1.res.short(), esc_trunc(&o1.stdout, 300), a2, o2.res.short(), esc_trunc(&o2.stdout, 300)));
        }
        let a3 = c.args(c.order_seed2 | 1);
        let o3 = run(&a3, &input);
        if o3.res != o1.res || o3.stdout != o1.stdout {
            return CaseResult::Fail(format!("the order of the options changes the result: {:?} vs {:?}", a1, a3));
        }
        // the same options written as separate words (`--sort-by KEY` for `--sort-by=KEY`) with the
        // input given as a file after them (one case in four, inputs below 64 KiB)
        if input.len() % 4 == 1 && input.len() < 65_536 {
            let mut a4: Vec<String> = Vec::new();
            for a in &a1 {
                match a.split_once('=') {
                    Some((name, value)) if name.starts_with("--") && !value.starts_with('-') && !value.is_empty() => {
                        a4.push(name.to_string());
                        a4.push(value.to_string());
                    }
                    _ => a4.push(a.clone()),
                }
            }
            let dir = crate::fifo::tmp_dir();
            static SEQ: std::sync::atomic::AtomicU64 = std::sync::atomic::AtomicU64::new(0);
            let path = dir.join(format!("c03-{}-{:016x}.json", SEQ.fetch_add(1, std::sync::atomic::Ordering::Relaxed), hash_str(&format!("{:?}{}", a1, input.len()))));
            if std::fs::write(&path, &input).is_ok() {
                // (a bare --merge takes the next word for its optional key expression: the file
                // goes in front of it)
                let at = if a4.last().map(|x| x == "--merge").unwrap_or(false) { a4.len() - 1 } else { a4.len() };
                a4.insert(at, path.to_str().unwrap().to_string());
                let o4 = run(&a4, b"");
                let _ = std::fs::remove_file(&path);
                if o4.res != o1.res || o4.stdout != o1.stdout {
                    return CaseResult::Fail(format!("options written as separate words with the input as a file give another result: {:?} gives {} {}; {:?} on stdin gives {} {}", a4, o4.res.short(), esc_trunc(&o4.stdout, 300), a1, o1.res.short(), esc_trunc(&o1.stdout, 300)));
                }
            }
        }
        // the same options under their documented other names (--choose / -c for --select, --where /
        // -f, --break-by / -b, --combine / -g, --order-by / -s, -k, --limit / -t, -u, -e): one case in four
        if input.len() % 4 == 2 {
            let mut a5: Vec<String> = Vec::new();
            for (i, a) in a1.iter().enumerate() {
                let (name, value) = match a.split_once('=') {
                    Some((n, v)) => (n, Some(v)),
                    None => (a.as_str(), None),
                };
                let pick = (c.order_seed >> (i % 60)) & 1 == 1;
                let (long, short): (&str, &str) = match name {
                    "--select" => ("--choose", "-c"),
                    "--filter" => ("--where", "-f"),
                    "--split-by" => ("--break-by", "-b"),
                    "--group-by" => ("--combine", "-g"),
                    "--merge" => ("--combine", "--group-by"),
                    "--sort-by" => ("--order-by", "-s"),
                    "--skip" => ("--skip", "-k"),
                    "--take" => ("--limit", "-t"),
                    "--unique" => ("--unique", "-u"),
                    "--set" => ("--set", "-e"),
                    _ => {
                        a5.push(a.clone());
                        continue;
                    }
                };
                match value {
                    None => a5.push(if pick { short.to_string() } else { long.to_string() }),
                    // (-g takes an optional value: written with its long name)
                    Some(v) if pick && short.len() == 2 && short != "-g" && !v.starts_with('-') && !v.is_empty() => {
                        a5.push(short.to_string());
                        a5.push(v.to_string());
                    }
                    Some(v) => a5.push(format!("{}={}", long, v)),
                }
            }
            // a bare --combine / --group-by would take a following word as its key: keep it last
            if let Some(pos) = a5.iter().position(|x| x == "--combine" || x == "--group-by") {
                let g = a5.remove(pos);
                a5.push(g);
            }
            let o5 = run(&a5, &input);
            if o5.res != o1.res || o5.stdout != o1.stdout {
                return CaseResult::Fail(format!("the documented other names of the options give another result: {:?} gives {} {}; {:?} gives {} {}", a5, o5.res.short(), esc_trunc(&o5.stdout, 300), a1, o1.res.short(), esc_trunc(&o1.stdout, 300)));
            }
        }
        let got: Vec<RVal> = match split_rows(&o1.stdout, b"\n") {
            Ok(r) => r.into_iter().map(|x| x.0).collect(),
            Err(e) => return CaseResult::Fail(format!("unreadable output: {}", e)),
        };
        let mut all: Vec<&Expr> = c.pipe.sets.iter().map(|s| &s.value).collect();
        all.extend(c.pipe.split.iter());
        all.extend(c.pipe.filter.iter());
        all.extend(c.pipe.selects.iter().map(|s| &s.0));
        all.extend(c.sorts.iter().map(|s| &s.0));
        all.extend(c.group_key.iter());
        let stateful = c.unique as usize + (!c.sorts.is_empty()) as usize + (c.skip > 0 || c.take.is_some()) as usize + (c.group != 0) as usize + c.pipe.split.is_some() as usize;
        let classes = |i: Info| {
            i.class_if(c.unique, "unique")
                .class_if(!c.sorts.is_empty(), "sort")
                .class_if(c.sorts.len() >= 2, "two_or_more_sort_keys")
                .class_if(c.skip > 0 || c.take.is_some(), "skip_take")
                .class_if(c.group == 1, "group_by")
                .class_if(c.group == 2, "merge")
                .class_if(c.group != 0 && (c.skip > 0 || c.take.is_some()), "group_and_limits")
                .class_if(!c.sorts.is_empty() && c.take.is_some(), "sort_and_take")
                .class_if(c.unique && !c.sorts.is_empty(), "unique_and_sort")
                .class_if(c.pipe.split.is_some(), "split")
                .class_if(c.pipe.split.is_some() && c.pipe.selects.len() >= 2, "split_and_two_selects")
                .class_if(c.pipe.filter.is_some(), "filter")
                .class_if(!c.pipe.sets.is_empty(), "set")
                .class_if(c.only_objects, "only_objects")
        };
        if crate::p04::order_sensitive(&all) {
            return CaseResult::Pass(classes(Info::new(false)).class("order_independent_only:member_order_observed"));
        }
        let exp = match modelled {
            Model::Unspecified(_) => return CaseResult::Pass(classes(Info::new(false)).class("order_independent_only:unspecified_expression")),
            Model::Rows(r) => r,
        };
        let allow_unordered = all.iter().any(|e| e.uses_function(crate::p04::SYNTH));
        if got.len() != exp.len() || !got.iter().zip(exp.iter()).all(|(g, e)| value_matches(e, g, allow_unordered)) {
            return CaseResult::Fail(format!(
                "output differs from the documented stage composition: expected {} rows {} got {} rows {} (args {:?})",
                exp.len(),
                trunc(&exp.iter().map(|r| r.to_json()).collect::<Vec<_>>().join(" "), 500),
                got.len(),
                trunc(&got.iter().map(|r| r.to_json()).collect::<Vec<_>>().join(" "), 500),
                a1
            ));
        }
        CaseResult::Pass(classes(Info::new(stateful >= 2 && c.inputs.len() >= 3)).weight(2).obs(json!({"args": a1, "rows": got.len()})))
    }
}

// ---------------------------------------------------------------- thousands of rows against the model

/// The whole stage composition on thousands of rows derived from a seed, with plain field
/// expressions: stability of the sort, first-seen order of group keys, first-occurrence
/// --unique and the limits are decided by the model (not by a second run of jawk), at sizes
/// where buffers, batches and hash tables have grown several times.
#[derive(Clone, Debug, Serialize, Deserialize)]
pub struct Case03L {
    pub n: u32,
    pub seed: u64,
    pub keys: u8,
    pub split: bool,
    /// 0 none, 1 (< .k 2), 2 (= .gs "g1")
    pub filter: u8,
    /// 0 none, 1 [k g], 2 [i k], 3 [gs k g]
    pub sel: u8,
    pub unique: bool,
    /// 0 none, 1 .k, 2 .k .g, 3 .g DESC .k
    pub sorts: u8,
    pub desc: bool,
    pub skip: u64,
    pub take: Option<u64>,
    pub group: u8,
    pub order_seed: u64,
    /// with --split-by: the first sort key and the group key are read from the parent (`^.k`)
    #[serde(default)]
    pub parent_keys: bool,
}

impl Case03L {
    pub fn expand(&self) -> Case03 {
        let mut x = self.seed | 1;
        let mut next = || {
            x ^= x << 13;
            x ^= x >> 7;
            x ^= x << 17;
            x
        };
        let kk = self.keys.max(1) as u64;
        let mut inputs = Vec::with_capacity(self.n as usize);
        for i in 0..self.n as u64 {
            let h = next();
            let rec = |id: u64, h: u64| {
                let k = if (h >> 50) % 13 == 0 { String::new() } else { format!("\"k\":{},", h % kk) };
                let g = (h >> 20) % 5;
                format!("{{\"i\":{},{}\"g\":{},\"gs\":\"g{}\"", id, k, g, g)
            };
            if self.split {
                let m = (h >> 60) % 4;
                let xs: Vec<String> = (0..m).map(|j| format!("{}}}", rec(i * 10 + j, next()))).collect();
                inputs.push(format!("{},\"xs\":[{}]}}", rec(i, h), xs.join(",")));
            } else if self.unique && self.sel != 2 {
                // repeating rows
                inputs.push(format!("{}}}", rec(h % 7, h)));
            } else {
                inputs.push(format!("{}}}", rec(i, h)));
            }
        }
        let key = |k: &str| Expr::key(0, k);
        let pipe = EPipe {
            sets: vec![],
            split: if self.split { Some(key("xs")) } else { None },
            filter: match self.filter {
                1 => Some(Expr::call("<", vec![key("k"), Expr::lit("2")])),
                2 => Some(Expr::call("=", vec![key("gs"), Expr::lit("\"g1\"")])),
                _ => None,
            },
            selects: match self.sel {
                1 => vec![(key("k"), "k".to_string()), (key("g"), "g".to_string())],
                2 => vec![(key("i"), "i".to_string()), (key("k"), "k".to_string())],
                3 => vec![(key("gs"), "gs".to_string()), (key("k"), "k".to_string()), (key("g"), "g".to_string())],
                _ => vec![],
            },
        };
        // after --split-by the most significant key (and the group key) may come from the
        // enclosing record: it is evaluated when the row has already waited in another sorter
        let up = |k: &str| if self.split && self.parent_keys { Expr::key(1, k) } else { Expr::key(0, k) };
        let sorts = match self.sorts {
            1 => vec![(key("k"), self.desc)],
            2 => vec![(up("k"), self.desc), (key("g"), false)],
            3 => vec![(up("g"), true), (key("k"), self.desc)],
            _ => vec![],
        };
        Case03 { pipe, only_objects: false, unique: self.unique, sorts, skip: self.skip, take: self.take, group: self.group, group_key: if self.group == 1 { Some(up("gs")) } else { None }, inputs, order_seed: self.order_seed, order_seed2: self.order_seed.rotate_left(17) }
    }
}

pub struct C03Large;
impl Check for C03Large {
    type Case = Case03L;
    fn name(&self) -> &'static str {
        "C03.large"
    }
    fn cases(&self, tier: Tier) -> u64 {
        tier.pick(400, 5_000)
    }
    fn strategy(&self, t: Tier) -> BoxedStrategy<Case03L> {
        let max_n: u32 = t.pick(5_000, 12_000);
        let n = prop_oneof![18 => 1_030u32..2_500, 6 => 2_500u32..max_n, 6 => 100u32..1_030, 1 => 65_530u32..70_000];
        (n, any::<u64>(), 1u8..6, prop::bool::weighted(0.2), 0u8..3, 0u8..4, prop::bool::weighted(0.3), 0u8..4, any::<bool>(), (0u8..8, any::<u16>()), (0u8..10, any::<u16>()), prop_oneof![3 => Just(0u8), 1 => Just(1u8), 1 => Just(2u8)])
            .prop_map(|(n, seed, keys, split, filter, sel, unique, sorts, desc, (sk, sr), (tk, tr), group)| {
                let frac = |r: u16, m: u32| ((r as u64 * (m as u64 + 1)) >> 16) as u64;
                let skip = match sk {
                    0..=3 => 0,
                    4 => 1,
                    5 => frac(sr, n),
                    6 => 1000 + frac(sr, 50),
                    _ => frac(sr, 30),
                };
                let take = match tk {
                    0..=2 => None,
                    3 => Some(0),
                    4 => Some(1),
                    5 => Some(10),
                    6 => Some(1023 + frac(tr, 3)),
                    7 => Some(frac(tr, n)),
                    _ => Some(1 + frac(tr, 40)),
                };
                Case03L { n, seed, keys, split, filter, sel, unique, sorts, desc, skip, take, group, order_seed: seed.rotate_left(29), parent_keys: seed % 2 == 1 }
            })
            .boxed()
    }
    fn check(&self, c: &Case03L) -> CaseResult {
        let big = c.expand();
        match C03Pipeline.check(&big) {
            CaseResult::Pass(info) => CaseResult::Pass(Info { nontrivial: info.nontrivial && c.n >= 1000, ..info }.class_if(c.n >= 1000, "thousand_rows_or_more")),
            other => other,
        }
    }
}

pub fn run_all(ctx: &mut Ctx) {
    ctx.rule = "option subsets over --set (variables, macros), --split-by, --filter, 0..3 --select (with /name/ back-references), --unique, 0..3 --sort-by with directions, --skip 0..3, --take absent|0..6, --group-by | --merge, --only-objects-and-arrays, each with a generated expression (type-directed, depth <= 2) x 0..12 inputs built from 1..3 base records (so keys repeat and tie; variants differ in a tag field; some top-level scalars) x three argument orders (relative order of the --select and --sort-by options kept). Oracle: (1) the three argument orders give byte-identical results, and so does (one case in four) the spelling with option and value as separate words and the input as a file argument behind them, and (one case in four) the spelling with the documented other names and short flags of the options; (2) the rows equal the reference pipeline (split -> filter -> select -> unique -> sort -> skip/take -> group|merge after only-objects) with expressions evaluated by the reference evaluator; cases whose expressions hit a point the documentation leaves open are judged by (1) only. non-trivial = judged by the model, >= 2 stateful/structural stages and >= 3 inputs. C03.large: the same two oracles on 100..5000 rows (12000 thorough) derived from a seed (1..5 distinct sort keys, rows without the key, optional nested lists for --split-by, repeating rows under --unique), plain field expressions in every stage, limits around 1024 and around the row count; non-trivial additionally needs >= 1000 rows".into();
    ctx.assumptions = vec!["reference evaluator as in C04; rows compared as values (number spelling and object member order of synthesised records free)".into()];
    C03Pipeline.run(ctx);
    C03Large.run(ctx);
}

pub fn checks() -> Vec<Box<dyn DynCheck>> {
    vec![Box::new(C03Pipeline), Box::new(C03Large)]
}
