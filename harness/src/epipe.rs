//! Pipelines with generated expressions in every option position (C03, C11, C12, C13).

use crate::expr::Kind::*;
use crate::expr::*;
use serde::{Deserialize, Serialize};

#[derive(Clone, Debug, Serialize, Deserialize, PartialEq)]
pub struct PreSet {
    pub name: String,
    pub is_macro: bool,
    pub value: Expr,
}

#[derive(Clone, Debug, Serialize, Deserialize, PartialEq)]
pub struct EPipe {
    pub sets: Vec<PreSet>,
    pub split: Option<Expr>,
    pub filter: Option<Expr>,
    pub selects: Vec<(Expr, String)>,
}

/// what the generator knows about the context behind the stateless stages
#[derive(Clone, Debug)]
pub struct EPipeEnv {
    pub env: Env,
}

impl EPipe {
    /// decode a stateless pipeline from the tape; returns the pipeline and the environment
    /// that later stages (sort keys, group keys) can use
    pub fn decode(g: &mut Gen, max_sel: usize, depth: u32) -> (EPipe, Env) {
        let mut env = Env::top();
        let mut sets = Vec::new();
        let nv = [0usize, 0, 1, 1, 2][g.tape.below(5)];
        for i in 0..nv {
            let k = *g.tape.pick(LEAF_KINDS);
            let name = format!("p{}", i);
            let lit = g.lit(k, 2);
            // a --set value is an expression evaluated on nothing: it sees neither the input nor
            // the other --set variables, so (default :p0 L) is L whatever the option order
            let value = if i >= 1 && g.tape.chance(1, 3) { Expr::call("default", vec![Expr::Var(format!("p{}", i - 1)), Expr::Lit(lit)]) } else { Expr::Lit(lit) };
            sets.push(PreSet { name: name.clone(), is_macro: false, value });
            env.vars.push((name, k));
        }
        let nm = [0usize, 0, 1, 1, 2][g.tape.below(5)];
        for i in 0..nm {
            let k = *g.tape.pick(&[Num, Str, Bool, Arr, Any]);
            let name = format!("q{}", i);
            let body = g.expr(k, depth.min(3), &env);
            sets.push(PreSet { name: name.clone(), is_macro: true, value: body });
            env.macros.push((name, k));
        }
        let split = if g.tape.chance(1, 3) {
            let ak = *g.tape.pick(CONCRETE_ARR);
            let e = g.expr(ak, depth.min(2), &env);
            env = env.with_dot(elem_kind(ak));
            Some(e)
        } else {
            None
        };
        let filter = if g.tape.chance(1, 3) { Some(g.expr(Bool, depth, &env)) } else { None };
        let ns = g.tape.below(max_sel + 1);
        let mut selects = Vec::new();
        let digit_names = g.tape.chance(1, 6);
        // names that differ only in letter case
        let case_names = !digit_names && g.tape.chance(1, 8);
        // titles that differ only in blanks at their end (a title is taken as written)
        let blank_names = !digit_names && !case_names && g.tape.chance(1, 8);
        for i in 0..ns {
            let k = *g.tape.pick(LEAF_KINDS);
            let e = g.expr(k, depth, &env);
            // digits that are not the position of the selection
            let name = if digit_names { format!("{}", (i + 1) % (max_sel + 1)) } else if case_names { ["k", "K", "kk", "KK", "Kk"][i % 5].to_string() } else if blank_names { ["t", "t ", "t  ", "t t", "t\t"][i % 5].to_string() } else { format!("s{}", i) };
            selects.push((e, name.clone()));
            // a /name/ reference cannot spell a title with blanks in it: such selections are
            // printed but never referred to
            if !name.contains(|c: char| c.is_whitespace()) {
                env.sels.push((name, k));
            }
        }
        (EPipe { sets, split, filter, selects }, env)
    }

    pub fn args(&self, sp: &Spell) -> Vec<String> {
        let mut a = Vec::new();
        for s in &self.sets {
            if s.is_macro {
                a.push(format!("--set=@{}={}", s.name, print(&s.value, sp)));
            } else {
                a.push(format!("--set={}={}", s.name, print(&s.value, sp)));
            }
        }
        if let Some(e) = &self.split {
            a.push(format!("--split-by={}", print(e, sp)));
        }
        if let Some(e) = &self.filter {
            a.push(format!("--filter={}", print(e, sp)));
        }
        for (e, n) in &self.selects {
            a.push(select_arg(e, n, sp));
        }
        a
    }

    pub fn any_expr(&self, f: &dyn Fn(&Expr) -> bool) -> bool {
        self.sets.iter().any(|s| s.value.any(f)) || self.split.as_ref().map(|e| e.any(f)).unwrap_or(false) || self.filter.as_ref().map(|e| e.any(f)).unwrap_or(false) || self.selects.iter().any(|s| s.0.any(f))
    }

    pub fn stages(&self) -> usize {
        (!self.sets.is_empty()) as usize + self.split.is_some() as usize + self.filter.is_some() as usize + self.selects.len()
    }
}

/// output style arguments: 0 default json, 1 one-line, 2 consise, 3 pretty, 4 json utf8,
/// 5 text, 6 text with headers and options, 7 csv
pub fn style_args(style: u8) -> Vec<String> {
    match style {
        1 => vec!["--style=one-line".into()],
        2 => vec!["--style=consise".into()],
        3 => vec!["--style=pretty".into()],
        4 => vec!["--utf8-strings".into()],
        5 => vec!["--output-style=text".into()],
        6 => vec!["--output-style=text".into(), "--headers".into(), "--items-seperator=|".into(), "--missing-value-keyword=NA".into(), "--string-prefix=<".into(), "--string-postfix=>".into()],
        7 => vec!["--output-style=csv".into()],
        _ => vec![],
    }
}
