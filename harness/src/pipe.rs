//! A generated pipeline configuration over `Rec` streams, shared by C08 / C09 / C03-style checks.

use crate::p07::{arb_dir, SortKey};
use crate::rjson::*;
use crate::rows::*;
use crate::univ::*;
use proptest::collection::vec;
use proptest::prelude::*;
use serde::{Deserialize, Serialize};

pub const FIELDS: &[&str] = &["a", "b", "c", "g"];

#[derive(Clone, Debug, Serialize, Deserialize)]
pub struct Pipe {
    /// chunk sizes when --split-by=.items is used (None = no split)
    pub split: Option<Vec<u8>>,
    /// 0 none, 1 (< .a .b), 2 (string? .g), 3 (>= .a .b)
    pub filter: u8,
    /// 0 none, 1 = select i,a,b,c,g ; 2 = select a,g (no id, so duplicates exist)
    pub select: u8,
    pub unique: bool,
    pub sort: Vec<SortKey>,
    pub skip: u64,
    pub take: Option<u64>,
    /// 0 none, 1 --group-by, 2 --merge
    pub group: u8,
}

impl Pipe {
    pub fn args(&self, with_limits: bool, with_group: bool) -> Vec<String> {
        let mut a = Vec::new();
        if self.split.is_some() {
            a.push("--split-by=.items".to_string());
        }
        match self.filter {
            1 => a.push("--filter=(< .a .b)".to_string()),
            2 => a.push("--filter=(string? .g)".to_string()),
            3 => a.push("--filter=(>= .a .b)".to_string()),
            _ => {}
        }
        match self.select {
            1 => {
                for f in ["i", "a", "b", "c", "g"] {
                    a.push(format!("--select=.{}={}", f, f));
                }
            }
            2 => {
                for f in ["a", "g"] {
                    a.push(format!("--select=.{}={}", f, f));
                }
            }
            _ => {}
        }
        if self.unique {
            a.push("--unique".to_string());
        }
        for k in &self.sort {
            a.push(k.arg());
        }
        if with_limits {
            if self.skip > 0 {
                a.push(format!("--skip={}", self.skip));
            }
            if let Some(t) = self.take {
                a.push(format!("--take={}", t));
            }
        }
        if with_group {
            match self.group {
                1 => a.push(if self.select == 0 { "--group-by=.g".to_string() } else { "--group-by=/g/".to_string() }),
                2 => a.push("--merge".to_string()),
                _ => {}
            }
        }
        a
    }

    pub fn input(&self, recs: &[Rec]) -> Vec<u8> {
        match &self.split {
            None => recs_input(recs),
            Some(chunks) => {
                let mut s = String::new();
                let mut i = 0;
                let mut c = 0;
                while i < recs.len() || c < chunks.len().min(2) {
                    let n = chunks.get(c % chunks.len().max(1)).copied().unwrap_or(1) as usize;
                    let end = (i + n).min(recs.len());
                    s.push_str("{\"items\":[");
                    s.push_str(&recs[i..end].iter().map(|r| r.text()).collect::<Vec<_>>().join(","));
                    s.push_str("]}\n");
                    i = end;
                    c += 1;
                    if c > recs.len() + 4 {
                        break;
                    }
                }
                s.into_bytes()
            }
        }
    }
}

pub fn arb_pipe(max_sort: usize, allow_group: bool) -> BoxedStrategy<Pipe> {
    let sort = (0usize..=max_sort, vec((prop::sample::select(vec!["a", "b", "c"]), arb_dir(), any::<bool>()), 3)).prop_map(|(n, ks)| {
        ks.into_iter().take(n).map(|(f, d, e)| SortKey { field: f.to_string(), dir: d, eq_syntax: e }).collect::<Vec<_>>()
    });
    (
        prop::option::weighted(0.25, vec(0u8..4, 1..4)),
        prop_oneof![5 => Just(0u8), 1 => Just(1u8), 1 => Just(2u8), 1 => Just(3u8)],
        prop_oneof![3 => Just(0u8), 2 => Just(1u8), 2 => Just(2u8)],
        prop::bool::weighted(0.35),
        sort,
        prop_oneof![3 => Just(0u64), 3 => 0u64..=6],
        prop::option::weighted(0.7, prop_oneof![3 => 0u64..=6, 1 => 0u64..=40]),
        if allow_group { prop_oneof![2 => Just(0u8), 2 => Just(1u8), 1 => Just(2u8)].boxed() } else { Just(0u8).boxed() },
    )
        .prop_map(|(split, filter, select, unique, sort, skip, take, group)| Pipe { split, filter, select, unique, sort, skip, take, group })
        .boxed()
}

/// group keys: mostly strings (incl. "", non-ASCII, numeric-looking), some numbers/null
pub fn group_key_candidates() -> Vec<usize> {
    let want = ["\"\"", "\"a\"", "\"b\"", "\"\u{e9}\"", "\"\\u00e9\"", "\"1\"", "\"10\"", "\"1.0\"", "\"null\"", "\"\\u0061\"", "1", "1.0", "null", "true", "[]", "{}"];
    want.iter().filter_map(|w| UNIVERSE.iter().position(|u| u == w)).collect()
}

/// records whose a,b,c come from the whole universe (small per-case pools) and g from the group-key set
pub fn arb_pipe_recs(max_len: usize) -> BoxedStrategy<Vec<Rec>> {
    let gk = group_key_candidates();
    (arb_recs(&["a", "b", "c"], all_universe(), max_len, 1), vec(0..gk.len(), 1..5), vec((0u32..10, any::<u16>()), max_len + 1))
        .prop_map(move |(mut recs, pool, cells)| {
            for (r, (absent, pick)) in recs.iter_mut().zip(cells.iter()) {
                if *absent >= 1 {
                    let u = gk[pool[crate::engine::pick_idx(*pick, pool.len())]];
                    r.fields.push(("g".to_string(), u));
                }
            }
            recs
        })
        .boxed()
}

/// the documented grouping of a list of printed rows by their `g` member
pub fn group_model(rows: &[RVal]) -> RVal {
    group_model_by(rows, "g")
}

pub fn group_model_by(rows: &[RVal], field: &str) -> RVal {
    let mut keys: Vec<String> = Vec::new();
    let mut groups: Vec<Vec<RVal>> = Vec::new();
    for r in rows {
        if let Some(RVal::Str(k)) = r.get(field) {
            match keys.iter().position(|x| x == k) {
                Some(p) => groups[p].push(r.clone()),
                None => {
                    keys.push(k.clone());
                    groups.push(vec![r.clone()]);
                }
            }
        }
    }
    RVal::Obj(keys.into_iter().zip(groups.into_iter().map(RVal::Arr)).collect())
}

pub fn parse_rows(stdout: &[u8]) -> Result<Vec<RVal>, String> {
    Ok(split_rows(stdout, b"\n")?.into_iter().map(|x| x.0).collect())
}
