//! Reference evaluator for jawk expressions (DESIGN §2.5, Appendix A), written from the
//! function documentation (`add_description_line` / `add_example` texts and the selection help),
//! not from the implementations. Where the documentation does not decide the answer the
//! evaluator says `U` (unspecified) and the check does not judge the case.

use crate::expr::*;
use crate::rjson::*;
use crate::univ::spec_cmp;
use num_bigint::BigInt;
use num_traits::{Signed, Zero};
use std::cmp::Ordering;

#[derive(Clone, Debug)]
pub enum Ev {
    /// exactly this value (None = nothing)
    Val(Option<RVal>),
    /// one of these
    OneOf(Vec<Option<RVal>>),
    /// a string that is a JSON text of this value (stringify)
    Json(RVal),
    /// a string that is a decimal spelling of mant * 10^exp (number-as-string results)
    Dec(BigInt, i64),
    /// the documentation does not decide
    U,
}
use Ev::*;

pub fn nothing() -> Ev {
    Val(None)
}
fn val(v: RVal) -> Ev {
    Val(Some(v))
}
fn boolean(b: bool) -> Ev {
    val(RVal::Bool(b))
}

#[derive(Clone, Debug, Default)]
pub struct Cx {
    /// chain[0] = current input, chain[1] = its parent ...; None = unspecified level
    pub chain: Vec<Option<RVal>>,
    pub vars: Vec<(String, RVal)>,
    pub macros: Vec<(String, Expr)>,
    pub sels: Vec<(String, Option<RVal>)>,
}

impl Cx {
    pub fn top(input: RVal) -> Cx {
        Cx { chain: vec![Some(input)], ..Default::default() }
    }
    fn with_dot(&self, v: RVal) -> Cx {
        let mut c = self.clone();
        c.chain.insert(0, Some(v));
        c
    }
}

pub struct Evaluator {
    pub fuel: i64,
}

const TWO53: f64 = 9007199254740992.0;

fn as_f64_exact(v: &RVal) -> Result<f64, ()> {
    match v {
        RVal::Int(i) => {
            if i.unsigned_abs() < (1u128 << 53) {
                Ok(*i as f64)
            } else {
                Err(())
            }
        }
        RVal::Float(f) => Ok(*f),
        _ => Err(()),
    }
}

/// Arithmetic with an integer operand beyond 2^53: the documentation does not say whether it is
/// carried out on integers or on doubles, so both results are accepted - the double result
/// (within the usual tolerance) and, when every operand is an integer and the exact result is
/// a 64-bit integer, the exact one. Anything else (a wrapped, negated or truncated value) is
/// a mismatch.
fn big_arith(f: &str, nums: &[RVal]) -> Ev {
    if nums.iter().any(|v| !v.is_num()) {
        // (sum meets its elements one by one: a later element may not be a number at all)
        return nothing();
    }
    let fl: Vec<f64> = nums.iter().map(|v| v.as_f64().unwrap()).collect();
    let ints: Option<Vec<i128>> = nums.iter().map(|v| if let RVal::Int(i) = v { Some(*i) } else { None }).collect();
    let (r, exact): (f64, Option<i128>) = match f {
        "abs" => (fl[0].abs(), ints.as_ref().map(|i| i[0].abs())),
        "round" | "ceil" | "floor" => (fl[0], ints.as_ref().map(|i| i[0])),
        "neg" => (-fl[0], ints.as_ref().map(|i| -i[0])),
        "+" | "sum" => (fl.iter().fold(0.0, |a, b| a + b), ints.as_ref().and_then(|i| i.iter().try_fold(0i128, |a, b| a.checked_add(*b)))),
        "*" => (fl.iter().fold(1.0, |a, b| a * b), ints.as_ref().and_then(|i| i.iter().try_fold(1i128, |a, b| a.checked_mul(*b)))),
        "-" => (fl[0] - fl[1], ints.as_ref().and_then(|i| i[0].checked_sub(i[1]))),
        "/" => {
            if fl[1] == 0.0 {
                return nothing();
            }
            (fl[0] / fl[1], ints.as_ref().and_then(|i| if i[1] != 0 && i[0] % i[1] == 0 { Some(i[0] / i[1]) } else { None }))
        }
        "%" => {
            if fl[1] == 0.0 {
                return nothing();
            }
            (fl[0] % fl[1], ints.as_ref().and_then(|i| if i[1] != 0 { Some(i[0] % i[1]) } else { None }))
        }
        _ => return U,
    };
    let a = match num_result(r) {
        Val(x) => x,
        _ => return U,
    };
    match exact {
        Some(e) if e >= -(1i128 << 63) && e < (1i128 << 64) => {
            let b = Some(RVal::Int(e));
            if matches!(&a, Some(RVal::Int(x)) if *x == e) {
                Val(a)
            } else {
                OneOf(vec![a, b])
            }
        }
        _ => Val(a),
    }
}

/// f64 result -> the value jawk's documentation promises ("zero fractional part => integer")
fn num_result(r: f64) -> Ev {
    if !r.is_finite() {
        return nothing();
    }
    if r.fract() == 0.0 && r.abs() < TWO53 {
        val(RVal::Int(r as i128))
    } else if r.fract() == 0.0 {
        // integral but beyond exact range: representation details unspecified
        val(RVal::Float(r))
    } else {
        val(RVal::Float(r))
    }
}

/// index-like argument: Ok(Some(n)) usable, Ok(None) = not a non-negative integer (nothing), Err = unspecified
fn as_index(v: &Option<RVal>) -> Result<Option<usize>, ()> {
    as_index_of(v, false)
}

/// `wide`: the number only counts or addresses elements that exist (N of take / take_last /
/// head / tail, the index of get, the start of sub), so any non-negative 64-bit integer is
/// meaningful - "N >= size gives the whole collection". Not wide: the number decides how much
/// is built (range N, the length of sub), where huge values are resource exhaustion.
fn as_index_of(v: &Option<RVal>, wide: bool) -> Result<Option<usize>, ()> {
    match v {
        Some(RVal::Int(i)) => {
            if *i >= 0 && (*i <= 1_000_000_000 || (wide && *i < (1i128 << 64))) {
                Ok(Some((*i).min(usize::MAX as i128) as usize))
            } else if *i < 0 {
                Ok(None)
            } else {
                Err(()) // huge: allocation behaviour outside the domain
            }
        }
        Some(RVal::Float(f)) => {
            if f.fract() == 0.0 {
                Err(())
            } else {
                Ok(None)
            }
        }
        _ => Ok(None),
    }
}

/// three-valued equality: None when the values are equal only up to object member order
pub fn eq3(a: &RVal, b: &RVal) -> Option<bool> {
    match (a, b) {
        (RVal::Null, RVal::Null) => Some(true),
        (RVal::Bool(x), RVal::Bool(y)) => Some(x == y),
        (RVal::Str(x), RVal::Str(y)) => Some(x == y),
        (x, y) if x.is_num() && y.is_num() => match (x, y) {
            (RVal::Int(p), RVal::Int(q)) => Some(p == q),
            _ => {
                let (p, q) = (x.as_f64().unwrap(), y.as_f64().unwrap());
                // an integer beyond 2^53 against a float: comparison detail unspecified
                if p.abs() >= TWO53 || q.abs() >= TWO53 {
                    if p != q {
                        Some(false)
                    } else {
                        None
                    }
                } else {
                    Some(p == q)
                }
            }
        },
        (RVal::Arr(x), RVal::Arr(y)) => {
            if x.len() != y.len() {
                return Some(false);
            }
            let mut unknown = false;
            for (p, q) in x.iter().zip(y) {
                match eq3(p, q) {
                    Some(false) => return Some(false),
                    None => unknown = true,
                    _ => {}
                }
            }
            if unknown {
                None
            } else {
                Some(true)
            }
        }
        (RVal::Obj(x), RVal::Obj(y)) => {
            if x.len() != y.len() {
                return Some(false);
            }
            // same keys in the same order?
            let same_order = x.iter().zip(y).all(|(p, q)| p.0 == q.0);
            let mut unknown = !same_order;
            for (k, v) in x {
                match y.iter().find(|m| &m.0 == k) {
                    None => return Some(false),
                    Some(m) => match eq3(v, &m.1) {
                        Some(false) => return Some(false),
                        None => unknown = true,
                        _ => {}
                    },
                }
            }
            if unknown {
                None
            } else {
                Some(true)
            }
        }
        _ => Some(false),
    }
}

/// the specified order; None = unspecified (different objects, integers beyond 2^53)
pub fn cmp3(a: &RVal, b: &RVal) -> Option<Ordering> {
    fn big(v: &RVal) -> bool {
        match v {
            RVal::Int(i) => i.unsigned_abs() >= (1u128 << 53),
            RVal::Float(f) => f.abs() >= TWO53 && f.fract() == 0.0 && false,
            RVal::Arr(a) => a.iter().any(big),
            RVal::Obj(o) => o.iter().any(|m| big(&m.1)),
            _ => false,
        }
    }
    if big(a) || big(b) {
        return None;
    }
    match spec_cmp(a, b) {
        Some(Ordering::Equal) => match eq3(a, b) {
            Some(true) => Some(Ordering::Equal),
            _ => None,
        },
        other => other,
    }
}

/// all pairs comparable under the specified order? (a sort with an inconsistent comparator
/// must never be attempted)
pub fn all_comparable(keys: &[&RVal]) -> bool {
    // distinct key texts only (thousands of rows share a handful of keys)
    let mut seen = std::collections::HashSet::new();
    let keys: Vec<&RVal> = keys.iter().copied().filter(|k| seen.insert(k.to_json())).collect();
    for i in 0..keys.len() {
        for j in i + 1..keys.len() {
            if cmp3(keys[i], keys[j]).is_none() {
                return false;
            }
        }
    }
    // a key that is not comparable with itself (an integer beyond 2^53) never sorts
    keys.iter().all(|k| cmp3(k, k).is_some())
}

// ---------------------------------------------------------------- decimals (number as string)

pub fn parse_nas(s: &str) -> Result<Option<(BigInt, i64)>, ()> {
    // documented: decimal strings; spellings the documentation does not mention are unspecified
    if let Some(p) = crate::p19::parse_decimal(s) {
        let first = s.trim_start_matches('-').chars().next();
        if !first.map(|c| c.is_ascii_digit()).unwrap_or(false) || s.ends_with('.') || s.contains(".e") || s.contains(".E") || p.1.abs() > 100_000 {
            return Err(());
        }
        return Ok(Some(p));
    }
    if !s.bytes().any(|c| c.is_ascii_digit()) {
        return Ok(None); // clearly not a number ("abc", "")
    }
    Err(()) // "1 ", "0x10", "1e", "+5", ...: not documented either way
}

fn pow10(k: u64) -> BigInt {
    num_traits::pow(BigInt::from(10), k as usize)
}
fn d_align(a: &(BigInt, i64), b: &(BigInt, i64)) -> (BigInt, BigInt, i64) {
    let e = a.1.min(b.1);
    (&a.0 * pow10((a.1 - e) as u64), &b.0 * pow10((b.1 - e) as u64), e)
}
fn d_add(a: &(BigInt, i64), b: &(BigInt, i64)) -> (BigInt, i64) {
    let (x, y, e) = d_align(a, b);
    (x + y, e)
}
fn d_cmp(a: &(BigInt, i64), b: &(BigInt, i64)) -> Ordering {
    let (x, y, _) = d_align(a, b);
    x.cmp(&y)
}

// ---------------------------------------------------------------- small helpers

fn is_ascii_str(s: &str) -> bool {
    s.is_ascii()
}

fn civil_from_days(z: i64) -> (i64, u32, u32) {
    let z = z + 719468;
    let era = if z >= 0 { z } else { z - 146096 } / 146097;
    let doe = (z - era * 146097) as u64;
    let yoe = (doe - doe / 1460 + doe / 36524 - doe / 146096) / 365;
    let y = yoe as i64 + era * 400;
    let doy = doe - (365 * yoe + yoe / 4 - yoe / 100);
    let mp = (5 * doy + 2) / 153;
    let d = (doy - (153 * mp + 2) / 5 + 1) as u32;
    let m = if mp < 10 { mp + 3 } else { mp - 9 } as u32;
    (if m <= 2 { y + 1 } else { y }, m, d)
}

fn b64_decode(s: &str) -> Result<Option<Vec<u8>>, ()> {
    const A: &[u8] = b"ABCDEFGHIJKLMNOPQRSTUVWXYZabcdefghijklmnopqrstuvwxyz0123456789+/";
    let b = s.as_bytes();
    if b.iter().any(|c| !(A.contains(c) || *c == b'=')) {
        return Ok(None);
    }
    if b.len() % 4 != 0 {
        return Err(()); // unpadded: unspecified
    }
    let mut out = Vec::new();
    for (ci, ch) in b.chunks(4).enumerate() {
        let last = ci + 1 == b.len() / 4;
        let pad = ch.iter().rev().take_while(|c| **c == b'=').count();
        if pad > 2 || (pad > 0 && !last) || ch[..4 - pad].contains(&b'=') {
            return Ok(None);
        }
        let mut v = 0u32;
        for c in &ch[..4 - pad] {
            v = (v << 6) | A.iter().position(|a| a == c).unwrap() as u32;
        }
        v <<= 6 * pad as u32;
        let bytes = [(v >> 16) as u8, (v >> 8) as u8, v as u8];
        // non-canonical trailing bits: unspecified
        if pad == 1 && (v & 0xff) != 0 || pad == 2 && (v & 0xffff) != 0 {
            return Err(());
        }
        out.extend_from_slice(&bytes[..3 - pad]);
    }
    Ok(Some(out))
}

/// the fixed expression texts of the generator (EXPRTEXT_LITS) as ASTs
fn known_expr_text(s: &str) -> Result<Option<Expr>, ()> {
    Ok(Some(match s {
        "(+ 10 11)" => Expr::call("+", vec![Expr::lit("10"), Expr::lit("11")]),
        "." => Expr::dot(),
        ".n" => Expr::key(0, "n"),
        "(len .)" => Expr::call("size", vec![Expr::dot()]),
        "1" => Expr::lit("1"),
        "\"a\"" => Expr::lit("\"a\""),
        "^.n" => Expr::key(1, "n"),
        ":v" => Expr::Var("v".into()),
        "(map .an (+ . 1))" => Expr::call("map", vec![Expr::key(0, "an"), Expr::call("+", vec![Expr::dot(), Expr::lit("1")])]),
        "(take .s 1)" => Expr::call("take", vec![Expr::key(0, "s"), Expr::lit("1")]),
        "(+ 10 11) = total" => Expr::call("+", vec![Expr::lit("10"), Expr::lit("11")]),
        // a complete expression followed by something that is not `= name`: not a selection
        "(" | "(nosuch 1)" | "(+ 1" | "" | "(len)" | "(+ 10 11) junk" | "(+ 10 11))" | ".n junk" | "12 13" | "[1,2]]" | "(+ 1 2) x" | "#99999999999999999999" | ".an#18446744073709551616" | "'(+ 10 11)'" | "'.n'" | "/s0" => return Ok(None),
        // a valid index far beyond any list: nothing
        "#18446744073709551615" => Expr::Path { up: 0, steps: vec![Step::Idx(usize::MAX)] },
        _ => return Err(()),
    }))
}

impl Evaluator {
    pub fn new() -> Self {
        Evaluator { fuel: 200_000 }
    }

    fn arg(&mut self, args: &[Expr], i: usize, cx: &Cx) -> Ev {
        match args.get(i) {
            Some(e) => self.eval(e, cx),
            None => nothing(),
        }
    }

    pub fn eval(&mut self, e: &Expr, cx: &Cx) -> Ev {
        self.fuel -= 1;
        if self.fuel < 0 {
            return U;
        }
        match e {
            Expr::Lit(t) => match parse_one(t.as_bytes()) {
                Ok(v) => val(v),
                Err(_) => U,
            },
            Expr::Path { up, steps } => {
                let Some(level) = cx.chain.get(*up) else { return U };
                let Some(mut cur) = level.clone() else { return U };
                for s in steps {
                    let next = match (s, &cur) {
                        (Step::Key(k), RVal::Obj(o)) => o.iter().find(|m| &m.0 == k).map(|m| m.1.clone()),
                        (Step::Idx(i), RVal::Arr(a)) => a.get(*i).cloned(),
                        _ => None,
                    };
                    match next {
                        Some(v) => cur = v,
                        None => return nothing(),
                    }
                }
                val(cur)
            }
            Expr::Var(n) => Val(cx.vars.iter().rev().find(|v| &v.0 == n).map(|v| v.1.clone())),
            Expr::Mac(n) => match cx.macros.iter().rev().find(|m| &m.0 == n) {
                Some(m) => {
                    let body = m.1.clone();
                    self.eval(&body, cx)
                }
                None => nothing(),
            },
            Expr::Sel(n) => match cx.sels.iter().find(|s| &s.0 == n) {
                Some(s) => Val(s.1.clone()),
                None => nothing(),
            },
            // the reference evaluator has no input positions: not judged
            Expr::Ctx(_) => U,
            Expr::Call { f, args } => self.call(f, args, cx),
        }
    }

    /// evaluate a lambda body with `.` = dot
    fn lam(&mut self, body: &Expr, dot: RVal, cx: &Cx) -> Ev {
        let c = cx.with_dot(dot);
        self.eval(body, &c)
    }

    fn call(&mut self, f: &str, args: &[Expr], cx: &Cx) -> Ev {
        macro_rules! get {
            ($i:expr) => {
                match self.arg(args, $i, cx) {
                    Val(v) => v,
                    Json(_) | Dec(..) | OneOf(_) | U => return U,
                }
            };
        }
        match f {
            // ------------------------------------------------ basic / collection
            "get" => {
                let c = get!(0);
                let k = get!(1);
                match (c, k) {
                    (Some(RVal::Obj(o)), Some(RVal::Str(k))) => Val(o.iter().find(|m| m.0 == k).map(|m| m.1.clone())),
                    (Some(RVal::Arr(a)), k) => match as_index_of(&k, true) {
                        Ok(Some(i)) => Val(a.get(i).cloned()),
                        Ok(None) => nothing(),
                        Err(()) => U,
                    },
                    _ => nothing(),
                }
            }
            "size" => match get!(0) {
                Some(RVal::Arr(a)) => val(RVal::Int(a.len() as i128)),
                Some(RVal::Obj(o)) => val(RVal::Int(o.len() as i128)),
                Some(RVal::Str(s)) => {
                    if is_ascii_str(&s) {
                        val(RVal::Int(s.len() as i128))
                    } else {
                        OneOf(vec![Some(RVal::Int(s.chars().count() as i128)), Some(RVal::Int(s.len() as i128))])
                    }
                }
                _ => nothing(),
            },
            "take" | "take_last" | "head" | "tail" => {
                let c = get!(0);
                let n = get!(1);
                let string_only = f == "head" || f == "tail";
                let n = match as_index_of(&n, true) {
                    Ok(Some(n)) => n,
                    Ok(None) => return nothing(),
                    Err(()) => return U,
                };
                let last = f == "take_last";
                match c {
                    Some(RVal::Arr(a)) if !string_only => {
                        let k = n.min(a.len());
                        val(RVal::Arr(if last { a[a.len() - k..].to_vec() } else { a[..k].to_vec() }))
                    }
                    Some(RVal::Obj(o)) if !string_only => {
                        let k = n.min(o.len());
                        val(RVal::Obj(if last { o[o.len() - k..].to_vec() } else { o[..k].to_vec() }))
                    }
                    Some(RVal::Str(s)) => {
                        let chars: Vec<char> = s.chars().collect();
                        let k = n.min(chars.len());
                        let first_k: String = chars[..k].iter().collect();
                        let last_k: String = chars[chars.len() - k..].iter().collect();
                        let drop_k: String = chars[k..].iter().collect();
                        if !is_ascii_str(&s) {
                            // bytes or characters: not documented. Where both units say the same
                            // - N at least the number of bytes: the whole string (the documented
                            // examples of head / tail / take with a large N) - the answer stands;
                            // for tail between the two lengths it is the whole string (characters)
                            // or the last N bytes (bytes), nothing else
                            if n > s.len() {
                                return val(RVal::Str(s));
                            }
                            if f == "tail" && n > chars.len() {
                                // counted in characters: the whole string; counted in bytes: the
                                // last N bytes, or what is left after N bytes
                                let mut alts = vec![Some(RVal::Str(s.clone()))];
                                if s.is_char_boundary(s.len() - n) {
                                    alts.push(Some(RVal::Str(s[s.len() - n..].to_string())));
                                }
                                if s.is_char_boundary(n) {
                                    alts.push(Some(RVal::Str(s[n..].to_string())));
                                }
                                return OneOf(alts);
                            }
                            // N within the string: counted in characters or in bytes, nothing else
                            // (and nothing at all only where N bytes end inside a character)
                            let mut alts: Vec<Option<RVal>> = Vec::new();
                            let mut add = |v: Option<RVal>, alts: &mut Vec<Option<RVal>>| {
                                let same = |a: &Option<RVal>, b: &Option<RVal>| match (a, b) {
                                    (None, None) => true,
                                    (Some(RVal::Str(x)), Some(RVal::Str(y))) => x == y,
                                    _ => false,
                                };
                                if !alts.iter().any(|a| same(a, &v)) {
                                    alts.push(v);
                                }
                            };
                            let front = |alts: &mut Vec<Option<RVal>>, add: &mut dyn FnMut(Option<RVal>, &mut Vec<Option<RVal>>)| {
                                if s.is_char_boundary(n) {
                                    add(Some(RVal::Str(s[..n].to_string())), alts)
                                } else {
                                    add(None, alts)
                                }
                            };
                            match f {
                                "take" | "head" => {
                                    add(Some(RVal::Str(first_k.clone())), &mut alts);
                                    front(&mut alts, &mut add);
                                }
                                "take_last" => {
                                    add(Some(RVal::Str(last_k.clone())), &mut alts);
                                    if s.is_char_boundary(s.len() - n) {
                                        add(Some(RVal::Str(s[s.len() - n..].to_string())), &mut alts);
                                    } else {
                                        add(None, &mut alts);
                                    }
                                }
                                _ => {
                                    add(Some(RVal::Str(last_k.clone())), &mut alts);
                                    add(Some(RVal::Str(drop_k.clone())), &mut alts);
                                    if s.is_char_boundary(s.len() - n) {
                                        add(Some(RVal::Str(s[s.len() - n..].to_string())), &mut alts);
                                    } else {
                                        add(None, &mut alts);
                                    }
                                    if s.is_char_boundary(n) {
                                        add(Some(RVal::Str(s[n..].to_string())), &mut alts);
                                    } else {
                                        add(None, &mut alts);
                                    }
                                }
                            }
                            return if alts.len() == 1 { Val(alts.pop().unwrap()) } else { OneOf(alts) };
                        }
                        match f {
                            "take" | "head" => val(RVal::Str(first_k)),
                            "take_last" => val(RVal::Str(last_k)),
                            _ => {
                                // tail: "the end of the first argument": the last N characters or the
                                // rest after N characters - the documentation fits both
                                if n > chars.len() {
                                    // (tail "test-123" 20) = "test-123" is a documented example
                                    val(RVal::Str(s.clone()))
                                } else if n == chars.len() {
                                    // the last N characters: everything; the rest after N: nothing
                                    OneOf(vec![Some(RVal::Str(s.clone())), Some(RVal::Str(String::new()))])
                                } else if last_k == drop_k {
                                    val(RVal::Str(last_k))
                                } else {
                                    OneOf(vec![Some(RVal::Str(last_k)), Some(RVal::Str(drop_k))])
                                }
                            }
                        }
                    }
                    _ => nothing(),
                }
            }
            "sub" => {
                let c = get!(0);
                let s = get!(1);
                let l = get!(2);
                let (s, l) = match (as_index_of(&s, true), as_index(&l)) {
                    (Ok(Some(s)), Ok(Some(l))) => (s, l),
                    (Err(()), _) | (_, Err(())) => return U,
                    _ => return nothing(),
                };
                match c {
                    Some(RVal::Arr(a)) => val(RVal::Arr(a.into_iter().skip(s).take(l).collect())),
                    Some(RVal::Obj(o)) => val(RVal::Obj(o.into_iter().skip(s).take(l).collect())),
                    Some(RVal::Str(t)) => {
                        let by_chars: String = t.chars().skip(s).take(l).collect();
                        if !is_ascii_str(&t) {
                            // counted in characters or in bytes (nothing only where a byte
                            // position lies inside a character), nothing else
                            let (b0, b1) = (s.min(t.len()), s.saturating_add(l).min(t.len()));
                            let by_bytes = if t.is_char_boundary(b0) && t.is_char_boundary(b1) { Some(RVal::Str(t[b0..b1].to_string())) } else { None };
                            return match by_bytes {
                                Some(RVal::Str(b)) if b == by_chars => val(RVal::Str(by_chars)),
                                other => OneOf(vec![Some(RVal::Str(by_chars)), other]),
                            };
                        }
                        val(RVal::Str(by_chars))
                    }
                    _ => nothing(),
                }
            }
            // ------------------------------------------------ flow
            "?" => match get!(0) {
                Some(RVal::Bool(true)) => self.arg(args, 1, cx),
                Some(RVal::Bool(false)) => self.arg(args, 2, cx),
                _ => nothing(),
            },
            "default" => {
                // alternatives collected so far (an argument that may be nothing lets the next one speak)
                let mut acc: Vec<Option<RVal>> = Vec::new();
                let fin = |acc: Vec<Option<RVal>>| if acc.len() == 1 { Val(acc[0].clone()) } else { OneOf(acc) };
                for i in 0..args.len() {
                    match self.arg(args, i, cx) {
                        Val(None) => continue,
                        Val(Some(v)) => {
                            acc.push(Some(v));
                            return fin(acc);
                        }
                        OneOf(alts) => {
                            let may_be_nothing = alts.iter().any(|a| a.is_none());
                            acc.extend(alts.into_iter().filter(|a| a.is_some()));
                            if !may_be_nothing {
                                return fin(acc);
                            }
                        }
                        other @ (Json(_) | Dec(..)) => {
                            return if acc.is_empty() { other } else { U };
                        }
                        U => return U,
                    }
                }
                acc.push(None);
                fin(acc)
            }
            "|" => {
                // stage 1 sees the pipe's input as `.`; its `^` is not documented
                let mut c = cx.clone();
                let outer: Vec<Option<RVal>> = cx.chain.clone();
                c.chain = vec![outer[0].clone(), None];
                let mut stack: Vec<Option<RVal>> = vec![outer[0].clone()];
                let mut cur = nothing();
                for (i, st) in args.iter().enumerate() {
                    if i > 0 {
                        // `.` = previous value, `^` = previous input, ... , the pipe's input; beyond: unspecified
                        let mut ch = stack.clone();
                        ch.reverse();
                        ch.push(None);
                        c.chain = ch;
                    }
                    cur = self.eval(st, &c);
                    match &cur {
                        Val(Some(v)) => stack.push(Some(v.clone())),
                        Val(None) => return nothing(),
                        _ => return U,
                    }
                }
                cur
            }
            // ------------------------------------------------ compare
            "=" | "!=" => {
                let (a, b) = (get!(0), get!(1));
                match (a, b) {
                    (Some(a), Some(b)) => match eq3(&a, &b) {
                        Some(r) => boolean(if f == "=" { r } else { !r }),
                        None => U,
                    },
                    _ => nothing(),
                }
            }
            "<" | "<=" | ">" | ">=" => {
                let (a, b) = (get!(0), get!(1));
                match (a, b) {
                    (Some(a), Some(b)) => match cmp3(&a, &b) {
                        Some(o) => boolean(match f {
                            "<" => o.is_lt(),
                            "<=" => o.is_le(),
                            ">" => o.is_gt(),
                            _ => o.is_ge(),
                        }),
                        None => U,
                    },
                    _ => nothing(),
                }
            }
            // ------------------------------------------------ logical
            "and" | "or" => {
                let deciding = f == "or"; // or: a true decides; and: a false decides
                let mut vals = Vec::new();
                for i in 0..args.len() {
                    match self.arg(args, i, cx) {
                        Val(v) => vals.push(v),
                        _ => return U,
                    }
                }
                let non_bool = vals.iter().any(|v| !matches!(v, Some(RVal::Bool(_))));
                let decided = vals.iter().any(|v| matches!(v, Some(RVal::Bool(b)) if *b == deciding));
                match (non_bool, decided) {
                    (false, d) => boolean(if deciding { d } else { !d }),
                    (true, false) => nothing(),
                    (true, true) => OneOf(vec![None, Some(RVal::Bool(deciding))]),
                }
            }
            "xor" => match (get!(0), get!(1)) {
                (Some(RVal::Bool(a)), Some(RVal::Bool(b))) => boolean(a != b),
                _ => nothing(),
            },
            "not" => match get!(0) {
                Some(RVal::Bool(a)) => boolean(!a),
                _ => nothing(),
            },
            // ------------------------------------------------ list / functional
            "filter" | "map" | "flat_map" | "group_by" | "sort_by" | "\"sort_by\"" => {
                let Some(RVal::Arr(list)) = get!(0) else { return nothing() };
                let Some(body) = args.get(1) else { return nothing() };
                let mut results: Vec<Option<RVal>> = Vec::new();
                for x in &list {
                    match self.lam(body, x.clone(), cx) {
                        Val(v) => results.push(v),
                        Dec(..) | Json(_) | OneOf(_) | U => return U,
                    }
                }
                match f {
                    "filter" => val(RVal::Arr(list.into_iter().zip(results).filter(|(_, r)| matches!(r, Some(RVal::Bool(true)))).map(|x| x.0).collect())),
                    "map" => val(RVal::Arr(results.into_iter().flatten().collect())),
                    "flat_map" => val(RVal::Arr(results.into_iter().flat_map(|r| if let Some(RVal::Arr(a)) = r { a } else { vec![] }).collect())),
                    "group_by" => {
                        let mut keys: Vec<String> = Vec::new();
                        let mut groups: Vec<Vec<RVal>> = Vec::new();
                        for (x, r) in list.into_iter().zip(results) {
                            let Some(RVal::Str(k)) = r else { return nothing() };
                            match keys.iter().position(|y| *y == k) {
                                Some(p) => groups[p].push(x),
                                None => {
                                    keys.push(k);
                                    groups.push(vec![x]);
                                }
                            }
                        }
                        val(RVal::Obj(keys.into_iter().zip(groups.into_iter().map(RVal::Arr)).collect()))
                    }
                    "sort_by" => {
                        // stable, nothing keys first
                        let mut idx: Vec<usize> = (0..list.len()).collect();
                        let mut unknown = !all_comparable(&results.iter().flatten().collect::<Vec<_>>());
                        if unknown {
                            return U;
                        }
                        idx.sort_by(|a, b| match (&results[*a], &results[*b]) {
                            (None, None) => Ordering::Equal,
                            (None, Some(_)) => Ordering::Less,
                            (Some(_), None) => Ordering::Greater,
                            (Some(x), Some(y)) => cmp3(x, y).unwrap_or_else(|| {
                                unknown = true;
                                Ordering::Equal
                            }),
                        });
                        if unknown {
                            return U;
                        }
                        val(RVal::Arr(idx.into_iter().map(|i| list[i].clone()).collect()))
                    }
                    _ => {
                        // number-as-string sort: nothing / non-decimal keys first
                        let mut keys: Vec<Option<(BigInt, i64)>> = Vec::new();
                        for r in &results {
                            match r {
                                Some(RVal::Str(s)) => match parse_nas(s) {
                                    Ok(k) => keys.push(k),
                                    Err(()) => return U,
                                },
                                _ => keys.push(None),
                            }
                        }
                        let mut idx: Vec<usize> = (0..list.len()).collect();
                        idx.sort_by(|a, b| match (&keys[*a], &keys[*b]) {
                            (None, None) => Ordering::Equal,
                            (None, Some(_)) => Ordering::Less,
                            (Some(_), None) => Ordering::Greater,
                            (Some(x), Some(y)) => d_cmp(x, y),
                        });
                        val(RVal::Arr(idx.into_iter().map(|i| list[i].clone()).collect()))
                    }
                }
            }
            "fold" => {
                let Some(RVal::Arr(list)) = get!(0) else { return nothing() };
                let (mut cur, body) = if args.len() > 2 { (get!(1), &args[2]) } else { (None, &args[1]) };
                for (i, x) in list.into_iter().enumerate() {
                    let mut o = Vec::new();
                    if let Some(c) = &cur {
                        o.push(("so_far".to_string(), c.clone()));
                    }
                    o.push(("value".to_string(), x));
                    o.push(("index".to_string(), RVal::Int(i as i128)));
                    match self.lam(body, RVal::Obj(o), cx) {
                        Val(v) => cur = v,
                        _ => return U,
                    }
                }
                Val(cur)
            }
            // ------------------------------------------------ list folding
            "all" | "any" => match get!(0) {
                Some(RVal::Arr(a)) => {
                    if f == "all" {
                        boolean(!a.is_empty() && a.iter().all(|x| matches!(x, RVal::Bool(true))))
                    } else {
                        boolean(a.iter().any(|x| matches!(x, RVal::Bool(true))))
                    }
                }
                _ => nothing(),
            },
            "first" => match get!(0) {
                Some(RVal::Arr(a)) => Val(a.first().cloned()),
                _ => nothing(),
            },
            "last" => match get!(0) {
                Some(RVal::Arr(a)) => Val(a.last().cloned()),
                _ => nothing(),
            },
            "join" => {
                let Some(RVal::Arr(a)) = get!(0) else { return nothing() };
                let sep = if args.len() > 1 {
                    match get!(1) {
                        Some(RVal::Str(s)) => s,
                        _ => return U,
                    }
                } else {
                    ", ".to_string()
                };
                let mut parts = Vec::new();
                for x in a {
                    match x {
                        RVal::Str(s) => parts.push(s),
                        _ => return nothing(),
                    }
                }
                val(RVal::Str(parts.join(&sep)))
            }
            "sum" => {
                let Some(RVal::Arr(a)) = get!(0) else { return nothing() };
                let mut s = 0.0;
                for x in &a {
                    if !x.is_num() {
                        return nothing();
                    }
                    match as_f64_exact(x) {
                        Ok(v) => s += v,
                        Err(()) => return big_arith("sum", &a),
                    }
                }
                num_result(s)
            }
            // ------------------------------------------------ list manipulation
            "indexed" => match get!(0) {
                Some(RVal::Arr(a)) => val(RVal::Arr(a.into_iter().enumerate().map(|(i, x)| RVal::Obj(vec![("value".into(), x), ("index".into(), RVal::Int(i as i128))])).collect())),
                _ => nothing(),
            },
            "pop" => match get!(0) {
                Some(RVal::Arr(mut a)) => {
                    a.pop();
                    val(RVal::Arr(a))
                }
                _ => nothing(),
            },
            "pop_first" => match get!(0) {
                Some(RVal::Arr(mut a)) => {
                    if !a.is_empty() {
                        a.remove(0);
                    }
                    val(RVal::Arr(a))
                }
                _ => nothing(),
            },
            "push" | "push_front" => {
                let Some(RVal::Arr(mut a)) = get!(0) else { return nothing() };
                for i in 1..args.len() {
                    if let Some(v) = get!(i) {
                        if f == "push" {
                            a.push(v)
                        } else {
                            a.insert(0, v)
                        }
                    }
                }
                val(RVal::Arr(a))
            }
            "reverese" => match get!(0) {
                Some(RVal::Arr(mut a)) => {
                    a.reverse();
                    val(RVal::Arr(a))
                }
                _ => nothing(),
            },
            "sort" | "sort_unique" => {
                let Some(RVal::Arr(mut a)) = get!(0) else { return nothing() };
                let mut unknown = !all_comparable(&a.iter().collect::<Vec<_>>());
                if unknown {
                    return U;
                }
                a.sort_by(|x, y| {
                    cmp3(x, y).unwrap_or_else(|| {
                        unknown = true;
                        Ordering::Equal
                    })
                });
                if unknown {
                    return U;
                }
                if f == "sort_unique" {
                    a.dedup_by(|x, y| cmp3(x, y) == Some(Ordering::Equal));
                }
                // equal elements with different spellings (1 vs 1.0): which one survives / comes
                // first is not observable after printing only if they print alike; keep exact
                val(RVal::Arr(a))
            }
            "cross" | "zip" => {
                let mut lists: Vec<Vec<RVal>> = Vec::new();
                for i in 0..args.len() {
                    match get!(i) {
                        Some(RVal::Arr(a)) => lists.push(a),
                        _ => return nothing(),
                    }
                }
                if f == "zip" {
                    let n = lists.iter().map(|l| l.len()).max().unwrap_or(0);
                    val(RVal::Arr((0..n).map(|i| RVal::Obj(lists.iter().enumerate().filter_map(|(k, l)| l.get(i).map(|x| (format!(".{}", k), x.clone()))).collect())).collect()))
                } else {
                    let total: usize = lists.iter().map(|l| l.len()).product();
                    if total > 200_000 {
                        return U;
                    }
                    let mut out = Vec::new();
                    for mut i in 0..total {
                        let mut o = Vec::new();
                        for (k, l) in lists.iter().enumerate() {
                            o.push((format!(".{}", k), l[i % l.len()].clone()));
                            i /= l.len();
                        }
                        out.push(RVal::Obj(o));
                    }
                    val(RVal::Arr(out))
                }
            }
            "range" => match as_index(&get!(0)) {
                Ok(Some(0)) => U, // "not a positive integer -> nothing" vs the empty list
                Ok(Some(n)) => val(RVal::Arr((0..n as i128).map(RVal::Int).collect())),
                Ok(None) => nothing(),
                Err(()) => U,
            },
            // ------------------------------------------------ numbers
            "abs" | "round" | "ceil" | "floor" => match get!(0) {
                Some(v) if v.is_num() => match as_f64_exact(&v) {
                    Ok(x) => {
                        if x.abs() >= TWO53 {
                            return big_arith(f, &[v]);
                        }
                        num_result(match f {
                            "abs" => x.abs(),
                            "round" => x.round(),
                            "ceil" => x.ceil(),
                            _ => x.floor(),
                        })
                    }
                    Err(()) => big_arith(f, &[v]),
                },
                _ => nothing(),
            },
            "+" | "*" => {
                let mut acc = if f == "+" { 0.0 } else { 1.0 };
                let mut nums = Vec::new();
                for i in 0..args.len() {
                    match get!(i) {
                        Some(v) if v.is_num() => nums.push(v),
                        _ => return nothing(),
                    }
                }
                for v in &nums {
                    match as_f64_exact(v) {
                        Ok(x) => {
                            if f == "+" {
                                acc += x
                            } else {
                                acc *= x
                            }
                        }
                        Err(()) => return big_arith(f, &nums),
                    }
                }
                num_result(acc)
            }
            "-" => {
                let a = get!(0);
                if args.len() == 1 {
                    return match a {
                        Some(v) if v.is_num() => match as_f64_exact(&v) {
                            Ok(x) => num_result(-x),
                            Err(()) => big_arith("neg", &[v]),
                        },
                        _ => nothing(),
                    };
                }
                let b = get!(1);
                match (a, b) {
                    (Some(a), Some(b)) if a.is_num() && b.is_num() => match (as_f64_exact(&a), as_f64_exact(&b)) {
                        (Ok(x), Ok(y)) => num_result(x - y),
                        _ => big_arith("-", &[a, b]),
                    },
                    _ => nothing(),
                }
            }
            "/" | "%" => match (get!(0), get!(1)) {
                (Some(a), Some(b)) if a.is_num() && b.is_num() => match (as_f64_exact(&a), as_f64_exact(&b)) {
                    (Ok(x), Ok(y)) => {
                        if y == 0.0 {
                            nothing()
                        } else {
                            num_result(if f == "/" { x / y } else { x % y })
                        }
                    }
                    _ => big_arith(f, &[a, b]),
                },
                _ => nothing(),
            },
            // ------------------------------------------------ number as string
            "\"abs\"" | "\"||\"" | "\"round\"" | "\"+\"" | "\"-\"" | "\"*\"" | "\"/\"" | "\"%\"" | "\"=\"" | "\"!=\"" | "\"<\"" | "\"<=\"" | "\">\"" | "\">=\"" => {
                let mut ds: Vec<(BigInt, i64)> = Vec::new();
                let mut bad = false;
                for i in 0..args.len() {
                    match self.arg(args, i, cx) {
                        Dec(m, e) => ds.push((m, e)),
                        Val(Some(RVal::Str(s))) => match parse_nas(&s) {
                            Ok(Some(d)) => ds.push(d),
                            Ok(None) => bad = true,
                            Err(()) => return U,
                        },
                        Val(_) => bad = true,
                        _ => return U,
                    }
                }
                if bad {
                    return nothing();
                }
                let neg = |a: &(BigInt, i64)| (-&a.0, a.1);
                match f {
                    "\"abs\"" => Dec(ds[0].0.abs(), ds[0].1),
                    "\"||\"" => Dec(ds[0].0.clone(), ds[0].1),
                    "\"+\"" => {
                        let r = ds.iter().skip(1).fold(ds[0].clone(), |a, b| d_add(&a, b));
                        Dec(r.0, r.1)
                    }
                    "\"*\"" => {
                        let r = ds.iter().skip(1).fold(ds[0].clone(), |a, b| (&a.0 * &b.0, a.1 + b.1));
                        Dec(r.0, r.1)
                    }
                    "\"-\"" => {
                        if ds.len() == 1 {
                            let r = neg(&ds[0]);
                            Dec(r.0, r.1)
                        } else {
                            let r = d_add(&ds[0], &neg(&ds[1]));
                            Dec(r.0, r.1)
                        }
                    }
                    "\"round\"" => {
                        // nearest integer; exact .5 ties unspecified
                        let (m, e) = &ds[0];
                        if *e >= 0 {
                            return Dec(m.clone(), *e);
                        }
                        let p = pow10((-*e) as u64);
                        let q = m / &p; // truncates toward zero
                        let r: BigInt = (m - &q * &p).abs() * BigInt::from(2);
                        match r.cmp(&p) {
                            Ordering::Equal => U,
                            Ordering::Less => Dec(q, 0),
                            Ordering::Greater => Dec(if m.is_negative() { q - 1 } else { q + 1 }, 0),
                        }
                    }
                    "\"/\"" | "\"%\"" => {
                        if ds[1].0.is_zero() {
                            return nothing();
                        }
                        if f == "\"%\"" {
                            // a - b * trunc(a / b)
                            let (x, y, e) = d_align(&ds[0], &ds[1]);
                            let q = &x / &y;
                            Dec(x - q * y, e)
                        } else {
                            // exact when the quotient terminates and has at most 90 significant digits
                            // (the documentation promises no precision; the examples are exact)
                            let (x, y, _) = d_align(&ds[0], &ds[1]);
                            for k in 0..60u64 {
                                let num = &x * pow10(k);
                                if (&num % &y).is_zero() {
                                    let q = num / &y;
                                    if q.abs().to_string().trim_end_matches('0').len() > 90 {
                                        return U;
                                    }
                                    return Dec(q, -(k as i64));
                                }
                            }
                            U
                        }
                    }
                    _ => {
                        let o = d_cmp(&ds[0], &ds[1]);
                        boolean(match f {
                            "\"=\"" => o.is_eq(),
                            "\"!=\"" => o.is_ne(),
                            "\"<\"" => o.is_lt(),
                            "\"<=\"" => o.is_le(),
                            "\">\"" => o.is_gt(),
                            _ => o.is_ge(),
                        })
                    }
                }
            }
            // ------------------------------------------------ objects
            "filter_keys" | "filter_values" | "map_keys" | "map_values" | "sort_by_values_by" => {
                let Some(RVal::Obj(o)) = get!(0) else { return nothing() };
                let Some(body) = args.get(1) else { return nothing() };
                let mut rs = Vec::new();
                for (k, v) in &o {
                    let dot = if f.ends_with("_keys") { RVal::Str(k.clone()) } else { v.clone() };
                    match self.lam(body, dot, cx) {
                        Val(r) => rs.push(r),
                        _ => return U,
                    }
                }
                match f {
                    "filter_keys" | "filter_values" => val(RVal::Obj(o.into_iter().zip(rs).filter(|(_, r)| matches!(r, Some(RVal::Bool(true)))).map(|x| x.0).collect())),
                    "map_values" => val(RVal::Obj(o.into_iter().zip(rs).filter_map(|((k, _), r)| r.map(|r| (k, r))).collect())),
                    "map_keys" => {
                        let mut out: Vec<(String, RVal)> = Vec::new();
                        for ((_, v), r) in o.into_iter().zip(rs) {
                            if let Some(RVal::Str(nk)) = r {
                                if out.iter().any(|m| m.0 == nk) {
                                    return U;
                                }
                                out.push((nk, v));
                            }
                        }
                        val(RVal::Obj(out))
                    }
                    _ => {
                        let mut idx: Vec<usize> = (0..o.len()).collect();
                        let mut unknown = !all_comparable(&rs.iter().flatten().collect::<Vec<_>>());
                        if unknown {
                            return U;
                        }
                        idx.sort_by(|a, b| match (&rs[*a], &rs[*b]) {
                            (None, None) => Ordering::Equal,
                            (None, Some(_)) => Ordering::Less,
                            (Some(_), None) => Ordering::Greater,
                            (Some(x), Some(y)) => cmp3(x, y).unwrap_or_else(|| {
                                unknown = true;
                                Ordering::Equal
                            }),
                        });
                        if unknown {
                            return U;
                        }
                        val(RVal::Obj(idx.into_iter().map(|i| o[i].clone()).collect()))
                    }
                }
            }
            "put" | "insert_if_absent" | "replace_if_exists" => {
                let (o, k, v) = (get!(0), get!(1), get!(2));
                match (o, k, v) {
                    (Some(RVal::Obj(mut o)), Some(RVal::Str(k)), Some(v)) => {
                        let pos = o.iter().position(|m| m.0 == k);
                        match (f, pos) {
                            ("put", Some(p)) | ("replace_if_exists", Some(p)) => o[p].1 = v,
                            ("put", None) | ("insert_if_absent", None) => o.push((k, v)),
                            _ => {}
                        }
                        val(RVal::Obj(o))
                    }
                    _ => nothing(),
                }
            }
            "entries" => match get!(0) {
                Some(RVal::Obj(o)) => val(RVal::Arr(o.into_iter().map(|(k, v)| RVal::Obj(vec![("key".into(), RVal::Str(k)), ("value".into(), v)])).collect())),
                _ => nothing(),
            },
            "keys" => match get!(0) {
                Some(RVal::Obj(o)) => val(RVal::Arr(o.into_iter().map(|m| RVal::Str(m.0)).collect())),
                _ => nothing(),
            },
            "values" => match get!(0) {
                Some(RVal::Obj(o)) => val(RVal::Arr(o.into_iter().map(|m| m.1).collect())),
                _ => nothing(),
            },
            "sort_by_keys" => match get!(0) {
                Some(RVal::Obj(mut o)) => {
                    o.sort_by(|a, b| a.0.as_bytes().cmp(b.0.as_bytes()));
                    val(RVal::Obj(o))
                }
                _ => nothing(),
            },
            "sort_by_values" => match get!(0) {
                Some(RVal::Obj(mut o)) => {
                    let mut unknown = !all_comparable(&o.iter().map(|m| &m.1).collect::<Vec<_>>());
                    if unknown {
                        return U;
                    }
                    o.sort_by(|a, b| {
                        cmp3(&a.1, &b.1).unwrap_or_else(|| {
                            unknown = true;
                            Ordering::Equal
                        })
                    });
                    if unknown {
                        U
                    } else {
                        val(RVal::Obj(o))
                    }
                }
                _ => nothing(),
            },
            // ------------------------------------------------ strings
            "base63_decode" => match get!(0) {
                Some(RVal::Str(s)) => match b64_decode(&s) {
                    Ok(Some(b)) => match String::from_utf8(b) {
                        Ok(t) => val(RVal::Str(t)),
                        Err(_) => nothing(),
                    },
                    Ok(None) => nothing(),
                    Err(()) => U,
                },
                _ => nothing(),
            },
            "concat" => {
                let mut s = String::new();
                let mut bad = false;
                for i in 0..args.len() {
                    match get!(i) {
                        Some(RVal::Str(t)) => s.push_str(&t),
                        _ => bad = true,
                    }
                }
                if bad {
                    nothing()
                } else {
                    val(RVal::Str(s))
                }
            }
            "env" => match get!(0) {
                Some(RVal::Str(n)) => {
                    if n.is_empty() || n.contains('=') || n.contains('\0') {
                        return U;
                    }
                    Val(std::env::var(&n).ok().map(RVal::Str))
                }
                _ => nothing(),
            },
            "split" => match (get!(0), get!(1)) {
                (Some(RVal::Str(s)), Some(RVal::Str(sep))) => {
                    if sep.is_empty() {
                        U
                    } else {
                        val(RVal::Arr(s.split(sep.as_str()).map(|p| RVal::Str(p.to_string())).collect()))
                    }
                }
                _ => nothing(),
            },
            "parse" => match self.arg(args, 0, cx) {
                Json(v) => val(v),
                Val(Some(RVal::Str(s))) => match parse_one(s.as_bytes()) {
                    Ok(v) => val(v),
                    Err(_) => {
                        // not a JSON text: no JSON value, i.e. nothing - except for digit strings
                        // that only a lenient number reader accepts (leading zeros, a trailing
                        // dot, an empty exponent: "007", "1.", "1e"), which are left open
                        let t = s.trim_matches(|c| c == ' ' || c == '\t' || c == '\n' || c == '\r');
                        let b = t.strip_prefix('-').unwrap_or(t).as_bytes();
                        let numberish = !b.is_empty() && b[0].is_ascii_digit() && b.iter().all(|c| c.is_ascii_digit() || matches!(c, b'.' | b'e' | b'E' | b'+' | b'-'));
                        if numberish {
                            U
                        } else {
                            nothing()
                        }
                    }
                },
                Val(_) => nothing(),
                _ => U,
            },
            "parse_selection" => match get!(0) {
                Some(RVal::Str(s)) => match known_expr_text(&s) {
                    Ok(Some(e)) => self.eval(&e, cx),
                    Ok(None) => nothing(),
                    Err(()) => U,
                },
                _ => nothing(),
            },
            "stringify" => match get!(0) {
                Some(v) => Json(v),
                None => nothing(),
            },
            "match" | "extract_regex_group" => {
                let (s, p) = (get!(0), get!(1));
                let g = if f == "match" { None } else { Some(get!(2)) };
                match (s, p) {
                    (Some(RVal::Str(s)), Some(RVal::Str(p))) => {
                        let Ok(re) = regex::Regex::new(&p) else { return nothing() };
                        match g {
                            None => boolean(re.is_match(&s)),
                            Some(g) => match as_index(&g) {
                                Ok(Some(i)) => Val(re.captures(&s).and_then(|c| c.get(i)).map(|m| RVal::Str(m.as_str().to_string()))),
                                Ok(None) => nothing(),
                                Err(()) => U,
                            },
                        }
                    }
                    _ => nothing(),
                }
            }
            // ------------------------------------------------ time
            "format_time" => match (get!(0), get!(1)) {
                (Some(t), Some(RVal::Str(fmt))) if t.is_num() => {
                    // a non-negative number with a fraction: the whole seconds count (no format of the
                    // pool prints the fraction); negative fractions are left open (floor or truncation)
                    let secs: i128 = match &t {
                        RVal::Int(s) => *s,
                        RVal::Float(f) if *f >= 0.0 && *f < 2.5e11 => f.floor() as i128,
                        _ => return U,
                    };
                    // %+ prints the fraction when there is one
                    let fractional = matches!(&t, RVal::Float(f) if f.fract() != 0.0);
                    // years 0001..9999 (seconds count from 1970-01-01T00:00:00Z, negative before)
                    if !(-62_135_596_800..=253_402_300_799).contains(&secs) {
                        return U;
                    }
                    let (days, rem) = (secs.div_euclid(86400) as i64, secs.rem_euclid(86400) as i64);
                    let (y, m, d) = civil_from_days(days);
                    let mut out = String::new();
                    let mut it = fmt.chars();
                    while let Some(c) = it.next() {
                        if c != '%' {
                            out.push(c);
                            continue;
                        }
                        match it.next() {
                            Some('Y') => out.push_str(&format!("{:04}", y)),
                            Some('m') => out.push_str(&format!("{:02}", m)),
                            Some('d') => out.push_str(&format!("{:02}", d)),
                            Some('H') => out.push_str(&format!("{:02}", rem / 3600)),
                            Some('M') => out.push_str(&format!("{:02}", rem % 3600 / 60)),
                            Some('S') => out.push_str(&format!("{:02}", rem % 60)),
                            Some('%') => out.push('%'),
                            // the instant is in UTC (chrono's strftime documentation)
                            Some('z') => out.push_str("+0000"),
                            Some('Z') => out.push_str("UTC"),
                            Some(':') => match it.next() {
                                Some('z') => out.push_str("+00:00"),
                                _ => return U,
                            },
                            Some('+') if fractional => return U,
                            Some('+') => out.push_str(&format!("{:04}-{:02}-{:02}T{:02}:{:02}:{:02}+00:00", y, m, d, rem / 3600, rem % 3600 / 60, rem % 60)),
                            Some('s') => out.push_str(&secs.to_string()),
                            Some('T') => out.push_str(&format!("{:02}:{:02}:{:02}", rem / 3600, rem % 3600 / 60, rem % 60)),
                            Some('R') => out.push_str(&format!("{:02}:{:02}", rem / 3600, rem % 3600 / 60)),
                            Some('F') => out.push_str(&format!("{:04}-{:02}-{:02}", y, m, d)),
                            Some('D') => out.push_str(&format!("{:02}/{:02}/{:02}", m, d, y % 100)),
                            Some('y') => out.push_str(&format!("{:02}", y % 100)),
                            Some('e') => out.push_str(&format!("{:2}", d)),
                            Some('n') => out.push('\n'),
                            Some('t') => out.push('\t'),
                            _ => return U,
                        }
                    }
                    val(RVal::Str(out))
                }
                (Some(t), Some(RVal::Str(_))) if !t.is_num() => nothing(),
                (None, _) | (_, None) => nothing(),
                (_, Some(_)) => nothing(),
            },
            "parse_time" | "parse_time_with_zone" => match (get!(0), get!(1)) {
                (Some(RVal::Str(t)), Some(RVal::Str(fmt))) => {
                    // two fully numeric layouts are decided (the documented examples are of this
                    // kind: a complete date and time, seconds since the epoch as the result);
                    // everything else about strptime is left to the chrono documentation
                    let b = t.as_bytes();
                    let digits = |r: std::ops::Range<usize>| -> Option<i64> {
                        let x = b.get(r)?;
                        if x.iter().all(|c| c.is_ascii_digit()) {
                            std::str::from_utf8(x).ok()?.parse().ok()
                        } else {
                            None
                        }
                    };
                    let days_from_civil = |y: i64, m: i64, d: i64| -> i64 {
                        let y = if m <= 2 { y - 1 } else { y };
                        let era = if y >= 0 { y } else { y - 399 } / 400;
                        let yoe = y - era * 400;
                        let doy = (153 * (if m > 2 { m - 3 } else { m + 9 }) + 2) / 5 + d - 1;
                        let doe = yoe * 365 + yoe / 4 - yoe / 100 + doy;
                        era * 146097 + doe - 719468
                    };
                    let valid = |y: i64, m: i64, d: i64, hh: i64, mm: i64, ss: i64| -> bool {
                        let leap = (y % 4 == 0 && y % 100 != 0) || y % 400 == 0;
                        let dim = [31, if leap { 29 } else { 28 }, 31, 30, 31, 30, 31, 31, 30, 31, 30, 31];
                        (1000..=9999).contains(&y) && (1..=12).contains(&m) && d >= 1 && d <= dim[(m - 1) as usize] && hh <= 23 && mm <= 59 && ss <= 59
                    };
                    // the same with a fraction of up to six digits (`%.f`): microseconds are kept
                    if f == "parse_time" && fmt == "%Y-%m-%dT%H:%M:%S%.f" && b.len() > 20 && b.len() <= 26 && b[19] == b'.' && b[4] == b'-' && b[7] == b'-' && b[10] == b'T' && b[13] == b':' && b[16] == b':' {
                        if let (Some(y), Some(m), Some(d), Some(hh), Some(mm), Some(ss), Some(fr)) = (digits(0..4), digits(5..7), digits(8..10), digits(11..13), digits(14..16), digits(17..19), digits(20..b.len())) {
                            if valid(y, m, d, hh, mm, ss) {
                                let micros = fr * 10i64.pow((6 - (b.len() - 20)) as u32);
                                let total = (days_from_civil(y, m, d) * 86400 + hh * 3600 + mm * 60 + ss) * 1_000_000 + micros;
                                return num_result(total as f64 / 1e6);
                            }
                            return U;
                        }
                    }
                    if f == "parse_time" && fmt == "%Y-%m-%dT%H:%M:%S" && b.len() == 19 && b[4] == b'-' && b[7] == b'-' && b[10] == b'T' && b[13] == b':' && b[16] == b':' {
                        if let (Some(y), Some(m), Some(d), Some(hh), Some(mm), Some(ss)) = (digits(0..4), digits(5..7), digits(8..10), digits(11..13), digits(14..16), digits(17..19)) {
                            if valid(y, m, d, hh, mm, ss) {
                                return val(RVal::Int((days_from_civil(y, m, d) * 86400 + hh * 3600 + mm * 60 + ss) as i128));
                            }
                            return U;
                        }
                    }
                    if f == "parse_time_with_zone" && fmt == "%Y-%m-%d %H:%M:%S %z" && b.len() == 25 && b[4] == b'-' && b[7] == b'-' && b[10] == b' ' && b[13] == b':' && b[16] == b':' && b[19] == b' ' && (b[20] == b'+' || b[20] == b'-') {
                        if let (Some(y), Some(m), Some(d), Some(hh), Some(mm), Some(ss), Some(zh), Some(zm)) = (digits(0..4), digits(5..7), digits(8..10), digits(11..13), digits(14..16), digits(17..19), digits(21..23), digits(23..25)) {
                            if valid(y, m, d, hh, mm, ss) && zh <= 14 && zm <= 59 {
                                let off = (zh * 3600 + zm * 60) * if b[20] == b'-' { -1 } else { 1 };
                                return val(RVal::Int((days_from_civil(y, m, d) * 86400 + hh * 3600 + mm * 60 + ss - off) as i128));
                            }
                            return U;
                        }
                    }
                    U
                }
                _ => nothing(),
            },
            // ------------------------------------------------ types
            "as_array" | "as_boolean" | "as_number" | "as_object" | "as_string" => {
                let v = get!(0);
                let ok = match (&v, f) {
                    (Some(RVal::Arr(_)), "as_array") | (Some(RVal::Bool(_)), "as_boolean") | (Some(RVal::Obj(_)), "as_object") | (Some(RVal::Str(_)), "as_string") => true,
                    (Some(n), "as_number") => n.is_num(),
                    _ => false,
                };
                if ok {
                    Val(v)
                } else {
                    nothing()
                }
            }
            "array?" | "bool?" | "null?" | "number?" | "object?" | "string?" | "empty?" => {
                // these observe only the type: a stringify / nas result is a string
                let v = match self.arg(args, 0, cx) {
                    Val(v) => v,
                    Json(_) | Dec(..) => Some(RVal::Str(String::new())),
                    OneOf(alts) => {
                        let kinds: std::collections::HashSet<u8> = alts.iter().map(|a| a.as_ref().map(|x| x.type_rank() + 1).unwrap_or(0)).collect();
                        if kinds.len() == 1 {
                            alts[0].clone()
                        } else {
                            return U;
                        }
                    }
                    U => return U,
                };
                boolean(match (f, &v) {
                    ("empty?", v) => v.is_none(),
                    ("array?", Some(RVal::Arr(_))) | ("bool?", Some(RVal::Bool(_))) | ("null?", Some(RVal::Null)) | ("object?", Some(RVal::Obj(_))) | ("string?", Some(RVal::Str(_))) => true,
                    ("number?", Some(n)) => n.is_num(),
                    _ => false,
                })
            }
            // ------------------------------------------------ variables
            "set" => match (get!(0), get!(1)) {
                (Some(RVal::Str(n)), Some(v)) => {
                    let mut c = cx.clone();
                    c.vars.push((n, v));
                    self.arg(args, 2, &c)
                }
                _ => nothing(),
            },
            "define" => match get!(0) {
                Some(RVal::Str(n)) => {
                    let mut c = cx.clone();
                    c.macros.push((n, args[1].clone()));
                    self.arg(args, 2, &c)
                }
                _ => nothing(),
            },
            ":" => match get!(0) {
                Some(RVal::Str(n)) => self.eval(&Expr::Var(n), cx),
                _ => nothing(),
            },
            "@" => match get!(0) {
                Some(RVal::Str(n)) => self.eval(&Expr::Mac(n), cx),
                _ => nothing(),
            },
            _ => U,
        }
    }
}

// ---------------------------------------------------------------- comparison with what jawk printed

fn close(a: f64, b: f64) -> bool {
    // the reference performs the documented operations in the documented (left to right) order
    // in double precision; a few units in the last place are allowed for printing and reading
    a == b || (a - b).abs() <= 1e-15 * a.abs().max(b.abs())
}

/// value equality with the tolerance the documentation leaves (floating point results) and,
/// when `unordered`, without regard to the member order of objects
pub fn value_matches(exp: &RVal, got: &RVal, unordered: bool) -> bool {
    match (exp, got) {
        (RVal::Null, RVal::Null) => true,
        (RVal::Bool(a), RVal::Bool(b)) => a == b,
        (RVal::Str(a), RVal::Str(b)) => a == b,
        (RVal::Int(a), RVal::Int(b)) => a == b,
        (a, b) if a.is_num() && b.is_num() => close(a.as_f64().unwrap(), b.as_f64().unwrap()),
        (RVal::Arr(a), RVal::Arr(b)) => a.len() == b.len() && a.iter().zip(b).all(|(x, y)| value_matches(x, y, unordered)),
        (RVal::Obj(a), RVal::Obj(b)) => {
            if a.len() != b.len() {
                return false;
            }
            if a.iter().zip(b).all(|(x, y)| x.0 == y.0 && value_matches(&x.1, &y.1, unordered)) {
                return true;
            }
            unordered && a.iter().all(|(k, v)| b.iter().find(|m| &m.0 == k).map(|m| value_matches(v, &m.1, unordered)).unwrap_or(false))
        }
        _ => false,
    }
}

pub enum Verdict {
    /// matches; the flag says whether the unordered comparison was needed
    Ok(bool),
    Unspecified,
    Mismatch(String),
}

pub fn describe(ev: &Ev) -> String {
    match ev {
        Val(None) => "nothing".into(),
        Val(Some(v)) => v.to_json(),
        OneOf(a) => format!("one of {:?}", a.iter().map(|x| x.as_ref().map(|v| v.to_json()).unwrap_or_else(|| "nothing".into())).collect::<Vec<_>>()),
        Json(v) => format!("a JSON text of {}", v.to_json()),
        Dec(m, e) => format!("a decimal string for {}e{}", m, e),
        U => "unspecified".into(),
    }
}

pub fn judge(ev: &Ev, got: Option<&RVal>, allow_unordered: bool) -> Verdict {
    let one = |exp: &Option<RVal>| -> Option<bool> {
        match (exp, got) {
            (None, None) => Some(false),
            (Some(e), Some(g)) => {
                if value_matches(e, g, false) {
                    Some(false)
                } else if allow_unordered && value_matches(e, g, true) {
                    Some(true)
                } else {
                    None
                }
            }
            _ => None,
        }
    };
    match ev {
        U => Verdict::Unspecified,
        Val(v) => match one(v) {
            Some(u) => Verdict::Ok(u),
            None => Verdict::Mismatch(describe(ev)),
        },
        OneOf(alts) => {
            for a in alts {
                if let Some(u) = one(a) {
                    return Verdict::Ok(u);
                }
            }
            Verdict::Mismatch(describe(ev))
        }
        Json(v) => match got {
            Some(RVal::Str(s)) => match parse_one(s.as_bytes()) {
                Ok(p) if value_matches(v, &p, false) => Verdict::Ok(false),
                Ok(p) if allow_unordered && value_matches(v, &p, true) => Verdict::Ok(true),
                _ => Verdict::Mismatch(describe(ev)),
            },
            _ => Verdict::Mismatch(describe(ev)),
        },
        Dec(m, e) => match got {
            Some(RVal::Str(s)) => match crate::p19::parse_decimal(s) {
                Some(g) if d_cmp(&(m.clone(), *e), &g) == Ordering::Equal => Verdict::Ok(false),
                _ => Verdict::Mismatch(describe(ev)),
            },
            _ => Verdict::Mismatch(describe(ev)),
        },
    }
}

#[cfg(test)]
mod tests {
    use super::*;
    fn ev(e: Expr, input: &str) -> Ev {
        Evaluator::new().eval(&e, &Cx::top(parse_one(input.as_bytes()).unwrap()))
    }
    #[test]
    fn doc_examples() {
        let r = ev(Expr::call("take", vec![Expr::lit("[1,2,3,4]"), Expr::lit("2")]), "null");
        assert_eq!(describe(&r), "[1,2]");
        let r = ev(Expr::call("|", vec![Expr::call("get", vec![Expr::dot(), Expr::lit("1")]), Expr::call("+", vec![Expr::dot(), Expr::lit("4")])]), "[1,2,3,4]");
        assert_eq!(describe(&r), "6");
        let r = ev(Expr::call("push_front", vec![Expr::lit("[]"), Expr::lit("1"), Expr::lit("2")]), "null");
        assert_eq!(describe(&r), "[2,1]");
    }
}
