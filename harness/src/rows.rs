//! Records with a unique id and key fields drawn from the universe (DESIGN §2.4, C03/C07-C10).

use crate::rjson::*;
use crate::univ::*;
use proptest::collection::vec;
use proptest::prelude::*;
use serde::{Deserialize, Serialize};

#[derive(Clone, Debug, Serialize, Deserialize, PartialEq)]
pub struct Rec {
    pub id: u32,
    /// field name -> universe index (absent fields are simply not listed)
    pub fields: Vec<(String, usize)>,
}

impl Rec {
    pub fn text(&self) -> String {
        let mut s = format!("{{\"i\":{}", self.id);
        for (k, u) in &self.fields {
            s.push_str(&format!(",\"{}\":{}", k, UNIVERSE[*u]));
        }
        s.push('}');
        s
    }
    pub fn get(&self, name: &str) -> Option<usize> {
        self.fields.iter().find(|f| f.0 == name).map(|f| f.1)
    }
}

pub fn recs_input(recs: &[Rec]) -> Vec<u8> {
    let mut s = String::new();
    for r in recs {
        s.push_str(&r.text());
        s.push('\n');
    }
    s.into_bytes()
}

/// records with fields `names`; each field drawn from a small per-case pool (so ties are
/// common) and absent with probability ~ absent_w/10
pub fn arb_recs(names: &'static [&'static str], candidates: Vec<usize>, max_len: usize, absent_w: u32) -> BoxedStrategy<Vec<Rec>> {
    let nc = candidates.len();
    let pools = vec(vec(0..nc, 1..6), names.len());
    (pools, vec(vec((0u32..10, any::<u16>()), names.len()), 0..=max_len))
        .prop_map(move |(pools, rows)| {
            rows.iter()
                .enumerate()
                .map(|(i, cells)| {
                    let mut fields = Vec::new();
                    for (fi, (absent, pick)) in cells.iter().enumerate() {
                        if *absent < absent_w {
                            continue;
                        }
                        let pool = &pools[fi];
                        let idx = pool[crate::engine::pick_idx(*pick, pool.len())];
                        fields.push((names[fi].to_string(), candidates[idx]));
                    }
                    Rec { id: i as u32, fields }
                })
                .collect()
        })
        .boxed()
}

pub fn all_universe() -> Vec<usize> {
    (0..UNIVERSE.len()).collect()
}

/// ids of output rows (`i` member)
pub fn row_ids(stdout: &[u8]) -> Result<Vec<u32>, String> {
    let rows = split_rows(stdout, b"\n")?;
    rows.iter()
        .map(|(v, _, _)| match v.get("i") {
            Some(RVal::Int(i)) => Ok(*i as u32),
            _ => Err(format!("row without id: {}", v.to_json())),
        })
        .collect()
}
