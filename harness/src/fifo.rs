//! FIFO helper: lets a check observe whether jawk opened an input file (and feed it).

use std::sync::atomic::{AtomicBool, AtomicU64, Ordering};
use std::sync::Arc;

pub fn tmp_dir() -> std::path::PathBuf {
    let base = std::env::var("CARGO_TARGET_DIR").map(std::path::PathBuf::from).unwrap_or_else(|_| std::env::current_exe().unwrap().parent().unwrap().parent().unwrap().to_path_buf());
    let d = base.join("tmp").join(format!("{}", std::process::id()));
    let _ = std::fs::create_dir_all(&d);
    d
}

static SEQ: AtomicU64 = AtomicU64::new(0);

/// Create a FIFO, run `f(path)`, and report whether anybody opened the FIFO for reading while
/// `f` ran. A reader that does open it sees an empty file.
pub fn with_watched_fifo<T>(f: impl FnOnce(&str) -> T) -> Result<(T, bool), String> {
    let path = tmp_dir().join(format!("watch-{}", SEQ.fetch_add(1, Ordering::Relaxed)));
    let cpath = std::ffi::CString::new(path.to_str().unwrap()).unwrap();
    if unsafe { libc::mkfifo(cpath.as_ptr(), 0o600) } != 0 {
        return Err(format!("mkfifo {} failed", path.display()));
    }
    let cancel = Arc::new(AtomicBool::new(false));
    let opened = Arc::new(AtomicBool::new(false));
    let watcher = {
        let (cancel, opened, cpath) = (cancel.clone(), opened.clone(), cpath.clone());
        std::thread::spawn(move || loop {
            let fd = unsafe { libc::open(cpath.as_ptr(), libc::O_WRONLY | libc::O_NONBLOCK) };
            if fd >= 0 {
                opened.store(true, Ordering::SeqCst);
                unsafe { libc::close(fd) };
                return;
            }
            if cancel.load(Ordering::SeqCst) {
                return;
            }
            std::thread::sleep(std::time::Duration::from_micros(100));
        })
    };
    let r = f(path.to_str().unwrap());
    cancel.store(true, Ordering::SeqCst);
    let _ = watcher.join();
    let _ = std::fs::remove_file(&path);
    Ok((r, opened.load(Ordering::SeqCst)))
}

/// Create a FIFO that delivers `bytes` to whoever opens it for reading, run `f(path)`, and
/// report whether it was opened at all. The feeder never blocks for good: it polls for a
/// reader and gives up when `f` has returned.
pub fn with_fed_fifo<T>(bytes: Vec<u8>, f: impl FnOnce(&str) -> T) -> Result<(T, bool), String> {
    let path = tmp_dir().join(format!("feed-{}", SEQ.fetch_add(1, Ordering::Relaxed)));
    let cpath = std::ffi::CString::new(path.to_str().unwrap()).unwrap();
    if unsafe { libc::mkfifo(cpath.as_ptr(), 0o600) } != 0 {
        return Err(format!("mkfifo {} failed", path.display()));
    }
    let cancel = Arc::new(AtomicBool::new(false));
    let opened = Arc::new(AtomicBool::new(false));
    let feeder = {
        let (cancel, opened, cpath) = (cancel.clone(), opened.clone(), cpath.clone());
        std::thread::spawn(move || {
            let fd = loop {
                let fd = unsafe { libc::open(cpath.as_ptr(), libc::O_WRONLY | libc::O_NONBLOCK) };
                if fd >= 0 {
                    break fd;
                }
                if cancel.load(Ordering::SeqCst) {
                    return;
                }
                std::thread::sleep(std::time::Duration::from_micros(100));
            };
            opened.store(true, Ordering::SeqCst);
            // blocking writes from here on (EPIPE when the reader goes away)
            unsafe {
                let fl = libc::fcntl(fd, libc::F_GETFL);
                libc::fcntl(fd, libc::F_SETFL, fl & !libc::O_NONBLOCK);
            }
            let mut off = 0;
            while off < bytes.len() {
                let n = unsafe { libc::write(fd, bytes[off..].as_ptr() as *const libc::c_void, bytes.len() - off) };
                if n <= 0 {
                    break;
                }
                off += n as usize;
            }
            unsafe { libc::close(fd) };
        })
    };
    let r = f(path.to_str().unwrap());
    cancel.store(true, Ordering::SeqCst);
    let _ = feeder.join();
    let _ = std::fs::remove_file(&path);
    Ok((r, opened.load(Ordering::SeqCst)))
}
