//! C07 Sorting and the total order.

use crate::engine::*;
use crate::rjson::*;
use crate::rows::*;
use crate::runner::*;
use crate::univ::*;
use proptest::collection::vec;
use proptest::prelude::*;
use serde::{Deserialize, Serialize};
use serde_json::json;
use std::cmp::Ordering;

// ------------------------------------------------------------------ (a) axioms

pub fn run_axioms(ctx: &mut Ctx) {
    let name = "C07.axioms";
    let n = UNIVERSE.len();
    match fetch_matrices() {
        Err(e) => {
            ctx.violation(name, &json!({"universe": universe_array_text()}), &format!("cannot obtain the comparison matrices: {}", e));
        }
        Ok(mx) => {
            let errs = check_axioms(&mx);
            let st = ctx.stats.entry(name.to_string()).or_default();
            st.evaluations += (n * n * OPS.len()) as u64 + (n * n * n) as u64;
            // non-trivial: ordered pairs of distinct entries of the same type (order decided inside a type)
            let u = universe_vals();
            for i in 0..n {
                for j in 0..n {
                    if i != j && u[i].type_rank() == u[j].type_rank() {
                        st.nontrivial_hashes.insert((i * n + j) as u64);
                    }
                }
            }
            st.exhaustive = Some(format!("all {}^2 pairs x 6 operators and all {}^3 triples of the universe", n, n));
            st.samples.push((0, json!({"check": name, "case": {"universe_size": n, "first_entries": &UNIVERSE[..12]}, "observed": "matrices of < <= > >= = != obtained from jawk with (map . (map ^ (OP ^ .)))"})));
            if !errs.is_empty() {
                let msg = errs.iter().take(5).cloned().collect::<Vec<_>>().join(" | ");
                ctx.violation(name, &json!({"universe": universe_array_text()}), &msg);
            }
        }
    }
}

/// objects that differ only in member order, and objects that sort between them
pub fn run_axioms_permuted(ctx: &mut Ctx) {
    let name = "C07.axioms_permuted";
    match check_permuted_axioms() {
        Err(e) => ctx.violation(name, &json!({"universe": "permuted"}), &format!("cannot obtain the comparison matrices: {}", e)),
        Ok((evals, errs)) => {
            let n = PERMUTED.len();
            let st = ctx.stats.entry(name.to_string()).or_default();
            st.evaluations += evals as u64 + (n * n * n) as u64;
            for i in 0..n * n {
                st.nontrivial_hashes.insert(i as u64);
            }
            st.exhaustive = Some(format!("all {}^2 pairs x 4 order functions, all {}^3 triples, and 2 sorts x 3 arrival orders of {} objects that differ in member order or sort between such objects", n, n, n));
            st.samples.push((0, json!({"check": name, "case": {"objects": &PERMUTED[..6]}, "observed": "matrices of < <= > >= from jawk; (sort_by ..) and --sort-by on three arrival orders"})));
            if !errs.is_empty() {
                ctx.violation(name, &json!({"universe": "permuted"}), &errs.iter().take(5).cloned().collect::<Vec<_>>().join(" | "));
            }
        }
    }
}

/// strings whose code-point order is not their UTF-16, case-folded or length order
pub fn run_string_order(ctx: &mut Ctx) {
    let name = "C07.string_order";
    match check_string_order() {
        Err(e) => ctx.violation(name, &json!({"universe": "strings"}), &e),
        Ok((evals, errs)) => {
            let n = ORDER_STRINGS.len();
            let st = ctx.stats.entry(name.to_string()).or_default();
            st.evaluations += evals as u64;
            for i in 0..n * n {
                st.nontrivial_hashes.insert(i as u64);
            }
            st.exhaustive = Some(format!("all {}^2 pairs under <, and three sorts, of {} strings from the empty string to U+10FFFF", n, n));
            st.samples.push((0, json!({"check": name, "case": {"strings": n}, "observed": "< matrix and positions after (sort_by ..), --sort-by, --sort-by DESC"})));
            if !errs.is_empty() {
                ctx.violation(name, &json!({"universe": "strings"}), &errs.join(" | "));
            }
        }
    }
}

pub struct C07StringOrder;
impl Check for C07StringOrder {
    type Case = CaseAx;
    fn name(&self) -> &'static str {
        "C07.string_order"
    }
    fn cases(&self, _t: Tier) -> u64 {
        0
    }
    fn strategy(&self, _t: Tier) -> BoxedStrategy<CaseAx> {
        Just(CaseAx { universe: "strings".into() }).boxed()
    }
    fn check(&self, _c: &CaseAx) -> CaseResult {
        match check_string_order() {
            Err(e) => CaseResult::Fail(e),
            Ok((_, errs)) if errs.is_empty() => CaseResult::Pass(Info::new(true)),
            Ok((_, errs)) => CaseResult::Fail(errs.join(" | ")),
        }
    }
}

pub struct C07AxiomsPermuted;
impl Check for C07AxiomsPermuted {
    type Case = CaseAx;
    fn name(&self) -> &'static str {
        "C07.axioms_permuted"
    }
    fn cases(&self, _t: Tier) -> u64 {
        0
    }
    fn strategy(&self, _t: Tier) -> BoxedStrategy<CaseAx> {
        Just(CaseAx { universe: "permuted".into() }).boxed()
    }
    fn check(&self, _c: &CaseAx) -> CaseResult {
        match check_permuted_axioms() {
            Err(e) => CaseResult::Fail(e),
            Ok((_, errs)) if errs.is_empty() => CaseResult::Pass(Info::new(true)),
            Ok((_, errs)) => CaseResult::Fail(errs.join(" | ")),
        }
    }
}

pub struct C07Axioms;
#[derive(Clone, Debug, Serialize, Deserialize)]
pub struct CaseAx {
    pub universe: String,
}
impl Check for C07Axioms {
    type Case = CaseAx;
    fn name(&self) -> &'static str {
        "C07.axioms"
    }
    fn cases(&self, _t: Tier) -> u64 {
        0
    }
    fn strategy(&self, _t: Tier) -> BoxedStrategy<CaseAx> {
        Just(CaseAx { universe: universe_array_text() }).boxed()
    }
    fn check(&self, _c: &CaseAx) -> CaseResult {
        match fetch_matrices() {
            Err(e) => CaseResult::Fail(e),
            Ok(mx) => {
                let errs = check_axioms(&mx);
                if errs.is_empty() {
                    CaseResult::Pass(Info::new(true))
                } else {
                    CaseResult::Fail(errs.join(" | "))
                }
            }
        }
    }
}

// ------------------------------------------------------------------ (b) --sort-by

#[derive(Clone, Debug, Serialize, Deserialize)]
pub struct SortKey {
    pub field: String,
    /// "", "ASC", "DESC" in any letter case
    pub dir: String,
    /// true: `expr=DIR`, false: `expr DIR`
    pub eq_syntax: bool,
}
impl SortKey {
    pub fn arg(&self) -> String {
        if self.dir.is_empty() {
            format!("--sort-by=.{}", self.field)
        } else if self.eq_syntax {
            format!("--sort-by=.{}={}", self.field, self.dir)
        } else {
            format!("--sort-by=.{} {}", self.field, self.dir)
        }
    }
    pub fn desc(&self) -> bool {
        self.dir.eq_ignore_ascii_case("desc")
    }
}

#[derive(Clone, Debug, Serialize, Deserialize)]
pub struct CaseSortBy {
    pub recs: Vec<Rec>,
    pub keys: Vec<SortKey>,
}

pub fn arb_dir() -> BoxedStrategy<String> {
    prop_oneof![
        2 => Just(String::new()),
        2 => (prop::sample::select(vec!["asc", "desc"]), any::<u8>()).prop_map(|(w, bits)| w.chars().enumerate().map(|(i, c)| if (bits >> i) & 1 == 1 { c.to_ascii_uppercase() } else { c }).collect::<String>()),
        1 => Just("DESC".to_string()),
        1 => Just("ASC".to_string()),
    ]
    .boxed()
}

pub const KEY_FIELDS: &[&str] = &["a", "b", "c"];

pub fn arb_sort_keys() -> BoxedStrategy<Vec<SortKey>> {
    // 1..4 keys; usually distinct fields, sometimes a field repeated (also with a key in
    // between, as in `--sort-by .a --sort-by .b --sort-by .a`): a repeated key is redundant,
    // the first occurrence decides
    (1usize..=4, vec((arb_dir(), any::<bool>()), 4), any::<u8>(), vec(0usize..3, 4), prop::bool::weighted(0.25))
        .prop_map(|(n, dirs, perm, picks, repeat)| {
            let mut names: Vec<&str> = KEY_FIELDS.to_vec();
            if perm % 2 == 1 {
                names.swap(0, 1);
            }
            if perm % 3 == 1 {
                names.swap(1, 2);
            }
            (0..n)
                .map(|i| {
                    let field = if repeat || i >= 3 { KEY_FIELDS[picks[i]] } else { names[i] };
                    SortKey { field: field.to_string(), dir: dirs[i].0.clone(), eq_syntax: dirs[i].1 }
                })
                .collect()
        })
        .boxed()
}

/// expected ids: rows with every key present, stably sorted, first key most significant
pub fn expected_sorted(recs: &[Rec], keys: &[SortKey], ord: &Order) -> Vec<u32> {
    let mut rows: Vec<&Rec> = recs.iter().filter(|r| keys.iter().all(|k| r.get(&k.field).is_some())).collect();
    rows.sort_by(|x, y| {
        for k in keys {
            let (a, b) = (x.get(&k.field).unwrap(), y.get(&k.field).unwrap());
            let mut o = ord.cmp(a, b);
            if k.desc() {
                o = o.reverse();
            }
            if o != Ordering::Equal {
                return o;
            }
        }
        Ordering::Equal
    });
    rows.iter().map(|r| r.id).collect()
}

pub fn sort_nontrivial(recs: &[Rec], keys: &[SortKey], ord: &Order) -> (bool, bool, bool) {
    let rows: Vec<&Rec> = recs.iter().filter(|r| keys.iter().all(|k| r.get(&k.field).is_some())).collect();
    let mut full_tie = false;
    let mut distinct = false;
    let mut tie_broken = false;
    for i in 0..rows.len() {
        for j in i + 1..rows.len() {
            let cmps: Vec<Ordering> = keys.iter().map(|k| ord.cmp(rows[i].get(&k.field).unwrap(), rows[j].get(&k.field).unwrap())).collect();
            if cmps.iter().all(|c| *c == Ordering::Equal) {
                full_tie = true;
            } else {
                distinct = true;
            }
            if cmps.len() > 1 && cmps[0] == Ordering::Equal && cmps[1] != Ordering::Equal {
                tie_broken = true;
            }
        }
    }
    (full_tie, distinct, tie_broken)
}

pub struct C07SortBy;
impl Check for C07SortBy {
    type Case = CaseSortBy;
    fn name(&self) -> &'static str {
        "C07.sortby"
    }
    fn cases(&self, tier: Tier) -> u64 {
        tier.pick(30_000, 600_000)
    }
    fn strategy(&self, _t: Tier) -> BoxedStrategy<CaseSortBy> {
        // mostly <= 40 rows; one case in six is long (sorting algorithms switch strategy with the
        // length, e.g. insertion sort below ~20 elements, so short inputs alone cannot see an
        // unstable or length-dependent sort)
        let recs = prop_oneof![50 => arb_recs(KEY_FIELDS, all_universe(), 40, 1), 10 => arb_recs(KEY_FIELDS, all_universe(), 160, 1), 1 => arb_recs(KEY_FIELDS, all_universe(), 2500, 1)];
        (recs, arb_sort_keys()).prop_map(|(recs, keys)| CaseSortBy { recs, keys }).boxed()
    }
    fn check(&self, case: &CaseSortBy) -> CaseResult {
        let ord = order();
        let input = recs_input(&case.recs);
        let args: Vec<String> = case.keys.iter().map(|k| k.arg()).collect();
        let out = run(&args, &input);
        if !out.res.is_ok() {
            return CaseResult::Fail(format!("jawk failed: {}", out.res.short()));
        }
        let got = match row_ids(&out.stdout) {
            Ok(g) => g,
            Err(e) => return CaseResult::Fail(e),
        };
        let exp = expected_sorted(&case.recs, &case.keys, ord);
        let (tie, distinct, broken) = sort_nontrivial(&case.recs, &case.keys, ord);
        let info = Info::new(tie && distinct && (case.keys.len() == 1 || broken))
            .class_if(case.keys.iter().any(|k| k.desc()) && tie, "desc_with_ties")
            .class_if(exp.len() < case.recs.len(), "absent_keys_dropped")
            .class_if(case.keys.len() >= 3, "three_or_more_keys")
            .class_if({ let mut f: Vec<&String> = case.keys.iter().map(|k| &k.field).collect(); f.sort(); f.windows(2).any(|w| w[0] == w[1]) }, "repeated_key_expression")
            .class_if(case.keys.len() == 2, "two_keys")
            .class_if(case.keys.iter().any(|k| !k.dir.is_empty() && !k.eq_syntax), "space_direction_syntax")
            .obs(json!({"ids": got.clone()}));
        if got != exp {
            let mut g2 = got.clone();
            let mut e2 = exp.clone();
            g2.sort();
            e2.sort();
            let what = if g2 != e2 { "is not a permutation of the sortable rows" } else { "is in the wrong order" };
            return CaseResult::Fail(format!("--sort-by output {}: expected ids {:?} got {:?}", what, exp, got));
        }
        // the same order when the sorted rows are collected by --merge (one case in three)
        if case.recs.len() % 3 == 1 {
            let mut a2 = args.clone();
            a2.push("--merge".into());
            a2.push("--style=consise".into());
            let m = run(&a2, &input);
            let ids: Option<Vec<u32>> = split_rows(&m.stdout, b"\n").ok().and_then(|r| r.first().map(|x| x.0.clone())).and_then(|v| if let RVal::Arr(a) = v { Some(a.iter().filter_map(|x| if let Some(RVal::Int(i)) = x.get("i") { Some(*i as u32) } else { None }).collect()) } else { None });
            if !m.res.is_ok() || ids.as_ref() != Some(&exp) {
                return CaseResult::Fail(format!("--sort-by with --merge: the array holds ids {:?}, expected {:?} (args {:?})", ids, exp, a2));
            }
        }
        CaseResult::Pass(info)
    }
}

// ------------------------------------------------------------------ (c) sort functions

#[derive(Clone, Debug, Serialize, Deserialize)]
pub struct CaseSortFn {
    /// sort | sort_unique | sort_by | sort_by_values | sort_by_values_by | sort_by_keys (or an alias)
    pub func: String,
    /// universe index per element; None = absent key (sort_by / sort_by_values_by only)
    pub items: Vec<Option<usize>>,
    /// keys for sort_by_keys
    pub names: Vec<String>,
}

fn canonical_fn(f: &str) -> &str {
    match f {
        "order" => "sort",
        "order_unique" => "sort_unique",
        "order_by" => "sort_by",
        "order_by_values" => "sort_by_values",
        "order_by_values_by" => "sort_by_values_by",
        "order_by_keys" => "sort_by_keys",
        x => x,
    }
}

pub struct C07SortFn;
impl Check for C07SortFn {
    type Case = CaseSortFn;
    fn name(&self) -> &'static str {
        "C07.functions"
    }
    fn cases(&self, tier: Tier) -> u64 {
        tier.pick(30_000, 600_000)
    }
    fn strategy(&self, _t: Tier) -> BoxedStrategy<CaseSortFn> {
        let n = UNIVERSE.len();
        let funcs = vec![
            "sort", "sort_unique", "sort_by", "sort_by_values", "sort_by_values_by", "sort_by_keys", "order", "order_unique", "order_by", "order_by_values",
            "order_by_values_by", "order_by_keys",
        ];
        let cells = prop_oneof![5 => vec((0u32..10, any::<u16>()), 0..25), 1 => vec((0u32..10, any::<u16>()), 25..160)];
        (prop::sample::select(funcs), vec(0..n, 1..6), cells, vec("[a-e\u{e9}A-C0-2 ]{0,3}", 25))
            .prop_map(|(f, pool, cells, names)| {
                let keyed = matches!(canonical_fn(f), "sort_by" | "sort_by_values_by");
                let items = cells.iter().map(|(a, p)| if keyed && *a < 2 { None } else { Some(pool[pick_idx(*p, pool.len())]) }).collect();
                CaseSortFn { func: f.to_string(), items, names }
            })
            .boxed()
    }
    fn check(&self, case: &CaseSortFn) -> CaseResult {
        let ord = order();
        let f = canonical_fn(&case.func);
        let n = case.items.len();
        let ut = |i: usize| UNIVERSE[i];
        // distinct member names for the object functions
        let names: Vec<String> = {
            let mut seen = std::collections::HashSet::new();
            (0..n)
                .map(|i| {
                    let base = case.names.get(i).cloned().unwrap_or_default();
                    let mut nm = base.clone();
                    let mut k = 0;
                    while !seen.insert(nm.clone()) {
                        k += 1;
                        nm = format!("{}{}", base, k);
                    }
                    nm
                })
                .collect()
        };
        let jstr = |s: &str| {
            let mut o = String::new();
            write_json_string(s, &mut o);
            o
        };
        let (input, expr): (String, String) = match f {
            "sort" | "sort_unique" => (format!("[{}]", case.items.iter().map(|i| ut(i.unwrap())).collect::<Vec<_>>().join(",")), format!("({} .)", case.func)),
            "sort_by" => (
                format!(
                    "[{}]",
                    case.items.iter().enumerate().map(|(id, k)| match k { Some(u) => format!("{{\"i\":{},\"k\":{}}}", id, ut(*u)), None => format!("{{\"i\":{}}}", id) }).collect::<Vec<_>>().join(",")
                ),
                format!("({} . .k)", case.func),
            ),
            "sort_by_values" => (
                format!("{{{}}}", case.items.iter().enumerate().map(|(id, k)| format!("{}:{}", jstr(&names[id]), ut(k.unwrap()))).collect::<Vec<_>>().join(",")),
                format!("({} .)", case.func),
            ),
            "sort_by_values_by" => (
                format!(
                    "{{{}}}",
                    case.items.iter().enumerate().map(|(id, k)| match k { Some(u) => format!("{}:{{\"k\":{}}}", jstr(&names[id]), ut(*u)), None => format!("{}:{{}}", jstr(&names[id])) }).collect::<Vec<_>>().join(",")
                ),
                format!("({} . .k)", case.func),
            ),
            "sort_by_keys" => (format!("{{{}}}", names.iter().enumerate().map(|(id, nm)| format!("{}:{}", jstr(nm), id)).collect::<Vec<_>>().join(",")), format!("({} .)", case.func)),
            _ => return CaseResult::Discard("unknown function".into()),
        };
        let out = run(&[format!("--select={}=x", expr)], input.as_bytes());
        if !out.res.is_ok() {
            return CaseResult::Fail(format!("jawk failed: {}", out.res.short()));
        }
        let rows = match split_rows(&out.stdout, b"\n") {
            Ok(r) => r,
            Err(e) => return CaseResult::Fail(e),
        };
        let Some(x) = rows.first().and_then(|r| r.0.get("x").cloned()) else { return CaseResult::Fail(format!("{} returned nothing for {}", expr, trunc(&input, 300))) };
        // stable order of positions by Option<key> (None first)
        let cmp_opt = |a: &Option<usize>, b: &Option<usize>| match (a, b) {
            (None, None) => Ordering::Equal,
            (None, Some(_)) => Ordering::Less,
            (Some(_), None) => Ordering::Greater,
            (Some(p), Some(q)) => ord.cmp(*p, *q),
        };
        let mut pos: Vec<usize> = (0..n).collect();
        pos.sort_by(|p, q| cmp_opt(&case.items[*p], &case.items[*q]));
        let has_tie = (0..n).any(|i| (i + 1..n).any(|j| cmp_opt(&case.items[i], &case.items[j]) == Ordering::Equal));
        let has_distinct = (0..n).any(|i| (i + 1..n).any(|j| cmp_opt(&case.items[i], &case.items[j]) != Ordering::Equal));
        let info = Info::new(n >= 3 && has_distinct && (has_tie || matches!(f, "sort_by_keys")))
            .class(match f { "sort" => "fn:sort", "sort_unique" => "fn:sort_unique", "sort_by" => "fn:sort_by", "sort_by_values" => "fn:sort_by_values", "sort_by_values_by" => "fn:sort_by_values_by", _ => "fn:sort_by_keys" })
            .class_if(case.items.iter().any(|i| i.is_none()), "absent_keys")
            .class_if(f != case.func, "alias")
            .class_if(n > 32, "long_list")
            .obs(json!({"result": trunc(&x.to_json(), 300)}));
        let u = universe_vals();
        let fail = |m: String| CaseResult::Fail(format!("{} on {}: {}; got {}", expr, trunc(&input, 400), m, trunc(&x.to_json(), 400)));
        match f {
            "sort" | "sort_unique" => {
                let RVal::Arr(got) = &x else { return fail("result is not an array".into()) };
                let mut exp: Vec<usize> = pos.iter().map(|p| case.items[*p].unwrap()).collect();
                if f == "sort_unique" {
                    exp.dedup_by(|a, b| ord.cmp(*a, *b) == Ordering::Equal);
                }
                if got.len() != exp.len() {
                    return fail(format!("expected {} elements", exp.len()));
                }
                for (g, e) in got.iter().zip(exp.iter()) {
                    if !ref_eq(g, &u[*e]) {
                        return fail(format!("expected order {:?}", exp.iter().map(|e| ut(*e)).collect::<Vec<_>>()));
                    }
                }
            }
            "sort_by" => {
                let RVal::Arr(got) = &x else { return fail("result is not an array".into()) };
                let ids: Vec<i128> = got.iter().map(|g| match g.get("i") { Some(RVal::Int(i)) => *i, _ => -1 }).collect();
                let exp: Vec<i128> = pos.iter().map(|p| *p as i128).collect();
                if ids != exp {
                    return fail(format!("expected element ids {:?} (absent keys first, ties in arrival order), got {:?}", exp, ids));
                }
            }
            "sort_by_values" | "sort_by_values_by" => {
                let RVal::Obj(got) = &x else { return fail("result is not an object".into()) };
                let gn: Vec<&String> = got.iter().map(|m| &m.0).collect();
                let en: Vec<&String> = pos.iter().map(|p| &names[*p]).collect();
                if gn != en {
                    return fail(format!("expected member order {:?}", en));
                }
            }
            _ => {
                let RVal::Obj(got) = &x else { return fail("result is not an object".into()) };
                let gn: Vec<&String> = got.iter().map(|m| &m.0).collect();
                let mut en: Vec<&String> = names.iter().collect();
                en.sort_by(|a, b| a.as_bytes().cmp(b.as_bytes()));
                if gn != en {
                    return fail(format!("expected member order {:?}", en));
                }
                for (k, v) in got {
                    let id = names.iter().position(|nm| nm == k).unwrap();
                    if !matches!(v, RVal::Int(i) if *i == id as i128) {
                        return fail("a member changed its value".into());
                    }
                }
            }
        }
        CaseResult::Pass(info)
    }
}

// ------------------------------------------------------------------ (d) the number-as-string sort
// (run under C04: the function is documented with an example - elements without a key first,
// exact decimal order, ties in arrival order - but is not one of the sorts C07 lists)

/// value classes in increasing order, each with numerically equal spellings
pub const NAS_CLASSES: &[&[&str]] = &[
    &["-123456789012345678901234567891"],
    &["-123456789012345678901234567890", "-1.2345678901234567890123456789e29"],
    &["-1", "-1.0", "-10e-1", "-01"],
    &["-1e-100", "-0.1E-99"],
    &["0", "0.0", "0e5", "-0", "00"],
    &["1e-100", "1E-100"],
    &["0.5", "5e-1", "0.50", "00.5"],
    &["1", "1.0", "1.00", "1e0", "10e-1", "01", "1E+0"],
    &["1.0000000000000000000000000000001"],
    &["2", "2.0", "0.2e1"],
    &["100", "1e2", "1E2", "1E+2", "100.0"],
    &["9007199254740992"],
    &["9007199254740993", "9007199254740993.0"],
    &["123456789012345678901234567890", "1.2345678901234567890123456789e29"],
    &["123456789012345678901234567891"],
    &["1e100", "1E+100"],
];

#[derive(Clone, Debug, Serialize, Deserialize)]
pub struct CaseNasSort {
    pub func: String,
    /// (class, spelling) per element; None = the element has no key
    pub items: Vec<Option<(usize, usize)>>,
}

pub struct C07NasSort;
impl Check for C07NasSort {
    type Case = CaseNasSort;
    fn name(&self) -> &'static str {
        "C04.nas_sort"
    }
    fn cases(&self, tier: Tier) -> u64 {
        tier.pick(12_000, 300_000)
    }
    fn strategy(&self, _t: Tier) -> BoxedStrategy<CaseNasSort> {
        let funcs = vec!["\"sort_by\"", "\"order_by\"", "sort_by_nas", "order_by_nas"];
        let cells = prop_oneof![3 => vec((0u32..10, any::<u16>(), any::<u16>()), 0..25), 1 => vec((0u32..10, any::<u16>(), any::<u16>()), 25..160)];
        (prop::sample::select(funcs), vec(0..NAS_CLASSES.len(), 1..5), cells)
            .prop_map(|(f, pool, cells)| {
                let items = cells
                    .iter()
                    .map(|(a, p, q)| {
                        if *a < 1 {
                            None
                        } else {
                            let c = pool[pick_idx(*p, pool.len())];
                            Some((c, pick_idx(*q, NAS_CLASSES[c].len())))
                        }
                    })
                    .collect();
                CaseNasSort { func: f.to_string(), items }
            })
            .boxed()
    }
    fn check(&self, case: &CaseNasSort) -> CaseResult {
        let n = case.items.len();
        let input = format!(
            "[{}]",
            case.items.iter().enumerate().map(|(id, k)| match k { Some((c, s)) => format!("{{\"i\":{},\"k\":\"{}\"}}", id, NAS_CLASSES[*c][*s]), None => format!("{{\"i\":{}}}", id) }).collect::<Vec<_>>().join(",")
        );
        let expr = format!("({} . .k)", case.func);
        let out = run(&[format!("--select={}=x", expr)], input.as_bytes());
        if !out.res.is_ok() {
            return CaseResult::Fail(format!("jawk failed: {}", out.res.short()));
        }
        let rows = match split_rows(&out.stdout, b"\n") {
            Ok(r) => r,
            Err(e) => return CaseResult::Fail(e),
        };
        let Some(RVal::Arr(got)) = rows.first().and_then(|r| r.0.get("x").cloned()) else { return CaseResult::Fail(format!("{} did not return a list for {}", expr, trunc(&input, 300))) };
        let key = |i: usize| case.items[i].map(|(c, _)| c as i64).unwrap_or(-1);
        let mut pos: Vec<usize> = (0..n).collect();
        pos.sort_by_key(|p| key(*p));
        let ids: Vec<i128> = got.iter().map(|g| match g.get("i") { Some(RVal::Int(i)) => *i, _ => -1 }).collect();
        let exp: Vec<i128> = pos.iter().map(|p| *p as i128).collect();
        let has_tie = (0..n).any(|i| (i + 1..n).any(|j| key(i) == key(j)));
        let spelled_tie = (0..n).any(|i| (i + 1..n).any(|j| key(i) == key(j) && case.items[i] != case.items[j]));
        let has_distinct = (0..n).any(|i| (i + 1..n).any(|j| key(i) != key(j)));
        if ids != exp {
            return CaseResult::Fail(format!("{} on {}: expected element ids {:?} (elements without a key first, exact decimal order, ties in arrival order), got {:?}", expr, trunc(&input, 400), exp, ids));
        }
        CaseResult::Pass(
            Info::new(n >= 3 && has_tie && has_distinct)
                .class_if(spelled_tie, "tie_between_different_spellings")
                .class_if(case.items.iter().any(|i| i.is_none()), "absent_keys")
                .class_if(n > 32, "long_list")
                .class_if(n > 20, "more_than_20")
                .obs(json!({"ids": trunc(&format!("{:?}", ids), 200)})),
        )
    }
}

pub fn run_all(ctx: &mut Ctx) {
    ctx.rule = "C07.axioms: the six comparison matrices over the whole universe are obtained from jawk and all pairs/triples are checked (exhaustive). C07.axioms_permuted: 20 objects that differ only in member order or sort between such objects: < <= > >= must be dual, complementary, total and transitive, and (sort_by ..) / --sort-by must be non-decreasing under that <= for three arrival orders (no use of =). C07.string_order: 22 strings from the empty string to U+10FFFF (among them characters beyond U+FFFF next to U+E000..U+FFFF, upper and lower case, prefixes): < and three sorts must follow the code points; only booleans and positions are read back. C07.sortby: 0..40 records with 3 key fields from per-case pools of 1..5 universe values (or absent) x 1..3 --sort-by keys x ASC/DESC/omitted in random letter case and both syntaxes; non-trivial = at least two rows tie on the full key, two differ, and for multi-key sorts a tie on key 1 is broken by key 2. C07.functions: the six sort functions and their aliases on up to 160 elements/members; non-trivial = >= 3 elements with a tie and a difference. distinct = distinct cases by hash".into();
    ctx.assumptions = vec![
        "the order between two different objects is unspecified: jawk's own < matrix is used for it after it passed totality/antisymmetry/transitivity over the whole universe".into(),
        "universe numbers are < 2^53 in magnitude or non-integral, no -0, no member-order permutations (the property's quantifier)".into(),
    ];
    run_axioms(ctx);
    run_axioms_permuted(ctx);
    run_string_order(ctx);
    C07SortBy.run(ctx);
    C07SortFn.run(ctx);
}

pub fn checks() -> Vec<Box<dyn DynCheck>> {
    vec![Box::new(C07Axioms), Box::new(C07AxiomsPermuted), Box::new(C07StringOrder), Box::new(C07SortBy), Box::new(C07SortFn)]
}
