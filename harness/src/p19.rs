//! C19 64-bit integers survive untouched; number-as-string arithmetic is exact.

use crate::engine::*;
use crate::gen::Mix;
use crate::rjson::*;
use crate::runner::*;
use num_bigint::BigInt;
use num_traits::{Signed, Zero};
use proptest::collection::vec;
use proptest::prelude::*;
use serde::{Deserialize, Serialize};
use serde_json::json;

// ------------------------------------------------------------------ (a) integers

#[derive(Clone, Debug, Serialize, Deserialize)]
pub struct CaseInt {
    pub ints: Vec<String>,
    pub route: u8,
}

pub fn arb_int64() -> BoxedStrategy<String> {
    let two63: i128 = 1i128 << 63;
    let two64: i128 = 1i128 << 64;
    let two53: i128 = 1i128 << 53;
    prop_oneof![
        3 => (0i128..=4).prop_map(move |k| (two64 - 1 - k).to_string()),
        3 => (0i128..=4).prop_map(move |k| (-two63 + k).to_string()),
        3 => (-4i128..=4).prop_map(move |k| (two63 + k).to_string()),
        3 => (-6i128..=6, any::<bool>()).prop_map(move |(k, n)| (if n { -(two53 + k) } else { two53 + k }).to_string()),
        3 => (1u32..64, -2i128..=2, any::<bool>()).prop_map(move |(p, k, n)| { let v = (1i128 << p) + k; (if n { (-v).max(-two63) } else { v }).to_string() }),
        3 => any::<u64>().prop_map(|u| u.to_string()),
        3 => any::<i64>().prop_map(|u| u.to_string()),
        1 => (-20i128..20).prop_map(|v| v.to_string()),
        // 19- and 20-digit integers around the powers of ten
        2 => (0i128..=3, any::<bool>()).prop_map(|(k, b)| if b { (10i128.pow(19) + k).to_string() } else { (10i128.pow(18) * 9 + k).to_string() }),
        1 => (0i128..=3).prop_map(|k| (-(10i128.pow(18)) * 9 - k).to_string()),
    ]
    .boxed()
}

pub const ROUTES: &[(&str, &str)] = &[
    ("plain", ""),
    ("plain_consise", ""),
    ("plain_pretty", ""),
    ("select_dot", ""),
    ("select_field", ""),
    ("filter_equal_literal", ""),
    ("sort_by", ""),
    ("sort_by_desc", ""),
    ("unique", ""),
    ("group_by", ""),
    ("merge", ""),
    ("split_by", ""),
    ("text", ""),
    ("csv", ""),
    ("skip_take", ""),
    // expression routes: f applied to the array of all integers `.xs`
    ("f:(get .xs 0)", "first"),
    ("f:(take .xs 100)", "all"),
    ("f:(take_last .xs 100)", "all"),
    ("f:(sub .xs 0 100)", "all"),
    ("f:(push [] .xs)", "all"),
    ("f:(push_front [] .xs)", "all"),
    ("f:(values (put {} \"a\" .xs))", "all"),
    ("f:(entries (put {} \"a\" .xs))", "all"),
    ("f:(sort .xs)", "multiset"),
    ("f:(sort_unique .xs)", "subset"),
    ("f:(map .xs .)", "all"),
    ("f:(filter .xs true)", "all"),
    ("f:(first .xs)", "first"),
    ("f:(last .xs)", "last"),
    ("f:(reverese .xs)", "reversed"),
    ("f:(stringify .xs)", "all"),
    ("f:(parse (stringify .xs))", "all"),
    ("f:(default .nosuch .xs)", "all"),
    ("f:(? true .xs 0)", "all"),
    ("f:(| .xs .)", "all"),
    ("f:(set \"v\" .xs :v)", "all"),
    ("f:(define \"m\" .xs @m)", "all"),
    ("f:(flat_map [1] ^.xs)", "all"),
    ("f:(fold .xs .value)", "last"),
    ("f:(sort_by .xs 1)", "all"),
    ("f:(group_by .xs \"k\")", "all"),
    ("f:(indexed .xs)", "with_indices"),
    ("f:(zip .xs [])", "zip0"),
    ("f:(pop (push .xs 0))", "all"),
    ("f:(put {} \"k\" .xs)", "all"),
    ("f:(map_values (put {} \"a\" .xs) .)", "all"),
    ("f:(filter_values (put {} \"a\" .xs) true)", "all"),
    ("f:(sort_by_values (put {} \"a\" .xs))", "all"),
    ("f:(as_array .xs)", "all"),
    ("f:(map .xs (as_number .))", "all"),
    // the same functions applied to every integer on its own (a scalar fast path is another path)
    ("f:(map .xs (stringify .))", "all"),
    ("f:(map .xs (parse (stringify .)))", "all"),
    ("f:(map .xs (default .nosuch .))", "all"),
    ("f:(map .xs (? true . 0))", "all"),
    ("f:(map .xs (| . .))", "all"),
    ("f:(map .xs (set \"v\" . :v))", "all"),
    ("f:(map .xs (first (push [] .)))", "all"),
    ("f:(map .xs (get (put {} \"k\" .) \"k\"))", "all"),
    ("f:(join (map .xs (stringify .)) \" \")", "all"),
];

fn digit_runs(b: &[u8]) -> Vec<String> {
    let mut v = Vec::new();
    let mut i = 0;
    while i < b.len() {
        if b[i].is_ascii_digit() || (b[i] == b'-' && i + 1 < b.len() && b[i + 1].is_ascii_digit()) {
            let s = i;
            i += 1;
            while i < b.len() && b[i].is_ascii_digit() {
                i += 1;
            }
            v.push(String::from_utf8_lossy(&b[s..i]).to_string());
        } else {
            i += 1;
        }
    }
    v
}

pub struct C19Ints;
impl Check for C19Ints {
    type Case = CaseInt;
    fn name(&self) -> &'static str {
        "C19.integers"
    }
    fn cases(&self, tier: Tier) -> u64 {
        tier.pick(40_000, 1_500_000)
    }
    fn strategy(&self, _t: Tier) -> BoxedStrategy<CaseInt> {
        // a third of the later integers are neighbours of the first one (a-2 .. a+2): integers
        // that differ but round to the same double must stay different on every route
        (vec(arb_int64(), 1..8), 0..ROUTES.len() as u8, vec((0u8..3, -2i128..=2), 8))
            .prop_map(|(mut ints, route, near)| {
                let a: i128 = ints[0].parse().unwrap_or(0);
                for i in 1..ints.len() {
                    let (f, k) = near[i];
                    if f == 0 {
                        ints[i] = (a + k).clamp(-(1i128 << 63), (1i128 << 64) - 1).to_string();
                    }
                }
                CaseInt { ints, route }
            })
            .boxed()
    }
    fn check(&self, c: &CaseInt) -> CaseResult {
        let (route, mode) = ROUTES[c.route as usize % ROUTES.len()];
        let ints = &c.ints;
        let plain_input: String = ints.iter().map(|s| format!("{}\n", s)).collect();
        let rec_input: String = ints.iter().map(|s| format!("{{\"g\":\"k\",\"x\":{}}}\n", s)).collect();
        let xs_input = format!("{{\"xs\":[{}]}}\n", ints.join(","));
        let mut sorted = ints.clone();
        sorted.sort();
        let mut set = sorted.clone();
        set.dedup();
        // expected: (ordered list | multiset | set) of digit strings
        enum Exp {
            List(Vec<String>),
            Multiset(Vec<String>),
            Set(Vec<String>),
            /// every input integer at least once, none more often than in the input (the order
            /// of integers beyond 2^53 - and so which duplicates are adjacent - is outside C07's domain)
            Cover(Vec<String>, Vec<String>),
        }
        let (args, input, exp): (Vec<String>, String, Exp) = match route {
            "plain" => (vec![], plain_input, Exp::List(ints.clone())),
            "plain_consise" => (vec!["--style=consise".into()], plain_input, Exp::List(ints.clone())),
            "plain_pretty" => (vec!["--style=pretty".into()], xs_input, Exp::List(ints.clone())),
            "select_dot" => (vec!["--select=. = v".into()], plain_input, Exp::List(ints.clone())),
            "select_field" => (vec!["--select=.x = v".into()], rec_input, Exp::List(ints.clone())),
            "filter_equal_literal" => {
                // keep exactly the rows whose x equals the first integer, written as a literal
                let first = ints[0].clone();
                let kept: Vec<String> = ints.iter().filter(|s| **s == first).cloned().collect();
                (vec![format!("--filter=(= .x {})", first), "--select=.x = v".into()], rec_input, Exp::List(kept))
            }
            "sort_by" => (vec!["--sort-by=.x".into(), "--select=.x = v".into()], rec_input, Exp::Multiset(sorted.clone())),
            "sort_by_desc" => (vec!["--sort-by=.x DESC".into(), "--select=.x = v".into()], rec_input, Exp::Multiset(sorted.clone())),
            "unique" => (vec!["--unique".into()], plain_input, Exp::Set(set.clone())),
            "group_by" => (vec!["--group-by=.g".into(), "--select=.x = x".into(), "--select=.g = g".into()], rec_input, Exp::List(ints.clone())),
            "merge" => (vec!["--merge".into()], plain_input, Exp::List(ints.clone())),
            "split_by" => (vec!["--split-by=.xs".into()], xs_input, Exp::List(ints.clone())),
            "text" => (vec!["--output-style=text".into(), "--select=.x = v".into(), "--select=.g = g".into()], rec_input, Exp::List(ints.clone())),
            "csv" => (vec!["--output-style=csv".into(), "--select=.x = v".into(), "--select=.g = g".into()], rec_input, Exp::List(ints.clone())),
            "skip_take" => (vec!["--skip=1".into(), "--take=100".into()], plain_input, Exp::List(ints[1..].to_vec())),
            f => {
                let e = &f[2..];
                let exp = match mode {
                    "first" => Exp::List(vec![ints[0].clone()]),
                    "last" => Exp::List(vec![ints[ints.len() - 1].clone()]),
                    "reversed" => Exp::List(ints.iter().rev().cloned().collect()),
                    // records {".0": x}: the key contributes a 0 in front of every value
                    "zip0" => Exp::List(ints.iter().flat_map(|x| vec!["0".to_string(), x.clone()]).collect()),
                    "multiset" => Exp::Multiset(sorted.clone()),
                    "set" => Exp::Set(set.clone()),
                    "subset" => Exp::Cover(set.clone(), sorted.clone()),
                    "abs" => Exp::List(ints.iter().map(|s| s.trim_start_matches('-').to_string()).collect()),
                    "with_indices" => {
                        // [{"value": x, "index": i}] in either member order: check the values only
                        Exp::Multiset({
                            let mut v: Vec<String> = ints.clone();
                            v.extend((0..ints.len()).map(|i| i.to_string()));
                            v.sort();
                            v
                        })
                    }
                    _ => Exp::List(ints.clone()),
                };
                (vec![format!("--select={} = v", e)], xs_input, exp)
            }
        };
        if mode == "abs" && ints.iter().any(|s| s == "-9223372036854775808") {
            return CaseResult::Discard("abs of -2^63 is arithmetic".into());
        }
        let o = run(&args, input.as_bytes());
        if !o.res.is_ok() {
            return CaseResult::Fail(format!("route {}: {}", route, o.res.short()));
        }
        let mut got = digit_runs(&o.stdout);
        let ok = match &exp {
            Exp::List(l) => &got == l,
            Exp::Multiset(m) => {
                got.sort();
                &got == m
            }
            Exp::Set(s) => {
                got.sort();
                &got == s
            }
            Exp::Cover(set, multi) => {
                got.sort();
                let mut d = got.clone();
                d.dedup();
                let mut rest = multi.clone();
                let within = got.iter().all(|g| rest.iter().position(|r| r == g).map(|p| rest.remove(p)).is_some());
                &d == set && within
            }
        };
        if !ok {
            let e = match &exp {
                Exp::List(l) | Exp::Multiset(l) | Exp::Set(l) | Exp::Cover(l, _) => l.clone(),
            };
            return CaseResult::Fail(format!("route {}: the integers in the output are {:?}, expected {:?} (input {:?}, stdout {})", route, got, e, ints, esc_trunc(&o.stdout, 300)));
        }
        let big = ints.iter().any(|s| s.trim_start_matches('-').len() >= 16);
        let neighbours = ints.iter().skip(1).any(|s| s != &ints[0] && s.parse::<i128>().ok().zip(ints[0].parse::<i128>().ok()).map(|(x, y)| (x - y).abs() <= 2 && (x as f64) == (y as f64)).unwrap_or(false));
        CaseResult::Pass(Info::new(big).class_if(neighbours, "different_integers_with_the_same_double").class_if(route.starts_with("f:"), "function_route").class_if(!route.starts_with("f:"), "pipeline_route").obs(json!({"route": route, "ints": ints})))
    }
}


// ------------------------------------------------------------------ (b) number-as-string arithmetic

#[derive(Clone, Debug, Serialize, Deserialize, PartialEq)]
pub struct NasNum {
    pub neg: bool,
    pub digits: String,
    /// digits after the decimal point
    pub scale: u32,
    pub exp: i32,
    /// spelling seed
    pub seed: u64,
}

impl NasNum {
    /// exact value = mant * 10^e10
    pub fn value(&self) -> (BigInt, i64) {
        let mut m: BigInt = self.digits.parse().unwrap();
        if self.neg {
            m = -m;
        }
        (m, self.exp as i64 - self.scale as i64)
    }
    pub fn spell(&self, variant: u64) -> String {
        let mut mix = Mix(self.seed ^ variant.wrapping_mul(0x9e3779b97f4a7c15));
        let mut digits = self.digits.clone();
        let mut scale = self.scale as usize;
        let mut exp = self.exp as i64;
        if variant > 0 {
            // same value, other spelling: move zeros between mantissa and exponent, pad
            match mix.below(4) {
                0 => {
                    let k = mix.below(4) as usize;
                    digits.push_str(&"0".repeat(k));
                    scale += k; // trailing zeros after the point
                }
                1 => {
                    let k = mix.below(5) as i64;
                    digits.push_str(&"0".repeat(k as usize));
                    exp -= k;
                }
                2 => {
                    let k = mix.below(6) as usize;
                    scale += k;
                    exp += k as i64;
                }
                _ => {}
            }
        }
        while digits.len() <= scale {
            digits.insert(0, '0');
        }
        let (ip, fp) = digits.split_at(digits.len() - scale);
        let lead = if variant > 0 { "0".repeat(mix.below(3) as usize) } else { String::new() };
        let mut s = String::new();
        // zero has two signs: the other spellings of a zero choose theirs freely
        let zero = digits.bytes().all(|c| c == b'0');
        let show_neg = if zero && variant > 0 { mix.chance(1, 2) } else { self.neg };
        if show_neg {
            s.push('-');
        } else if variant > 0 && mix.chance(1, 5) {
            // an explicit plus sign
            s.push('+');
        }
        // `.5` for `0.5`: no integer part at all (one spelling in five, when there is a fraction)
        let bare_fraction = variant > 0 && !fp.is_empty() && ip.bytes().all(|c| c == b'0') && mix.chance(1, 5);
        if !bare_fraction {
            s.push_str(&lead);
            s.push_str(ip);
        }
        if !fp.is_empty() {
            s.push('.');
            s.push_str(fp);
        }
        if exp != 0 || (variant > 0 && mix.chance(1, 4)) {
            s.push(if mix.chance(1, 2) { 'e' } else { 'E' });
            if exp >= 0 && mix.chance(1, 2) {
                s.push('+');
            }
            s.push_str(&exp.to_string());
        }
        s
    }
}

pub fn arb_nas() -> BoxedStrategy<NasNum> {
    let digits = prop_oneof![
        3 => "[1-9][0-9]{0,5}",
        3 => "[1-9][0-9]{15,40}",
        2 => "[1-9][0-9]{40,59}",
        1 => Just("0".to_string()),
        1 => "[1-9]0{1,20}",
        1 => "9{1,40}",
        // the edges of the 64-bit integers (operands a fast path would take for machine integers)
        1 => prop::sample::select(vec!["9223372036854775807", "9223372036854775808", "9223372036854775806", "18446744073709551615", "18446744073709551616", "4611686018427387904", "4294967296", "2147483648"]).prop_map(|s| s.to_string()),
    ];
    (any::<bool>(), digits, prop_oneof![3 => Just(0u32), 3 => 1u32..8, 2 => 8u32..=40], prop_oneof![4 => Just(0i32), 2 => -10i32..10, 2 => -100i32..=100], any::<u64>())
        .prop_map(|(neg, digits, scale, exp, seed)| NasNum { neg, digits, scale, exp, seed })
        .boxed()
}

/// parse a decimal string printed by jawk: -?digits(.digits)?([eE][+-]?digits)?
pub fn parse_decimal(s: &str) -> Option<(BigInt, i64)> {
    let (mant, exp) = match s.find(['e', 'E']) {
        Some(p) => (&s[..p], s[p + 1..].parse::<i64>().ok()?),
        None => (s, 0),
    };
    let (neg, mant) = match mant.strip_prefix('-') {
        Some(r) => (true, r),
        None => (false, mant),
    };
    let (ip, fp) = mant.split_once('.').unwrap_or((mant, ""));
    if ip.is_empty() && fp.is_empty() {
        return None;
    }
    if !ip.bytes().all(|c| c.is_ascii_digit()) || !fp.bytes().all(|c| c.is_ascii_digit()) {
        return None;
    }
    let mut m: BigInt = format!("{}{}", ip, fp).parse().ok()?;
    if neg {
        m = -m;
    }
    Some((m, exp - fp.len() as i64))
}

fn pow10(k: u64) -> BigInt {
    num_traits::pow(BigInt::from(10), k as usize)
}

fn align(a: &(BigInt, i64), b: &(BigInt, i64)) -> (BigInt, BigInt, i64) {
    let e = a.1.min(b.1);
    (&a.0 * pow10((a.1 - e) as u64), &b.0 * pow10((b.1 - e) as u64), e)
}

fn add(a: &(BigInt, i64), b: &(BigInt, i64)) -> (BigInt, i64) {
    let (x, y, e) = align(a, b);
    (x + y, e)
}
fn neg(a: &(BigInt, i64)) -> (BigInt, i64) {
    (-&a.0, a.1)
}
fn mul(a: &(BigInt, i64), b: &(BigInt, i64)) -> (BigInt, i64) {
    (&a.0 * &b.0, a.1 + b.1)
}
fn cmp(a: &(BigInt, i64), b: &(BigInt, i64)) -> std::cmp::Ordering {
    let (x, y, _) = align(a, b);
    x.cmp(&y)
}
fn same(a: &(BigInt, i64), b: &(BigInt, i64)) -> bool {
    cmp(a, b) == std::cmp::Ordering::Equal
}

#[derive(Clone, Debug, Serialize, Deserialize)]
pub struct CaseNas {
    pub op: String,
    pub args: Vec<NasNum>,
    /// make argument 1 numerically equal to argument 0 (other spelling)
    pub equal_pair: bool,
}

const NAS_OPS: &[&str] = &["\"+\"", "\"-\"", "\"*\"", "\"abs\"", "\"||\"", "\"=\"", "\"!=\"", "\"<\"", "\"<=\"", "\">\"", "\">=\"", "nas_add", "nas_times", "nas_minus", "nas_normelize", "\"<>\""];

pub struct C19Nas;
impl Check for C19Nas {
    type Case = CaseNas;
    fn name(&self) -> &'static str {
        "C19.nas"
    }
    fn cases(&self, tier: Tier) -> u64 {
        tier.pick(40_000, 1_500_000)
    }
    fn strategy(&self, _t: Tier) -> BoxedStrategy<CaseNas> {
        // one case in twelve: plain integers at the edges of the 64-bit range with independent
        // signs (what a fast path for machine integers would accept, and overflow on)
        let edge = (prop::sample::select(vec!["9223372036854775807", "9223372036854775808", "9223372036854775806", "18446744073709551615", "4611686018427387904", "1", "2", "4294967296", "3037000500"]), any::<bool>(), any::<u64>()).prop_map(|(d, neg, seed)| NasNum { neg, digits: d.to_string(), scale: 0, exp: 0, seed });
        let args = prop_oneof![11 => vec(arb_nas(), 1..5), 1 => vec(edge, 2..4)];
        (prop::sample::select(NAS_OPS.to_vec()), args, prop::bool::weighted(0.3)).prop_map(|(op, args, equal_pair)| CaseNas { op: op.to_string(), args, equal_pair }).boxed()
    }
    fn check(&self, c: &CaseNas) -> CaseResult {
        let canon_op = match c.op.as_str() {
            "nas_add" => "\"+\"",
            "nas_times" => "\"*\"",
            "nas_minus" => "\"-\"",
            "nas_normelize" => "\"||\"",
            "\"<>\"" => "\"!=\"",
            x => x,
        };
        let arity: usize = match canon_op {
            "\"abs\"" | "\"||\"" => 1,
            "\"-\"" => c.args.len().clamp(1, 2),
            "\"+\"" | "\"*\"" => c.args.len().clamp(2, 4),
            _ => 2,
        };
        let mut nums: Vec<NasNum> = c.args.iter().cloned().cycle().take(arity).collect();
        if c.equal_pair && arity >= 2 {
            nums[1] = nums[0].clone();
        }
        let vals: Vec<(BigInt, i64)> = nums.iter().map(|n| n.value()).collect();
        enum E {
            Num((BigInt, i64)),
            Bool(bool),
        }
        let expect = match canon_op {
            "\"+\"" => E::Num(vals.iter().skip(1).fold(vals[0].clone(), |a, b| add(&a, b))),
            "\"*\"" => E::Num(vals.iter().skip(1).fold(vals[0].clone(), |a, b| mul(&a, b))),
            "\"-\"" => E::Num(if arity == 1 { neg(&vals[0]) } else { add(&vals[0], &neg(&vals[1])) }),
            "\"abs\"" => E::Num((vals[0].0.abs(), vals[0].1)),
            "\"||\"" => E::Num(vals[0].clone()),
            "\"=\"" => E::Bool(same(&vals[0], &vals[1])),
            "\"!=\"" => E::Bool(!same(&vals[0], &vals[1])),
            "\"<\"" => E::Bool(cmp(&vals[0], &vals[1]).is_lt()),
            "\"<=\"" => E::Bool(cmp(&vals[0], &vals[1]).is_le()),
            "\">\"" => E::Bool(cmp(&vals[0], &vals[1]).is_gt()),
            _ => E::Bool(cmp(&vals[0], &vals[1]).is_ge()),
        };
        // three runs of the same operation with three spellings of every operand
        let mut results: Vec<String> = Vec::new();
        let mut exprs = Vec::new();
        for variant in 0..3u64 {
            let texts: Vec<String> = nums.iter().enumerate().map(|(i, n)| format!("\"{}\"", n.spell(if i == 1 && c.equal_pair { variant + 7 } else { variant }))).collect();
            let e = format!("({} {})", c.op, texts.join(" "));
            let o = run(&[format!("--select={} = v", e)], b"null");
            if !o.res.is_ok() {
                return CaseResult::Fail(format!("{}: {}", e, o.res.short()));
            }
            let rows = match split_rows(&o.stdout, b"\n") {
                Ok(r) => r,
                Err(m) => return CaseResult::Fail(m),
            };
            let v = rows.first().and_then(|r| r.0.get("v").cloned());
            match (&expect, v) {
                (E::Bool(b), Some(RVal::Bool(g))) if *b == g => results.push(g.to_string()),
                (E::Num(x), Some(RVal::Str(s))) => {
                    let Some(g) = parse_decimal(&s) else { return CaseResult::Fail(format!("{} = {:?} which is not a decimal string", e, s)) };
                    if !same(x, &g) {
                        return CaseResult::Fail(format!("{} = {} but the exact result is {}e{}", e, s, x.0, x.1));
                    }
                    results.push(s);
                }
                (E::Bool(b), got) => return CaseResult::Fail(format!("{} = {:?}, exact arithmetic says {}", e, got.map(|g| g.to_json()), b)),
                (E::Num(x), got) => return CaseResult::Fail(format!("{} = {:?}, exact arithmetic says {}e{}", e, got.map(|g| g.to_json()), x.0, x.1)),
            }
            exprs.push(e);
        }
        // normalise: equal values must give the same string
        if canon_op == "\"||\"" && !(results[0] == results[1] && results[1] == results[2]) {
            return CaseResult::Fail(format!("normalising three spellings of one number gives different strings: {:?} for {:?}", results, exprs));
        }
        let long = nums.iter().any(|n| n.digits.len() >= 20);
        let scales = nums.iter().map(|n| n.scale as i64 - n.exp as i64).collect::<std::collections::HashSet<_>>().len() >= 2;
        let zero = vals.iter().any(|v| v.0.is_zero());
        CaseResult::Pass(
            Info::new(long || scales)
                .class(match canon_op {
                    "\"+\"" => "add",
                    "\"*\"" => "times",
                    "\"-\"" => "minus",
                    "\"abs\"" => "abs",
                    "\"||\"" => "normalise",
                    _ => "compare",
                })
                .class_if(c.equal_pair && arity >= 2, "equal_operands_different_spelling")
                .class_if(zero, "zero_operand")
                .class_if(c.op != canon_op, "alias")
                .weight(2)
                .obs(json!({"exprs": exprs.first(), "result": results.first()})),
        )
    }
}

pub fn run_all(ctx: &mut Ctx) {
    ctx.rule = "(integers) 1..7 integers of [-2^63, 2^64) (boundaries, 2^53+-k, 2^k+-k, 10^19 neighbourhood, random 64-bit) x one of 58 non-arithmetic routes (15 pipeline routes: plain in 3 styles, select, filter on equality with the same literal, sort asc/desc, unique, group-by, merge, split-by, text, csv, skip/take; 43 function routes (on the list of all integers and on every integer on its own) such as get take sub push values entries sort map first last reverese stringify parse default if pipe set define fold zip put ...): the digit strings found in stdout must be exactly the input's (as an ordered list, or as a multiset/set where the route reorders or deduplicates). (nas) operands of up to 60 digits, scale <= 40, exponent <= +-100, each operation run with three different spellings of every operand (leading/trailing zeros, zeros moved between mantissa and exponent, e/E, an explicit + sign on the number or the exponent, a bare fraction such as .5, negative zero): the result string parsed as a decimal must equal exact big-integer arithmetic for + - * abs normalise, the six comparisons must agree with the exact order, and normalise must give the same string for all spellings. non-trivial = an integer of >= 16 digits / an operand of >= 20 digits or operands of different scales".into();
    ctx.assumptions = vec!["only digit runs are compared on the integer routes (inputs contain no other digits)".into(), "exact arithmetic by num-bigint in the harness".into()];
    C19Ints.run(ctx);
    C19Nas.run(ctx);
}

pub fn checks() -> Vec<Box<dyn DynCheck>> {
    vec![Box::new(C19Ints), Box::new(C19Nas)]
}
