//! Expression AST, printer with spellings, kinds/signatures of the jawk functions and a
//! type-directed generator driven by a choice tape (DESIGN §2.5).
//!
//! The tape (`Vec<u32>` from proptest, or fuzzer bytes) is the only source of choices; small
//! numbers / a short tape decode to simple expressions, so proptest's shrinking of the tape
//! shrinks the expression. Cases store the decoded `Expr` (readable replay files).

use crate::ftab::{FDef, FTAB};
use serde::{Deserialize, Serialize};
use std::collections::HashMap;
use std::sync::OnceLock;

#[derive(Clone, Debug, PartialEq, Serialize, Deserialize)]
pub enum Step {
    Key(String),
    Idx(usize),
}

#[derive(Clone, Debug, PartialEq, Serialize, Deserialize)]
pub enum Expr {
    /// `^`*up followed by `.k` / `#i` steps (no steps = `.`)
    Path { up: usize, steps: Vec<Step> },
    /// JSON literal (conforming text)
    Lit(String),
    /// canonical function name + arguments
    Call { f: String, args: Vec<Expr> },
    Var(String),
    Mac(String),
    Sel(String),
    /// input-context selector: `&index`, `&started-at-line-number`, ... (the name without `&`)
    Ctx(String),
}

impl Expr {
    pub fn dot() -> Expr {
        Expr::Path { up: 0, steps: vec![] }
    }
    pub fn key(up: usize, k: &str) -> Expr {
        Expr::Path { up, steps: vec![Step::Key(k.to_string())] }
    }
    pub fn lit(t: &str) -> Expr {
        Expr::Lit(t.to_string())
    }
    pub fn str_lit(s: &str) -> Expr {
        let mut t = String::new();
        crate::rjson::write_json_string_utf8(s, &mut t);
        Expr::Lit(t)
    }
    pub fn call(f: &str, args: Vec<Expr>) -> Expr {
        Expr::Call { f: f.to_string(), args }
    }
    pub fn depth(&self) -> usize {
        match self {
            Expr::Call { args, .. } => 1 + args.iter().map(|a| a.depth()).max().unwrap_or(0),
            _ => 0,
        }
    }
    pub fn size(&self) -> usize {
        match self {
            Expr::Call { args, .. } => 1 + args.iter().map(|a| a.size()).sum::<usize>(),
            _ => 1,
        }
    }
    pub fn any(&self, f: &dyn Fn(&Expr) -> bool) -> bool {
        if f(self) {
            return true;
        }
        match self {
            Expr::Call { args, .. } => args.iter().any(|a| a.any(f)),
            _ => false,
        }
    }
    pub fn uses_function(&self, names: &[&str]) -> bool {
        self.any(&|e| matches!(e, Expr::Call { f, .. } if names.contains(&f.as_str())))
    }
    pub fn uses_parent(&self) -> bool {
        self.any(&|e| matches!(e, Expr::Path { up, .. } if *up > 0))
    }
    pub fn root_function(&self) -> Option<&str> {
        match self {
            Expr::Call { f, .. } => Some(f),
            _ => None,
        }
    }
}

// ------------------------------------------------------------------ printing

/// How an expression is written. `level` 0 = canonical (canonical names, one space).
#[derive(Clone, Copy, Debug, Serialize, Deserialize, PartialEq)]
pub struct Spell {
    /// 0 canonical names; n>0: alias chosen by seed
    pub alias: bool,
    /// 0 " ", 1 ",", 2 ", ", 3 "  ", 4 "\n", 5 " , ", 6 mixed by seed
    pub sep: u8,
    /// write `(.f x)` for `(f . x)` where possible
    pub sugar: bool,
    /// padding before the closing parenthesis, as in the documented example `(get :foo "key" )`
    pub pad: bool,
    pub seed: u64,
}
impl Spell {
    pub const CANON: Spell = Spell { alias: false, sep: 0, sugar: false, pad: false, seed: 0 };
}

pub fn fdef(name: &str) -> Option<&'static FDef> {
    static M: OnceLock<HashMap<&'static str, &'static FDef>> = OnceLock::new();
    M.get_or_init(|| FTAB.iter().map(|d| (d.name, d)).collect()).get(name).copied()
}

fn key_is_plain(k: &str) -> bool {
    !k.is_empty()
        && k.bytes().all(|c| !(c.is_ascii_whitespace() || c.is_ascii_control() || matches!(c, b'.' | b',' | b'=' | b'(' | b')' | b'"' | b']' | b'[' | b'{' | b'}' | b'#' | b'^' | b'/' | b':' | b'@' | b'&')))
}

pub fn print(e: &Expr, sp: &Spell) -> String {
    let mut mix = crate::gen::Mix(sp.seed ^ 0x51ed);
    let mut out = String::new();
    print_into(e, sp, &mut mix, &mut out);
    out
}

pub fn canon(e: &Expr) -> String {
    print(e, &Spell::CANON)
}

fn sep(sp: &Spell, mix: &mut crate::gen::Mix, out: &mut String) {
    let k = if sp.sep == 6 { mix.below(6) as u8 } else { sp.sep };
    out.push_str(match k {
        0 => " ",
        1 => ",",
        2 => ", ",
        3 => "  ",
        4 => "\n",
        _ => " , ",
    });
}

fn print_into(e: &Expr, sp: &Spell, mix: &mut crate::gen::Mix, out: &mut String) {
    match e {
        Expr::Path { up, steps } => {
            for _ in 0..*up {
                out.push('^');
            }
            if steps.is_empty() {
                out.push('.');
            }
            for s in steps {
                match s {
                    Step::Key(k) => {
                        out.push('.');
                        out.push_str(k);
                    }
                    Step::Idx(i) => {
                        out.push('#');
                        out.push_str(&i.to_string());
                    }
                }
            }
        }
        Expr::Lit(t) => out.push_str(t),
        // with the sugar spelling, half of the texts write references as calls: (: "n"), (@ "m")
        Expr::Var(n) if sp.sugar && (sp.seed >> 33) & 1 == 1 => {
            out.push_str("(: ");
            out.push_str(&json_str(n));
            out.push(')');
        }
        Expr::Mac(n) if sp.sugar && (sp.seed >> 33) & 1 == 1 => {
            out.push_str("(@ ");
            out.push_str(&json_str(n));
            out.push(')');
        }
        Expr::Var(n) => {
            out.push(':');
            out.push_str(n);
        }
        Expr::Mac(n) => {
            out.push('@');
            out.push_str(n);
        }
        Expr::Sel(n) => {
            out.push('/');
            out.push_str(n);
            out.push('/');
        }
        Expr::Ctx(n) => {
            out.push('&');
            out.push_str(n);
        }
        Expr::Call { f, args } => {
            let mut name: &str = f;
            if sp.alias {
                if let Some(d) = fdef(f) {
                    let k = mix.below(d.aliases.len() as u64 + 1) as usize;
                    if k > 0 {
                        name = d.aliases[k - 1];
                    }
                }
            }
            out.push('(');
            // no blank between `(` and the function name: the documented form is `(<name> <arg>..)`
            let sugar = sp.sugar && !args.is_empty() && args[0] == Expr::dot() && mix.chance(2, 3);
            if sugar {
                out.push('.');
            }
            out.push_str(name);
            let skip = if sugar { 1 } else { 0 };
            for (i, a) in args.iter().enumerate().skip(skip) {
                if i == skip {
                    // after the name at least one whitespace or comma
                    sep(sp, mix, out);
                } else {
                    sep(sp, mix, out);
                }
                print_into(a, sp, mix, out);
            }
            if sp.pad {
                out.push(' ');
            }
            out.push(')');
        }
    }
}

/// `--select=<expr> = <name>` text (the space before `=` ends a variable/macro name)
pub fn select_arg(e: &Expr, name: &str, sp: &Spell) -> String {
    format!("--select={} = {}", print(e, sp), name)
}

// ------------------------------------------------------------------ kinds and signatures

#[derive(Clone, Copy, Debug, PartialEq, Eq, Hash, Serialize, Deserialize)]
pub enum Kind {
    Any,
    Null,
    Bool,
    Num,
    /// small non-negative integer (sizes, indices)
    Int,
    Str,
    /// number as string
    Nas,
    Regex,
    TimeFmt,
    TimeStr,
    JsonText,
    ExprText,
    B64,
    EnvName,
    Arr,
    ArrNum,
    ArrStr,
    ArrBool,
    ArrObj,
    ArrArr,
    ArrNas,
    Obj,
    ObjNum,
    ObjStr,
    /// element of `ao`: {"k": Str, "v": Num, "g": Str}
    Rec,
    /// lambda input of fold
    FoldRec,
    /// the input record (schema below)
    Record,
}
use Kind::*;

pub const CONCRETE_ARR: &[Kind] = &[ArrNum, ArrStr, ArrBool, ArrObj, ArrArr, ArrNas];
pub const CONCRETE_OBJ: &[Kind] = &[ObjNum, ObjStr, Rec];
pub const LEAF_KINDS: &[Kind] = &[Null, Bool, Num, Int, Str, Nas, ArrNum, ArrStr, ArrBool, ArrObj, ArrArr, ObjNum, ObjStr, Rec, Regex, TimeFmt, JsonText];

pub fn elem_kind(k: Kind) -> Kind {
    match k {
        ArrNum => Num,
        ArrStr => Str,
        ArrBool => Bool,
        ArrObj => Rec,
        ArrArr => ArrNum,
        ArrNas => Nas,
        _ => Any,
    }
}
pub fn val_kind(k: Kind) -> Kind {
    match k {
        ObjNum => Num,
        ObjStr => Str,
        _ => Any,
    }
}

pub fn satisfies(have: Kind, want: Kind) -> bool {
    if want == Any || have == want {
        return true;
    }
    match want {
        Arr => matches!(have, ArrNum | ArrStr | ArrBool | ArrObj | ArrArr | ArrNas),
        Obj => matches!(have, ObjNum | ObjStr | Rec | Record | FoldRec),
        Num => have == Int,
        Str => matches!(have, Nas | Regex | TimeFmt | TimeStr | JsonText | ExprText | B64 | EnvName),
        ArrStr => have == ArrNas,
        _ => false,
    }
}

/// the input record: field name -> kind
pub const RECORD: &[(&str, Kind)] = &[
    ("n", Num),
    ("m", Num),
    ("i", Int),
    ("j", Int),
    ("s", Str),
    ("t", Str),
    ("b", Bool),
    ("c", Bool),
    ("z", Null),
    ("an", ArrNum),
    ("as", ArrStr),
    ("ab", ArrBool),
    ("ao", ArrObj),
    ("aa", ArrArr),
    ("o", ObjNum),
    ("os", ObjStr),
    ("e", ArrNum),
    ("eo", ObjNum),
    ("ns", Nas),
    ("nt", Nas),
    ("ans", ArrNas),
    ("re", Regex),
    ("tf", TimeFmt),
    ("js", JsonText),
];
pub const REC: &[(&str, Kind)] = &[("k", Str), ("v", Num), ("g", Str)];
pub const FOLDREC: &[(&str, Kind)] = &[("value", Any), ("index", Int), ("so_far", Any)];

#[derive(Clone, Copy, Debug, PartialEq)]
pub enum Dot {
    /// element kind of argument 0
    Elem,
    /// member value kind of argument 0
    Val,
    /// a key (string)
    Key,
    Fold,
}

#[derive(Clone, Copy, Debug, PartialEq)]
pub enum A {
    K(Kind),
    /// lambda: required result kind, what `.` is
    Lam(Kind, Dot),
    /// same kind as the requested result kind (poly functions)
    Same,
    /// string literal naming a variable / macro (special forms)
    Name,
    /// pipe stage (`.` = previous value)
    Stage,
}

#[derive(Clone, Copy, Debug, PartialEq)]
pub enum R {
    K(Kind),
    /// whatever was requested (the `Same` arguments carry it)
    Poly,
    /// kind of argument 0
    Arg0,
    /// element kind of argument 0
    Elem0,
}

#[derive(Clone, Copy, Debug)]
pub struct Sig {
    pub f: &'static str,
    pub args: &'static [A],
    /// extra repeated arguments (0..=3 of them)
    pub var: Option<A>,
    pub ret: R,
}

macro_rules! sig {
    ($f:expr, [$($a:expr),*], $r:expr) => { Sig { f: $f, args: &[$($a),*], var: None, ret: $r } };
    ($f:expr, [$($a:expr),*], + $v:expr, $r:expr) => { Sig { f: $f, args: &[$($a),*], var: Some($v), ret: $r } };
}
use A::{Lam, Name, Same, Stage, K};

pub const SIGS: &[Sig] = &[
    // basic/collection
    sig!("get", [K(Arr), K(Int)], R::Elem0),
    sig!("get", [K(Obj), K(Str)], R::K(Any)),
    sig!("get", [K(Record), K(Str)], R::K(Any)),
    sig!("size", [K(Arr)], R::K(Int)),
    sig!("size", [K(Obj)], R::K(Int)),
    sig!("size", [K(Str)], R::K(Int)),
    sig!("sub", [K(Arr), K(Int), K(Int)], R::Arg0),
    sig!("sub", [K(Obj), K(Int), K(Int)], R::Arg0),
    sig!("sub", [K(Str), K(Int), K(Int)], R::K(Str)),
    sig!("take", [K(Arr), K(Int)], R::Arg0),
    sig!("take", [K(Obj), K(Int)], R::Arg0),
    sig!("take", [K(Str), K(Int)], R::K(Str)),
    sig!("take_last", [K(Arr), K(Int)], R::Arg0),
    sig!("take_last", [K(Obj), K(Int)], R::Arg0),
    sig!("take_last", [K(Str), K(Int)], R::K(Str)),
    // basic/flow
    sig!("?", [K(Bool), Same, Same], R::Poly),
    sig!("default", [Same], +Same, R::Poly),
    sig!("|", [K(Any), Stage], +Stage, R::K(Any)),
    // compare
    sig!("=", [K(Any), K(Any)], R::K(Bool)),
    sig!("=", [K(Num), K(Num)], R::K(Bool)),
    sig!("=", [K(Str), K(Str)], R::K(Bool)),
    sig!("!=", [K(Any), K(Any)], R::K(Bool)),
    sig!("!=", [K(Num), K(Num)], R::K(Bool)),
    sig!("<", [K(Num), K(Num)], R::K(Bool)),
    sig!("<", [K(Any), K(Any)], R::K(Bool)),
    sig!("<=", [K(Num), K(Num)], R::K(Bool)),
    sig!("<=", [K(Str), K(Str)], R::K(Bool)),
    sig!(">", [K(Num), K(Num)], R::K(Bool)),
    sig!(">", [K(Any), K(Any)], R::K(Bool)),
    sig!(">=", [K(Num), K(Num)], R::K(Bool)),
    sig!(">=", [K(Arr), K(Arr)], R::K(Bool)),
    // logical
    sig!("and", [K(Bool), K(Bool)], +K(Bool), R::K(Bool)),
    sig!("or", [K(Bool), K(Bool)], +K(Bool), R::K(Bool)),
    sig!("xor", [K(Bool), K(Bool)], R::K(Bool)),
    sig!("not", [K(Bool)], R::K(Bool)),
    // list/functional
    sig!("filter", [K(Arr), Lam(Bool, Dot::Elem)], R::Arg0),
    sig!("map", [K(Arr), Lam(Any, Dot::Elem)], R::K(Arr)),
    sig!("map", [K(Arr), Lam(Num, Dot::Elem)], R::K(ArrNum)),
    sig!("map", [K(Arr), Lam(Str, Dot::Elem)], R::K(ArrStr)),
    sig!("map", [K(Arr), Lam(Bool, Dot::Elem)], R::K(ArrBool)),
    sig!("flat_map", [K(Arr), Lam(Arr, Dot::Elem)], R::K(Arr)),
    sig!("fold", [K(Arr), Lam(Any, Dot::Fold)], R::K(Any)),
    sig!("fold", [K(Arr), K(Any), Lam(Any, Dot::Fold)], R::K(Any)),
    sig!("fold", [K(ArrNum), K(Num), Lam(Num, Dot::Fold)], R::K(Num)),
    sig!("group_by", [K(Arr), Lam(Str, Dot::Elem)], R::K(Obj)),
    sig!("sort_by", [K(Arr), Lam(Any, Dot::Elem)], R::Arg0),
    // list folding
    sig!("all", [K(ArrBool)], R::K(Bool)),
    sig!("any", [K(ArrBool)], R::K(Bool)),
    sig!("first", [K(Arr)], R::Elem0),
    sig!("last", [K(Arr)], R::Elem0),
    sig!("join", [K(ArrStr)], R::K(Str)),
    sig!("join", [K(ArrStr), K(Str)], R::K(Str)),
    sig!("sum", [K(ArrNum)], R::K(Num)),
    // list manipulations
    sig!("indexed", [K(Arr)], R::K(ArrObj)),
    sig!("pop", [K(Arr)], R::Arg0),
    sig!("pop_first", [K(Arr)], R::Arg0),
    sig!("push", [K(Arr), K(Any)], +K(Any), R::K(Arr)),
    sig!("push_front", [K(Arr), K(Any)], +K(Any), R::K(Arr)),
    sig!("reverese", [K(Arr)], R::Arg0),
    sig!("sort", [K(Arr)], R::Arg0),
    sig!("sort_unique", [K(Arr)], R::Arg0),
    // list producers
    sig!("cross", [K(Arr), K(Arr)], +K(Arr), R::K(ArrObj)),
    sig!("range", [K(Int)], R::K(ArrNum)),
    sig!("zip", [K(Arr), K(Arr)], +K(Arr), R::K(ArrObj)),
    // number
    sig!("abs", [K(Num)], R::K(Num)),
    sig!("+", [K(Num), K(Num)], +K(Num), R::K(Num)),
    sig!("ceil", [K(Num)], R::K(Num)),
    sig!("/", [K(Num), K(Num)], R::K(Num)),
    sig!("floor", [K(Num)], R::K(Num)),
    sig!("%", [K(Num), K(Num)], R::K(Num)),
    sig!("round", [K(Num)], R::K(Num)),
    sig!("-", [K(Num)], R::K(Num)),
    sig!("-", [K(Num), K(Num)], R::K(Num)),
    sig!("*", [K(Num), K(Num)], +K(Num), R::K(Num)),
    // number as string
    sig!("\"abs\"", [K(Nas)], R::K(Nas)),
    sig!("\"+\"", [K(Nas), K(Nas)], +K(Nas), R::K(Nas)),
    sig!("\"/\"", [K(Nas), K(Nas)], R::K(Nas)),
    sig!("\"||\"", [K(Nas)], R::K(Nas)),
    sig!("\"%\"", [K(Nas), K(Nas)], R::K(Nas)),
    sig!("\"round\"", [K(Nas)], R::K(Nas)),
    sig!("\"-\"", [K(Nas)], R::K(Nas)),
    sig!("\"-\"", [K(Nas), K(Nas)], R::K(Nas)),
    sig!("\"*\"", [K(Nas), K(Nas)], +K(Nas), R::K(Nas)),
    sig!("\"=\"", [K(Nas), K(Nas)], R::K(Bool)),
    sig!("\">\"", [K(Nas), K(Nas)], R::K(Bool)),
    sig!("\">=\"", [K(Nas), K(Nas)], R::K(Bool)),
    sig!("\"<\"", [K(Nas), K(Nas)], R::K(Bool)),
    sig!("\"<=\"", [K(Nas), K(Nas)], R::K(Bool)),
    sig!("\"!=\"", [K(Nas), K(Nas)], R::K(Bool)),
    sig!("\"sort_by\"", [K(Arr), Lam(Nas, Dot::Elem)], R::Arg0),
    // object
    sig!("filter_keys", [K(Obj), Lam(Bool, Dot::Key)], R::Arg0),
    sig!("filter_values", [K(Obj), Lam(Bool, Dot::Val)], R::Arg0),
    sig!("map_keys", [K(Obj), Lam(Str, Dot::Key)], R::Arg0),
    sig!("map_values", [K(Obj), Lam(Any, Dot::Val)], R::K(Obj)),
    sig!("insert_if_absent", [K(Obj), K(Str), K(Any)], R::K(Obj)),
    sig!("put", [K(Obj), K(Str), K(Any)], R::K(Obj)),
    sig!("replace_if_exists", [K(Obj), K(Str), K(Any)], R::K(Obj)),
    sig!("entries", [K(Obj)], R::K(ArrObj)),
    sig!("keys", [K(Obj)], R::K(ArrStr)),
    sig!("values", [K(Obj)], R::K(Arr)),
    sig!("sort_by_keys", [K(Obj)], R::Arg0),
    sig!("sort_by_values", [K(Obj)], R::Arg0),
    sig!("sort_by_values_by", [K(Obj), Lam(Any, Dot::Val)], R::Arg0),
    // string
    sig!("base63_decode", [K(B64)], R::K(Str)),
    sig!("concat", [K(Str), K(Str)], +K(Str), R::K(Str)),
    sig!("env", [K(EnvName)], R::K(Str)),
    sig!("head", [K(Str), K(Int)], R::K(Str)),
    sig!("parse", [K(JsonText)], R::K(Any)),
    sig!("parse_selection", [K(ExprText)], R::K(Any)),
    sig!("stringify", [K(Any)], R::K(JsonText)),
    sig!("extract_regex_group", [K(Str), K(Regex), K(Int)], R::K(Str)),
    sig!("match", [K(Str), K(Regex)], R::K(Bool)),
    sig!("split", [K(Str), K(Str)], R::K(ArrStr)),
    sig!("tail", [K(Str), K(Int)], R::K(Str)),
    // time
    sig!("format_time", [K(Num), K(TimeFmt)], R::K(TimeStr)),
    sig!("parse_time", [K(TimeStr), K(TimeFmt)], R::K(Num)),
    sig!("parse_time_with_zone", [K(TimeStr), K(TimeFmt)], R::K(Num)),
    // the clock (impure: only checks that judge no value use it - C05)
    sig!("now", [], R::K(Num)),
    // type group
    sig!("as_array", [K(Arr)], R::Arg0),
    sig!("as_boolean", [K(Bool)], R::K(Bool)),
    sig!("as_number", [K(Num)], R::K(Num)),
    sig!("as_object", [K(Obj)], R::Arg0),
    sig!("as_string", [K(Str)], R::K(Str)),
    sig!("array?", [K(Any)], R::K(Bool)),
    sig!("bool?", [K(Any)], R::K(Bool)),
    sig!("empty?", [K(Any)], R::K(Bool)),
    sig!("null?", [K(Any)], R::K(Bool)),
    sig!("number?", [K(Any)], R::K(Bool)),
    sig!("object?", [K(Any)], R::K(Bool)),
    sig!("string?", [K(Any)], R::K(Bool)),
    // variables (special forms: handled by the generator)
    sig!("@", [Name], R::K(Any)),
    sig!("define", [Name, Same, Same], R::Poly),
    sig!(":", [Name], R::K(Any)),
    sig!("set", [Name, K(Any), Same], R::Poly),
];

pub const IMPURE: &[&str] = &["exec", "trigger", "now"];

/// indices of the signatures of pure functions, grouped by function (for stratified roots)
pub fn pure_function_names() -> Vec<&'static str> {
    FTAB.iter().map(|d| d.name).filter(|n| !IMPURE.contains(n)).collect()
}

pub fn sigs_of(name: &str) -> Vec<usize> {
    SIGS.iter().enumerate().filter(|(_, s)| s.f == name).map(|(i, _)| i).collect()
}

// ------------------------------------------------------------------ tape

pub struct Tape<'a> {
    t: &'a [u32],
    pub pos: usize,
}
impl<'a> Tape<'a> {
    pub fn new(t: &'a [u32]) -> Self {
        Tape { t, pos: 0 }
    }
    pub fn next(&mut self) -> u32 {
        let v = self.t.get(self.pos).copied().unwrap_or(0);
        self.pos += 1;
        v
    }
    pub fn exhausted(&self) -> bool {
        self.pos >= self.t.len()
    }
    /// monotone: small tape values give small indices
    pub fn below(&mut self, n: usize) -> usize {
        if n <= 1 {
            return 0;
        }
        ((self.next() as u64 * n as u64) >> 32) as usize
    }
    /// true with probability num/den; a zero tape value gives false
    pub fn chance(&mut self, num: usize, den: usize) -> bool {
        self.below(den) >= den - num.min(den)
    }
    pub fn pick<'b, T>(&mut self, v: &'b [T]) -> &'b T {
        &v[self.below(v.len())]
    }
    pub fn pick_s(&mut self, v: &[&'static str]) -> &'static str {
        v[self.below(v.len())]
    }
}

// ------------------------------------------------------------------ literals

// the first 12 are the ASCII set; punctuation that an option parser, a shell-like splitter or a
// delimiter feature could treat specially sits in both halves
pub const STR_ATOMS_BMP: &[&str] = &[
    "a", "b", "c", "ab", "A", "1", "2", "10", " ", ",", "-", ";", "a ", "\u{e9}", "\u{65e5}\u{672c}", "\"", "\\", "\n", "\t", "/", "\u{7f}", "\u{1}", "\u{ffff}", "\u{5d0}", "=", "|", "&", "'", "$", "%", "#", "@", ":", "(", ")", "[", "{", "}", "*", "?", "<", ">", "~", "`", "!", "^", "+", ".",
    "--", " = ",
];
pub const STR_ATOMS_ASTRAL: &[&str] = &["\u{1f603}", "\u{10000}", "\u{10ffff}"];
pub const NUM_LITS: &[&str] = &[
    "0", "1", "2", "3", "-1", "10", "5", "7", "-7", "4", "100", "0.5", "1.5", "-0.5", "2.25", "0.25", "-2.5", "3.75", "1000", "0.1", "0.2", "3.14", "1e3", "2.5e-1", "1E2", "12.0", "-0.0", "1e10", "9007199254740991", "-9007199254740991",
    "9007199254740993", "9223372036854775807", "-9223372036854775808", "18446744073709551615", "1e200", "-1e200", "1.7976931348623157e308", "5e-324", "1e-200", "123456789.125",
];
pub const NAS_LITS: &[&str] = &[
    "\"0\"", "\"1\"", "\"2\"", "\"3\"", "\"-1\"", "\"10\"", "\"7\"", "\"-7\"", "\"2.5\"", "\"7.5\"", "\"0.1\"", "\"0.2\"", "\"1.50\"", "\"007\"", "\"1e2\"", "\"1E-3\"", "\"100\"", "\"1E+8\"", "\"100000000\"", "\"-0.5\"", "\"10.5\"", "\"-10.5\"", "\"10.3\"",
    "\"123456789012345678901234567890\"", "\"0.000000000000000000000000000001\"", "\"1e100\"", "\"-1e-100\"", "\"99999999999999999999.99999999999999999999\"", "\"1e999\"", "\"00000.5\"", "\"abc\"", "\"\"", "\"1 \"", "\"0x10\"", "\"1e\"",
];
pub const REGEX_LITS: &[&str] = &[
    "\"a \"", "\" a\"", "\"A\"", "\"ba\"", "\"a\"", "\"a+\"", "\"[a-c]+\"", "\"(a|b)c\"", "\"^a\"", "\"b$\"", "\"([0-9]+)-([a-z]+)\"", "\".\"", "\"\"", "\"a*\"", "\"\\\\d+\"", "\"(?i)A\"", "\"(a)(b)?\"", "\"[0-9\"", "\"(\"", "\"\u{e9}+\"", "\"(x)|(y)\"", "\"^$\"", "\"\\\\s\"", "\"[^a]\"", "\"*\"", "\"a{2}\"",
];
pub const TIMEFMT_LITS: &[&str] = &["\"%Y-%m-%d\"", "\"%H:%M:%S\"", "\"%s\"", "\"%Y\"", "\"%%\"", "\"%Y-%m-%dT%H:%M:%S\"", "\"%d/%m/%y\"", "\"%Q\"", "\"%\"", "\"\"", "\"%j\"", "\"%a %b %e\"", "\"%Y-%m-%d %H:%M:%S %z\"", "\"%T\"", "\"%v\"", "\"%.3f\"", "\"x\"", "\"%e%\"", "\"%-d\"", "\"%5Y\"", "\"%:z\"", "\"%+\""];
pub const TIMESTR_LITS: &[&str] = &["\"2023-12-03\"", "\"13:51:55\"", "\"1701611515\"", "\"2023\"", "\"2023-12-03T13:51:55\"", "\"03/12/23\"", "\"2023-12-03 13:51:55 +0500\"", "\"\"", "\"x\"", "\"1970-01-01T00:00:00\"", "\"2024-02-29\"", "\"2023-02-29\"", "\"9999-12-31\"", "\"%\""];
pub const JSONTEXT_LITS: &[&str] = &["\"[1, 2]\"", "\"{\\\"a\\\":1}\"", "\"\\\"x\\\"\"", "\" 12 \"", "\"tru\"", "\"1 2\"", "\"\"", "\"{\\\"a\\\":}\"", "\"[1,[2,{\\\"b\\\":null}]]\"", "\"1e2\"", "\"null\"", "\"-\"", "\"[\"", "\"\\\"\u{e9}\\\"\"", "\"18446744073709551615\"", "\"0.5\"", "\"+5\"", "\"+0012\"", "\"007\"", "\"1.\"", "\".5\"", "\"0x10\"", "\"1e\"", "\"NaN\"", "\"Infinity\"", "\"--1\"", "\"1_000\"", "\" 5 \"", "\"\u{661}\u{662}\"", "\"\u{ff15}\"", "\"5 \"", "\"-\"", "\"+\"", "\"01\"", "\"-01\"", "\"1e+\"", "\"tRue\"", "\"True\"", "\"nul\"", "\"'a'\"", "\"'[1, 2]'\"", "\"'5'\""];
pub const EXPRTEXT_LITS: &[&str] = &["\"(+ 10 11)\"", "\".\"", "\".n\"", "\"(len .)\"", "\"(\"", "\"(nosuch 1)\"", "\"1\"", "\"\\\"a\\\"\"", "\"(+ 1\"", "\"^.n\"", "\"(+ 1 2) x\"", "\"\"", "\"(len)\"", "\":v\"", "\"(map .an (+ . 1))\"", "\"(take .s 1)\"", "\"(+ 10 11) junk\"", "\"(+ 10 11))\"", "\".n junk\"", "\"12 13\"", "\"[1,2]]\"", "\"(+ 10 11) = total\"", "\"#99999999999999999999\"", "\".an#18446744073709551616\"", "\"#18446744073709551615\"", "\"\'(+ 10 11)\'\"", "\"\'.n\'\"", "\"/s0\""];
pub const B64_LITS: &[&str] = &["\"dGVzdA==\"", "\"\"", "\"YQ==\"", "\"w6k=\"", "\"wyg=\"", "\"test\"", "\"dGVzdA\"", "\"!!!!\"", "\"YWI=\"", "\"YWJj\"", "\"/w==\"", "\"Y Q = =\"", "\"YR==\""];
pub const ENVNAME_LITS: &[&str] = &["\"JV_TEST_ENV\"", "\"JV_NO_SUCH_VARIABLE\"", "\"\"", "\"A=B\"", "\"HOME\""];
pub const GROUP_KEYS: &[&str] = &["\"x\"", "\"y\"", "\"\"", "\"x\"", "\"z\""];

#[derive(Clone, Copy, Debug, PartialEq, Eq, Serialize, Deserialize)]
pub enum Chars {
    Ascii,
    Bmp,
    Full,
}

#[derive(Clone, Debug)]
pub struct GenCfg {
    /// probability (per 16) that a requested kind is replaced by a random one (ill-typed)
    pub ill: usize,
    pub chars: Chars,
    /// allow set/define/:v/@m
    pub bindings: bool,
    /// numbers restricted to exactly representable small values (C04) or everything (C05)
    pub wild_numbers: bool,
    /// exclude these functions
    pub exclude: Vec<&'static str>,
    /// max number of elements in generated literal collections
    pub max_coll: usize,
    /// prefer bound variables / macros at leaves (C12)
    pub bind_bias: bool,
    /// prefer `.` as the first argument where its kind fits (so that `(.f x)` sugar applies)
    pub dot_bias: bool,
    /// deepest `^` the generator may write (usize::MAX = whatever the chain offers)
    pub max_up: usize,
    /// allow input-context selectors (&index, &started-at-line-number, ...) as leaves
    pub ctx: bool,
}
impl Default for GenCfg {
    fn default() -> Self {
        GenCfg { ill: 3, chars: Chars::Bmp, bindings: true, wild_numbers: false, exclude: vec!["exec", "trigger", "now"], max_coll: 4, bind_bias: false, dot_bias: false, max_up: usize::MAX, ctx: false }
    }
}

#[derive(Clone, Debug, Default)]
pub struct Env {
    /// kinds of `.`, `^`, `^^`, ...
    pub chain: Vec<Kind>,
    pub vars: Vec<(String, Kind)>,
    pub macros: Vec<(String, Kind)>,
    pub sels: Vec<(String, Kind)>,
}
impl Env {
    pub fn top() -> Env {
        Env { chain: vec![Record], ..Default::default() }
    }
    pub fn with_dot(&self, k: Kind) -> Env {
        let mut e = self.clone();
        e.chain.insert(0, k);
        e
    }
}

pub struct Gen<'a> {
    pub tape: Tape<'a>,
    pub cfg: GenCfg,
    fresh: usize,
}

fn json_str(s: &str) -> String {
    let mut t = String::new();
    crate::rjson::write_json_string_utf8(s, &mut t);
    t
}

impl<'a> Gen<'a> {
    pub fn new(t: &'a [u32], cfg: GenCfg) -> Self {
        Gen { tape: Tape::new(t), cfg, fresh: 0 }
    }

    fn random_kind(&mut self) -> Kind {
        *self.tape.pick(LEAF_KINDS)
    }

    pub fn str_text(&mut self) -> String {
        let n = [0usize, 1, 1, 2, 2, 3, 4, 6][self.tape.below(8)];
        let mut s = String::new();
        for _ in 0..n {
            match self.cfg.chars {
                Chars::Ascii => s.push_str(self.tape.pick_s(&STR_ATOMS_BMP[..12])),
                Chars::Bmp => s.push_str(self.tape.pick_s(STR_ATOMS_BMP)),
                Chars::Full => {
                    if self.tape.chance(1, 6) {
                        s.push_str(self.tape.pick_s(STR_ATOMS_ASTRAL))
                    } else {
                        s.push_str(self.tape.pick_s(STR_ATOMS_BMP))
                    }
                }
            }
        }
        s
    }

    fn num_lit(&mut self) -> String {
        if self.cfg.wild_numbers {
            self.tape.pick(NUM_LITS).to_string()
        } else {
            self.tape.pick(&NUM_LITS[..34]).to_string()
        }
    }

    fn int_lit(&mut self) -> String {
        let v: &[&str] = if self.cfg.wild_numbers { &["0", "1", "2", "3", "4", "5", "6", "7", "100", "10000", "1.0", "2.5", "-1", "4294967296", "18446744073709551615", "1e18"] } else { &["0", "1", "2", "3", "4", "5", "6", "7", "100", "1.0", "2.5", "-1"] };
        self.tape.pick(v).to_string()
    }

    /// An argument that decides an allocation size (`range` N, `sub` length): resource
    /// exhaustion is outside the properties' domain, so only small literals, the small-integer
    /// record fields, `(size x)` of a generated collection or an ill-typed literal are used.
    fn size_arg(&mut self, env: &Env) -> Expr {
        match self.tape.below(8) {
            0..=3 => Expr::Lit(self.tape.pick_s(&["0", "1", "2", "3", "4", "5", "8", "1.0", "2.5", "-1", "-0.0"]).to_string()),
            4 | 5 => {
                let c: Vec<Expr> = env.chain.iter().enumerate().filter(|(_, k)| **k == Record).flat_map(|(up, _)| vec![Expr::key(up, "i"), Expr::key(up, "j")]).collect();
                if c.is_empty() {
                    Expr::Lit("2".into())
                } else {
                    c[self.tape.below(c.len())].clone()
                }
            }
            6 => Expr::call("size", vec![Expr::Lit(self.lit(Arr, 1))]),
            _ => {
                let k = *self.tape.pick(&[Null, Bool, Str, ArrNum]);
                Expr::Lit(self.lit(k, 0))
            }
        }
    }

    fn list_of(&mut self, k: Kind, depth: u32) -> String {
        let n = self.tape.below(self.cfg.max_coll + 1);
        let items: Vec<String> = (0..n).map(|_| self.lit(k, depth)).collect();
        format!("[{}]", items.join(","))
    }

    fn obj_of(&mut self, k: Kind, depth: u32) -> String {
        let n = self.tape.below(self.cfg.max_coll + 1);
        let mut keys: Vec<String> = Vec::new();
        let mut items = Vec::new();
        for _ in 0..n {
            let key = if self.tape.chance(1, 4) { self.str_text() } else { self.tape.pick(&["a", "b", "c", "aa", "k", "z", "\u{e9}"]).to_string() };
            if keys.contains(&key) {
                continue;
            }
            keys.push(key.clone());
            // mixed objects: half of the members are "empty-ish" values (null, false, 0, "", [], {})
            let v = if k == Any && self.tape.chance(1, 2) { self.tape.pick_s(&["null", "null", "false", "0", "\"\"", "[]", "{}", "true"]).to_string() } else { self.lit(k, depth) };
            items.push(format!("{}:{}", json_str(&key), v));
        }
        format!("{{{}}}", items.join(","))
    }

    /// a JSON literal text of the kind
    pub fn lit(&mut self, k: Kind, depth: u32) -> String {
        let d = depth.saturating_sub(1);
        match k {
            Any => {
                let k2 = if depth == 0 { *self.tape.pick(&[Null, Bool, Num, Str]) } else { self.random_kind() };
                self.lit(k2, d)
            }
            Null => "null".into(),
            Bool => self.tape.pick(&["false", "true"]).to_string(),
            Num => self.num_lit(),
            Int => self.int_lit(),
            Str => {
                let s = self.str_text();
                json_str(&s)
            }
            Nas => self.tape.pick(NAS_LITS).to_string(),
            Regex => self.tape.pick(REGEX_LITS).to_string(),
            TimeFmt => self.tape.pick(TIMEFMT_LITS).to_string(),
            TimeStr => self.tape.pick(TIMESTR_LITS).to_string(),
            JsonText => self.tape.pick(JSONTEXT_LITS).to_string(),
            ExprText => self.tape.pick(EXPRTEXT_LITS).to_string(),
            B64 => self.tape.pick(B64_LITS).to_string(),
            EnvName => self.tape.pick(ENVNAME_LITS).to_string(),
            Arr => {
                if self.tape.chance(1, 5) {
                    // mixed array
                    let n = self.tape.below(self.cfg.max_coll + 1);
                    let items: Vec<String> = (0..n).map(|_| self.lit(Any, d)).collect();
                    format!("[{}]", items.join(","))
                } else {
                    let k2 = *self.tape.pick(CONCRETE_ARR);
                    self.lit(k2, depth)
                }
            }
            ArrNum => self.list_of(Num, d),
            ArrStr => self.list_of(Str, d),
            ArrBool => self.list_of(Bool, d),
            ArrObj => self.list_of(Rec, d),
            ArrArr => self.list_of(ArrNum, d),
            ArrNas => self.list_of(Nas, d),
            Obj => {
                if self.tape.chance(1, 2) {
                    // members of mixed types incl. null, false and nested empties
                    self.obj_of(Any, d)
                } else {
                    let k2 = *self.tape.pick(CONCRETE_OBJ);
                    self.lit(k2, depth)
                }
            }
            ObjNum => self.obj_of(Num, d),
            ObjStr => self.obj_of(Str, d),
            Rec => {
                let mut items = Vec::new();
                if !self.tape.chance(1, 8) {
                    items.push(format!("\"k\":{}", self.lit(Str, 0)));
                }
                if !self.tape.chance(1, 8) {
                    items.push(format!("\"v\":{}", self.lit(Num, 0)));
                }
                if !self.tape.chance(1, 8) {
                    items.push(format!("\"g\":{}", self.tape.pick(GROUP_KEYS)));
                }
                format!("{{{}}}", items.join(","))
            }
            FoldRec => format!("{{\"value\":{},\"index\":{}}}", self.lit(Any, 0), self.int_lit()),
            Record => self.record(),
        }
    }

    /// the input record: every schema field present with probability 7/8; 1/12 of the present
    /// ones carry a value of a random other kind
    pub fn record(&mut self) -> String {
        let mut items = Vec::new();
        for (name, kind) in RECORD {
            if self.tape.chance(1, 8) {
                continue;
            }
            // i and j stay small integers: they are the only paths allowed to reach `range` / `sub`
            let k = if *kind != Int && self.tape.chance(1, 12) { self.random_kind() } else { *kind };
            let v = match *name {
                "e" => "[]".to_string(),
                "eo" => "{}".to_string(),
                // the only paths allowed to decide an allocation size: always small
                "i" | "j" => self.tape.pick_s(&["0", "1", "2", "3", "4", "5", "7", "1.0", "2.5", "-1"]).to_string(),
                _ => self.lit(k, 2),
            };
            items.push(format!("\"{}\":{}", name, v));
        }
        format!("{{{}}}", items.join(","))
    }

    fn fresh_name(&mut self, prefix: &str) -> String {
        self.fresh += 1;
        // names may repeat on purpose (shadowing)
        // among them names a convenience feature might claim for itself inside map / fold bodies
        let pool = ["v", "w", "x", "foo", "v1", "index", "value", "key", "item", "acc", "so_far", "i", "it", "self"];
        if self.tape.chance(1, 3) {
            format!("{}{}", prefix, self.fresh)
        } else {
            self.tape.pick(&pool).to_string()
        }
    }

    /// candidate paths of `want` kind in the environment
    fn paths(&self, want: Kind, env: &Env) -> Vec<Expr> {
        let mut v = Vec::new();
        for (up, k) in env.chain.iter().enumerate() {
            if up > self.cfg.max_up {
                break;
            }
            if *k != Record && *k != Any && satisfies(*k, want) && !(want == Any && up > 0) {
                v.push(Expr::Path { up, steps: vec![] });
            }
            let fields: &[(&str, Kind)] = match k {
                Record => RECORD,
                Rec => REC,
                FoldRec => FOLDREC,
                _ => &[],
            };
            for (name, fk) in fields {
                if satisfies(*fk, want) {
                    v.push(Expr::Path { up, steps: vec![Step::Key(name.to_string())] });
                }
                if *k == Record && want != Any && satisfies(elem_kind(*fk), want) && elem_kind(*fk) != Any {
                    v.push(Expr::Path { up, steps: vec![Step::Key(name.to_string()), Step::Idx(0)] });
                    v.push(Expr::Path { up, steps: vec![Step::Key(name.to_string()), Step::Idx(1)] });
                }
            }
        }
        v
    }

    fn leaf(&mut self, want: Kind, env: &Env) -> Expr {
        let mut cands: Vec<Expr> = self.paths(want, env);
        if self.cfg.bind_bias && (!env.vars.is_empty() || !env.macros.is_empty() || !env.sels.is_empty()) && self.tape.chance(1, 3) {
            let n = env.vars.len() + env.macros.len() + env.sels.len();
            let i = self.tape.below(n);
            return if i < env.vars.len() {
                Expr::Var(env.vars[i].0.clone())
            } else if i < env.vars.len() + env.macros.len() {
                let m = Expr::Mac(env.macros[i - env.vars.len()].0.clone());
                // now and then the macro is used under a rebinding of a variable it may read
                if !env.vars.is_empty() && self.tape.chance(1, 3) {
                    let (vn, vk) = env.vars[self.tape.below(env.vars.len())].clone();
                    let l = self.lit(vk, 1);
                    Expr::call("set", vec![Expr::Lit(json_str(&vn)), Expr::Lit(l), m])
                } else {
                    m
                }
            } else {
                Expr::Sel(env.sels[i - env.vars.len() - env.macros.len()].0.clone())
            };
        }
        for (n, k) in &env.vars {
            if satisfies(*k, want) {
                cands.push(Expr::Var(n.clone()));
            }
        }
        for (n, k) in &env.macros {
            if satisfies(*k, want) {
                cands.push(Expr::Mac(n.clone()));
            }
        }
        for (n, k) in &env.sels {
            if satisfies(*k, want) {
                cands.push(Expr::Sel(n.clone()));
            }
        }
        if self.cfg.ctx && matches!(want, Int | Num | Any | Str) && self.tape.chance(1, 7) {
            let n = if want == Str { "file-name" } else { self.tape.pick_s(&["index", "index-in-file", "started-at-line-number", "started-at-char-number", "ended-at-line-number", "ended-at-char-number"]) };
            return Expr::Ctx(n.to_string());
        }
        // choice 0 = literal (simplest)
        let lit_w = if cands.is_empty() { 1 } else { 2 };
        let c = self.tape.below(lit_w + 3);
        if c < lit_w || cands.is_empty() {
            if self.tape.chance(1, 24) {
                // an absent path / unknown variable: "nothing"
                return match self.tape.below(3) {
                    0 => Expr::key(0, "nosuch"),
                    // never bound - also when the process environment has a variable of that name
                    1 => Expr::Var(self.tape.pick_s(&["unbound", "JV_TEST_ENV", "HOME", "PATH"]).to_string()),
                    _ => Expr::Path { up: 0, steps: vec![Step::Idx(99)] },
                };
            }
            Expr::Lit(self.lit(want, 2))
        } else {
            let i = self.tape.below(cands.len());
            cands.swap_remove(i)
        }
    }

    fn candidates(&self, want: Kind) -> Vec<usize> {
        SIGS.iter()
            .enumerate()
            .filter(|(_, s)| {
                if self.cfg.exclude.contains(&s.f) {
                    return false;
                }
                if !self.cfg.bindings && matches!(s.f, "set" | "define" | ":" | "@") {
                    return false;
                }
                match s.ret {
                    R::K(k) => satisfies(k, want) || (k == Any && want != Any),
                    R::Poly => true,
                    R::Arg0 => match s.args[0] {
                        K(k0) => satisfies(k0, want) || satisfies(want, k0),
                        _ => false,
                    },
                    R::Elem0 => true,
                }
            })
            .map(|(i, _)| i)
            .collect()
    }

    pub fn expr(&mut self, want: Kind, depth: u32, env: &Env) -> Expr {
        let mut want = want;
        if self.tape.chance(self.cfg.ill, 16) {
            want = self.random_kind();
        }
        if depth == 0 || !self.tape.chance(11, 16) {
            return self.leaf(want, env);
        }
        let c = self.candidates(want);
        if c.is_empty() {
            return self.leaf(want, env);
        }
        let si = c[self.tape.below(c.len())];
        self.call_sig(si, want, depth, env)
    }

    /// Build a call of signature `si` whose result should be of kind `want`.
    pub fn call_sig(&mut self, si: usize, want: Kind, depth: u32, env: &Env) -> Expr {
        let s = &SIGS[si];
        let d = depth.saturating_sub(1);
        // special forms
        match s.f {
            "set" => {
                let name = self.fresh_name("v");
                let vk = self.random_kind();
                let val = self.expr(vk, d.min(2), env);
                let mut e2 = env.clone();
                e2.vars.push((name.clone(), vk));
                let body = self.expr(want, d, &e2);
                return Expr::call("set", vec![Expr::Lit(json_str(&name)), val, body]);
            }
            "define" => {
                let name = self.fresh_name("m");
                let mk = if self.tape.chance(1, 2) { want } else { self.random_kind() };
                // a macro that shadows an existing one gets a macro-free body: with jawk's
                // use-site evaluation anything else could be (mutually) recursive, which is
                // resource exhaustion and outside every property's domain
                let mbody = if env.macros.iter().any(|m| m.0 == name) {
                    let mut e0 = env.clone();
                    e0.macros.clear();
                    self.expr(mk, d.min(2), &e0)
                } else {
                    self.expr(mk, d.min(2), env)
                };
                // never a macro that names itself (by @name or by (@ "name") with a literal that
                // happens to spell the name): unbounded recursion is resource exhaustion
                let own = json_str(&name);
                let mbody = if mbody.any(&|x| matches!(x, Expr::Mac(n) if *n == name) || matches!(x, Expr::Call { f, args } if f == "@" && matches!(args.first(), Some(Expr::Lit(t)) if *t == own))) { Expr::Lit(self.lit(mk, 1)) } else { mbody };
                let mut e2 = env.clone();
                e2.macros.push((name.clone(), mk));
                let body = self.expr(want, d, &e2);
                return Expr::call("define", vec![Expr::Lit(json_str(&name)), mbody, body]);
            }
            ":" | "@" => {
                let pool: Vec<String> = if s.f == ":" { env.vars.iter().map(|v| v.0.clone()).collect() } else { env.macros.iter().map(|v| v.0.clone()).collect() };
                let name = if pool.is_empty() || self.tape.chance(1, 6) { self.tape.pick_s(&["unbound", "JV_TEST_ENV", "HOME", "PATH"]).to_string() } else { pool[self.tape.below(pool.len())].clone() };
                let arg = if self.tape.chance(1, 10) { Expr::Lit(self.lit(Any, 1)) } else { Expr::Lit(json_str(&name)) };
                return Expr::call(s.f, vec![arg]);
            }
            _ => {}
        }
        // time parsing: half of the time a string and a format that belong together
        if matches!(s.f, "parse_time" | "parse_time_with_zone") && self.tape.chance(1, 2) {
            let zone = s.f == "parse_time_with_zone";
            let y = [1970, 1999, 2000, 2023, 2024, 2038, 2100][self.tape.below(7)];
            let (m, dd) = [(1, 1), (2, 28), (2, 29), (3, 1), (12, 31), (6, 15), (12, 3)][self.tape.below(7)];
            let (hh, mi, ss) = [(0, 0, 0), (23, 59, 59), (13, 51, 55), (12, 0, 0)][self.tape.below(4)];
            let frac = if !zone && self.tape.chance(1, 2) { self.tape.pick_s(&[".5", ".25", ".360", ".360367", ".000001", ".999999", ".1"]) } else { "" };
            let t = if zone {
                let z = self.tape.pick_s(&["+0000", "+0500", "-0330", "+1400", "-1200", "+0545"]);
                format!("\"{:04}-{:02}-{:02} {:02}:{:02}:{:02} {}\"", y, m, dd, hh, mi, ss, z)
            } else {
                format!("\"{:04}-{:02}-{:02}T{:02}:{:02}:{:02}{}\"", y, m, dd, hh, mi, ss, frac)
            };
            let fm = if zone { "\"%Y-%m-%d %H:%M:%S %z\"" } else if frac.is_empty() { "\"%Y-%m-%dT%H:%M:%S\"" } else { "\"%Y-%m-%dT%H:%M:%S%.f\"" };
            return Expr::call(s.f, vec![Expr::Lit(t), Expr::Lit(fm.to_string())]);
        }
        // concretise argument 0 when it is a generic collection, so lambdas know their `.`
        let mut arg_kinds: Vec<A> = s.args.to_vec();
        if let Some(v) = s.var {
            let extra = self.tape.below(4);
            for _ in 0..extra {
                arg_kinds.push(v);
            }
        }
        let mut k0 = match arg_kinds.first() {
            Some(K(k)) => *k,
            _ => Any,
        };
        if s.ret == R::Arg0 && want != Any && satisfies(want, k0) {
            k0 = want;
        }
        if s.ret == R::Elem0 && want != Any {
            if let Some(a) = CONCRETE_ARR.iter().find(|a| satisfies(elem_kind(**a), want)) {
                if k0 == Arr {
                    k0 = *a;
                }
            }
        }
        if k0 == Arr {
            k0 = *self.tape.pick(CONCRETE_ARR);
        } else if k0 == Obj && !self.tape.chance(1, 3) {
            // (one time in three the object stays generic: members of mixed types incl. null)
            k0 = *self.tape.pick(CONCRETE_OBJ);
        }
        let mut args = Vec::new();
        let mut prev_kind = Any;
        // Below a number-as-string function no string is glued together: (concat "1e" "999999999")
        // is a decimal with an exponent of 10^9, whose arithmetic is resource exhaustion (the
        // properties bound decimal exponents by 10^3)
        let nas_guard = s.f.starts_with('"') && !self.cfg.exclude.contains(&"concat");
        if nas_guard {
            self.cfg.exclude.push("concat");
            self.cfg.exclude.push("join");
        }
        let args_result = (|| {
        for (i, a) in arg_kinds.iter().enumerate() {
            if (s.f == "range" && i == 0) || (s.f == "sub" && i == 2) {
                args.push(self.size_arg(env));
                continue;
            }
            let e = match a {
                K(k) => {
                    let k = if i == 0 { k0 } else { *k };
                    // the list a fold runs over stays a literal or a record field (<= a handful of
                    // elements): a lambda may double `so_far` in every step (push [] .so_far .so_far,
                    // stringify of the fold record), which is exponential in the list length -
                    // resource exhaustion, outside every property's domain
                    // (cross ..) multiplies the lengths of its arguments: they stay literals or fields too
                    if (s.f == "fold" && i == 0) || s.f == "cross" {
                        let x = self.leaf(k, env);
                        prev_kind = k;
                        args.push(x);
                        continue;
                    }
                    let dot_fits = i == 0 && self.cfg.dot_bias && env.chain.first().map(|c| *c != Any && satisfies(*c, k)).unwrap_or(false);
                    let mut x = if dot_fits && self.tape.chance(1, 2) { Expr::dot() } else { self.expr(k, d, env) };
                    // keys that exist: the key argument of get / put / insert_if_absent / replace_if_exists
                    if k == Str && i == 1 && matches!(s.f, "get" | "put" | "insert_if_absent" | "replace_if_exists") && self.tape.chance(1, 2) {
                        if let Some(Expr::Lit(t)) = args.first() {
                            if let Ok(crate::rjson::RVal::Obj(o)) = crate::rjson::parse_one(t.as_bytes()) {
                                if !o.is_empty() {
                                    let key = o[self.tape.below(o.len())].0.clone();
                                    x = Expr::Lit(json_str(&key));
                                }
                            }
                        }
                    }
                    // boundary-biased sizes: N around the size of a literal collection
                    if k == Int && i > 0 && self.tape.chance(1, 3) {
                        if let Some(Expr::Lit(t)) = args.first() {
                            if let Ok(v) = crate::rjson::parse_one(t.as_bytes()) {
                                let n = match &v {
                                    crate::rjson::RVal::Arr(a) => a.len(),
                                    crate::rjson::RVal::Obj(o) => o.len(),
                                    crate::rjson::RVal::Str(s) => s.chars().count(),
                                    _ => 0,
                                };
                                let b = [n.saturating_sub(1), n, n + 1][self.tape.below(3)];
                                x = Expr::Lit(b.to_string());
                            }
                        }
                    }
                    prev_kind = k;
                    x
                }
                Same => {
                    let x = self.expr(want, d, env);
                    prev_kind = want;
                    x
                }
                Lam(rk, dot) => {
                    let dk = match dot {
                        Dot::Elem => elem_kind(k0),
                        Dot::Val => val_kind(k0),
                        Dot::Key => Str,
                        Dot::Fold => FoldRec,
                    };
                    let e2 = env.with_dot(dk);
                    let rk = if *rk == Any && want != Any && self.tape.chance(1, 2) { elem_kind(want) } else { *rk };
                    self.expr(rk, d, &e2)
                }
                Stage => {
                    let e2 = env.with_dot(prev_kind);
                    let k = if i + 1 == arg_kinds.len() { want } else { self.random_kind() };
                    prev_kind = k;
                    self.expr(k, d, &e2)
                }
                Name => Expr::Lit("\"x\"".into()),
            };
            args.push(e);
        }
        })();
        let _ = args_result;
        if nas_guard {
            self.cfg.exclude.retain(|x| *x != "concat" && *x != "join");
        }
        Expr::call(s.f, args)
    }
}

/// the first signature index of every function name (None for impure ones without a signature)
pub fn check_table() -> Vec<String> {
    let mut errs = Vec::new();
    for d in FTAB {
        if IMPURE.contains(&d.name) && d.name != "now" {
            continue;
        }
        let ss = sigs_of(d.name);
        if ss.is_empty() {
            errs.push(format!("no signature for {}", d.name));
        }
        for i in ss {
            let s = &SIGS[i];
            let n = s.args.len();
            if n < d.min || n > d.max {
                errs.push(format!("signature {} of {} has {} args, function takes {}..{}", i, d.name, n, d.min, d.max));
            }
            if s.var.is_some() && d.max < n + 3 {
                errs.push(format!("signature {} of {} is variadic, function takes at most {}", i, d.name, d.max));
            }
        }
    }
    for s in SIGS {
        if fdef(s.f).is_none() {
            errs.push(format!("signature for unknown function {}", s.f));
        }
    }
    errs
}

#[cfg(test)]
mod tests {
    use super::*;
    #[test]
    fn table_is_consistent() {
        assert_eq!(check_table(), Vec::<String>::new());
    }
    #[test]
    fn zero_tape_is_a_leaf() {
        let t = vec![0u32; 4];
        let mut g = Gen::new(&t, GenCfg::default());
        let e = g.expr(Num, 4, &Env::top());
        assert_eq!(e.depth(), 0);
    }
}
