//! C10 --unique.

use crate::engine::*;
use crate::runner::*;
use crate::univ::*;
use proptest::collection::vec;
use proptest::prelude::*;
use serde::{Deserialize, Serialize};
use serde_json::json;

#[derive(Clone, Debug, Serialize, Deserialize)]
pub struct Case10 {
    /// number of selections (0 = the input value itself is the row)
    pub cols: usize,
    /// rows x max(cols,1) cells; None = absent (only with cols > 0)
    pub cells: Vec<Vec<Option<usize>>>,
}

fn lines(b: &[u8]) -> Vec<&[u8]> {
    let mut v: Vec<&[u8]> = b.split(|c| *c == b'\n').collect();
    if v.last().map(|l| l.is_empty()).unwrap_or(false) {
        v.pop();
    }
    v
}

pub fn run_equality(ctx: &mut Ctx) {
    // "two values are duplicates exactly when the = function says they are equal": the = matrix
    // must be an equivalence that agrees with the reference equality (part of check_axioms)
    let name = "C10.equality";
    match fetch_matrices() {
        Err(e) => ctx.violation(name, &json!({"universe": universe_array_text()}), &e),
        Ok(mx) => {
            let errs: Vec<String> = check_axioms(&mx).into_iter().filter(|e| e.contains("=")).collect();
            let n = mx.n;
            let st = ctx.stats.entry(name.to_string()).or_default();
            st.evaluations += (n * n) as u64;
            for i in 0..n {
                for j in 0..n {
                    if i != j && mx.m[4][i][j] == Some(true) {
                        st.nontrivial_hashes.insert((i * n + j) as u64);
                    }
                }
            }
            st.exhaustive = Some(format!("all {}^2 pairs of the universe for =", n));
            st.samples.push((0, json!({"check": name, "case": {"universe_size": n}, "observed": "= matrix from jawk; equal pairs with different texts counted as non-trivial"})));
            if !errs.is_empty() {
                ctx.violation(name, &json!({"universe": universe_array_text()}), &errs.iter().take(5).cloned().collect::<Vec<_>>().join(" | "));
            }
        }
    }
}

pub struct C10Unique;
impl Check for C10Unique {
    type Case = Case10;
    fn name(&self) -> &'static str {
        "C10.unique"
    }
    fn cases(&self, tier: Tier) -> u64 {
        tier.pick(40_000, 800_000)
    }
    fn strategy(&self, _t: Tier) -> BoxedStrategy<Case10> {
        let n = UNIVERSE.len();
        (0usize..=3, vec(0..n, 1..5), any::<u64>(), vec(vec((0u32..10, any::<u16>()), 3), 0..=40))
            .prop_map(|(cols, base, bits, rows)| {
                // add differently spelled equals of the pool members (generation-time bias only)
                let u = universe_vals();
                let mut pool = base.clone();
                let mut k = 0;
                for b in &base {
                    for j in 0..u.len() {
                        if j != *b && ref_eq(&u[*b], &u[j]) {
                            if (bits >> (k % 64)) & 1 == 1 {
                                pool.push(j);
                            }
                            k += 1;
                        }
                    }
                }
                let width = cols.max(1);
                let cells = rows
                    .iter()
                    .map(|r| r.iter().take(width).map(|(a, p)| if cols > 0 && *a < 2 { None } else { Some(pool[pick_idx(*p, pool.len())]) }).collect())
                    .collect();
                Case10 { cols, cells }
            })
            .boxed()
    }
    fn check(&self, case: &Case10) -> CaseResult {
        let ord = order();
        let mut input = String::new();
        for r in &case.cells {
            if case.cols == 0 {
                input.push_str(UNIVERSE[r[0].unwrap_or(0)]);
            } else {
                let members: Vec<String> = r.iter().enumerate().filter_map(|(c, v)| v.map(|u| format!("\"c{}\":{}", c, UNIVERSE[u]))).collect();
                input.push_str(&format!("{{{}}}", members.join(",")));
            }
            input.push('\n');
        }
        let mut args: Vec<String> = (0..case.cols).map(|c| format!("--select=.c{}=c{}", c, c)).collect();
        let plain = run(&args, input.as_bytes());
        args.push("--unique".into());
        let uniq = run(&args, input.as_bytes());
        if !plain.res.is_ok() || !uniq.res.is_ok() {
            return CaseResult::Fail(format!("jawk failed: {} / {}", plain.res.short(), uniq.res.short()));
        }
        let all = lines(&plain.stdout);
        if all.len() != case.cells.len() {
            return CaseResult::Fail(format!("{} rows for {} inputs without --unique", all.len(), case.cells.len()));
        }
        let same = |x: &Vec<Option<usize>>, y: &Vec<Option<usize>>| x.iter().zip(y.iter()).all(|(a, b)| match (a, b) { (None, None) => true, (Some(p), Some(q)) => ord.eq[*p][*q], _ => false });
        let mut keep: Vec<usize> = Vec::new();
        let mut textual_dup = false;
        for i in 0..case.cells.len() {
            match keep.iter().find(|k| same(&case.cells[**k], &case.cells[i])) {
                Some(k) => {
                    if case.cells[*k] != case.cells[i] {
                        textual_dup = true;
                    }
                }
                None => keep.push(i),
            }
        }
        let exp: Vec<&[u8]> = keep.iter().map(|i| all[*i]).collect();
        let got = lines(&uniq.stdout);
        let removed = case.cells.len() - keep.len();
        let same_type_distinct = keep.len() >= 2;
        let info = Info::new(textual_dup && same_type_distinct)
            .class(["no_selection", "one_selection", "two_selections", "three_selections"][case.cols])
            .class_if(textual_dup, "duplicate_with_different_spelling")
            .class_if(case.cells.iter().any(|r| r.iter().any(|c| c.is_none())), "absent_selection")
            .class_if(removed > 0, "something_removed")
            .obs(json!({"rows": case.cells.len(), "kept": keep.len(), "stdout": esc_trunc(&uniq.stdout, 300)}));
        if got != exp {
            return CaseResult::Fail(format!(
                "--unique output is not the first-occurrence filter of the plain output: expected rows {:?} ({}), got {}",
                keep,
                esc_trunc(&exp.join(&b"\n"[..]), 300),
                esc_trunc(&uniq.stdout, 300)
            ));
        }
        CaseResult::Pass(info)
    }
}

pub fn run_all(ctx: &mut Ctx) {
    ctx.rule = "C10.equality: jawk's = matrix over the whole universe must be an equivalence and agree with structural/numeric equality (exhaustive over pairs). C10.unique: 0..40 rows whose 0..3 selected values come from a per-case pool of 1..6 universe values (numerically equal spellings, escape variants, nested equal collections) or are absent; oracle: output with --unique = first-occurrence filter of the output without it under jawk's own = relation per selected value (absent only equals absent). non-trivial = at least one removed duplicate whose text differs from its first occurrence and >= 2 kept rows".into();
    ctx.assumptions = vec!["universe excludes -0 and member-order permutations (quantifier)".into()];
    run_equality(ctx);
    C10Unique.run(ctx);
}

pub fn checks() -> Vec<Box<dyn DynCheck>> {
    vec![Box::new(C10Unique)]
}
