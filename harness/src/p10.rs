//! C10 --unique.

use crate::engine::*;
use crate::rjson::parse_one;
use crate::runner::*;
use crate::univ::*;
use proptest::collection::vec;
use proptest::prelude::*;
use serde::{Deserialize, Serialize};
use serde_json::json;

#[derive(Clone, Debug, Serialize, Deserialize)]
pub struct Case10 {
    /// number of selections (0 = the input value itself is the row)
    pub cols: usize,
    /// rows x max(cols,1) cells; None = absent (only with cols > 0)
    pub cells: Vec<Vec<Option<usize>>>,
}

fn lines(b: &[u8]) -> Vec<&[u8]> {
    let mut v: Vec<&[u8]> = b.split(|c| *c == b'\n').collect();
    if v.last().map(|l| l.is_empty()).unwrap_or(false) {
        v.pop();
    }
    v
}

pub fn run_equality(ctx: &mut Ctx) {
    // "two values are duplicates exactly when the = function says they are equal": the = matrix
    // must be an equivalence that agrees with the reference equality (part of check_axioms)
    let name = "C10.equality";
    match fetch_matrices() {
        Err(e) => ctx.violation(name, &json!({"universe": universe_array_text()}), &e),
        Ok(mx) => {
            let errs: Vec<String> = check_axioms(&mx).into_iter().filter(|e| e.contains("=")).collect();
            let n = mx.n;
            let st = ctx.stats.entry(name.to_string()).or_default();
            st.evaluations += (n * n) as u64;
            for i in 0..n {
                for j in 0..n {
                    if i != j && mx.m[4][i][j] == Some(true) {
                        st.nontrivial_hashes.insert((i * n + j) as u64);
                    }
                }
            }
            st.exhaustive = Some(format!("all {}^2 pairs of the universe for =", n));
            st.samples.push((0, json!({"check": name, "case": {"universe_size": n}, "observed": "= matrix from jawk; equal pairs with different texts counted as non-trivial"})));
            if !errs.is_empty() {
                ctx.violation(name, &json!({"universe": universe_array_text()}), &errs.iter().take(5).cloned().collect::<Vec<_>>().join(" | "));
            }
        }
    }
}

pub struct C10Unique;
impl Check for C10Unique {
    type Case = Case10;
    fn name(&self) -> &'static str {
        "C10.unique"
    }
    fn cases(&self, tier: Tier) -> u64 {
        tier.pick(40_000, 800_000)
    }
    fn strategy(&self, _t: Tier) -> BoxedStrategy<Case10> {
        let n = UNIVERSE.len();
        (0usize..=3, vec(0..n, 1..5), any::<u64>(), vec(vec((0u32..10, any::<u16>()), 3), 0..=40))
            .prop_map(|(cols, base, bits, rows)| {
                // add differently spelled equals of the pool members (generation-time bias only)
                let u = universe_vals();
                let mut pool = base.clone();
                let mut k = 0;
                for b in &base {
                    for j in 0..u.len() {
                        if j != *b && ref_eq(&u[*b], &u[j]) {
                            if (bits >> (k % 64)) & 1 == 1 {
                                pool.push(j);
                            }
                            k += 1;
                        }
                    }
                }
                let width = cols.max(1);
                let cells = rows
                    .iter()
                    .map(|r| r.iter().take(width).map(|(a, p)| if cols > 0 && *a < 2 { None } else { Some(pool[pick_idx(*p, pool.len())]) }).collect())
                    .collect();
                Case10 { cols, cells }
            })
            .boxed()
    }
    fn check(&self, case: &Case10) -> CaseResult {
        let ord = order();
        let mut input = String::new();
        for r in &case.cells {
            if case.cols == 0 {
                input.push_str(UNIVERSE[r[0].unwrap_or(0)]);
            } else {
                let members: Vec<String> = r.iter().enumerate().filter_map(|(c, v)| v.map(|u| format!("\"c{}\":{}", c, UNIVERSE[u]))).collect();
                input.push_str(&format!("{{{}}}", members.join(",")));
            }
            input.push('\n');
        }
        let mut args: Vec<String> = (0..case.cols).map(|c| format!("--select=.c{}=c{}", c, c)).collect();
        let plain = run(&args, input.as_bytes());
        args.push("--unique".into());
        let uniq = run(&args, input.as_bytes());
        if !plain.res.is_ok() || !uniq.res.is_ok() {
            return CaseResult::Fail(format!("jawk failed: {} / {}", plain.res.short(), uniq.res.short()));
        }
        let all = lines(&plain.stdout);
        if all.len() != case.cells.len() {
            return CaseResult::Fail(format!("{} rows for {} inputs without --unique", all.len(), case.cells.len()));
        }
        let same = |x: &Vec<Option<usize>>, y: &Vec<Option<usize>>| x.iter().zip(y.iter()).all(|(a, b)| match (a, b) { (None, None) => true, (Some(p), Some(q)) => ord.eq[*p][*q], _ => false });
        let mut keep: Vec<usize> = Vec::new();
        let mut textual_dup = false;
        for i in 0..case.cells.len() {
            match keep.iter().find(|k| same(&case.cells[**k], &case.cells[i])) {
                Some(k) => {
                    if case.cells[*k] != case.cells[i] {
                        textual_dup = true;
                    }
                }
                None => keep.push(i),
            }
        }
        let exp: Vec<&[u8]> = keep.iter().map(|i| all[*i]).collect();
        let got = lines(&uniq.stdout);
        let removed = case.cells.len() - keep.len();
        let same_type_distinct = keep.len() >= 2;
        let info = Info::new(textual_dup && same_type_distinct)
            .class(["no_selection", "one_selection", "two_selections", "three_selections"][case.cols])
            .class_if(textual_dup, "duplicate_with_different_spelling")
            .class_if(case.cells.iter().any(|r| r.iter().any(|c| c.is_none())), "absent_selection")
            .class_if(removed > 0, "something_removed")
            .obs(json!({"rows": case.cells.len(), "kept": keep.len(), "stdout": esc_trunc(&uniq.stdout, 300)}));
        if got != exp {
            return CaseResult::Fail(format!(
                "--unique output is not the first-occurrence filter of the plain output: expected rows {:?} ({}), got {}",
                keep,
                esc_trunc(&exp.join(&b"\n"[..]), 300),
                esc_trunc(&uniq.stdout, 300)
            ));
        }
        CaseResult::Pass(info)
    }
}

// ---------------------------------------------------------------- big near-duplicates, repeated titles, many rows

/// Values that are large and differ from each other only at the very end (so anything that
/// compares or hashes a prefix, a digest or a truncated key confuses them), selections that
/// share a title, and runs of thousands of rows (growth of the set of seen rows).
#[derive(Clone, Debug, Serialize, Deserialize)]
pub struct Case10W {
    pub cols: usize,
    /// 0 = distinct titles, 1 = all selections share one title, 2 = the first two share one
    pub titles: u8,
    pub csv: bool,
    /// explicit rows: per cell (family, member, spelling); None = absent
    pub rows: Vec<Vec<Option<(u8, u8, u8)>>>,
    /// Some((n, seed)): n rows derived from the seed instead of `rows`
    pub many: Option<(u32, u64)>,
    /// with selections only: 1 = --sort-by .s, 2 = --sort-by .s DESC, where .s is a member of
    /// the input that is not selected (duplicates are removed before the sort sees the rows)
    #[serde(default)]
    pub sort: u8,
}

pub const FAMILIES: u8 = 10;
pub const MEMBERS: u8 = 3;

/// text of member `m` of family `f` in spelling `sp` (spellings denote the same value)
pub fn near_dup(f: u8, m: u8, sp: u8) -> String {
    let tail = ["y", "z", "w"][m as usize % 3];
    let x0 = if sp % 2 == 1 { "\\u0078" } else { "x" };
    match f % FAMILIES {
        0 => format!("\"{}{}{}\"", x0, "x".repeat(63), tail),
        1 => format!("\"{}{}{}\"", x0, "ab".repeat(120), tail),
        2 => format!("[{}{}]", if sp % 2 == 1 { "1.0," } else { "1," }.repeat(30), m),
        3 => format!("{{\"a\":{{\"b\":{{\"c\":[1,2,{{\"d\":{}}}]}}}}}}", if sp % 2 == 1 { format!("{}.0", m) } else { format!("{}", m) }),
        4 => format!("{{{}\"last\":{}}}", (0..12).map(|i| format!("\"m{}\":{},", i, i)).collect::<String>(), if sp % 2 == 1 { format!("{}e0", m) } else { format!("{}", m) }),
        5 => format!("[\"{}\",\"{}{}{}\"]", "q".repeat(80), x0, "x".repeat(70), tail),
        6 => format!("\"{}{}{}\"", x0, "x".repeat(63), ["", "yy", "yyy"][m as usize % 3]),
        7 => ["1", "\"1\"", "true"][m as usize % 3].to_string() + if sp % 2 == 1 && m % 3 == 0 { ".0" } else { "" },
        // the same members and values in the same order, nested differently (a digest that
        // does not mark where an object ends cannot tell the first two apart)
        8 => ["{\"a\":{\"b\":1}}", "{\"a\":{},\"b\":1}", "{\"a\":{\"b\":{}}}"][m as usize % 3].replace(":1", if sp % 2 == 1 { ":1.0" } else { ":1" }),
        _ => format!("[[[[[[[[{}]]]]]]]]", if sp % 2 == 1 { format!("{}.00", m) } else { format!("{}", m) }),
    }
}

pub struct C10Wide;
impl C10Wide {
    fn cells(c: &Case10W) -> Vec<Vec<Option<(u8, u8, u8)>>> {
        match c.many {
            None => c.rows.clone(),
            Some((n, seed)) => {
                let mut x = seed | 1;
                let mut next = || {
                    x ^= x << 13;
                    x ^= x >> 7;
                    x ^= x << 17;
                    x
                };
                (0..n)
                    .map(|_| {
                        (0..c.cols.max(1))
                            .map(|_| {
                                let h = next();
                                if c.cols > 0 && h % 11 == 0 {
                                    None
                                } else {
                                    Some((((h >> 8) % FAMILIES as u64) as u8, ((h >> 16) % MEMBERS as u64) as u8, ((h >> 24) % 2) as u8))
                                }
                            })
                            .collect()
                    })
                    .collect()
            }
        }
    }
}
impl Check for C10Wide {
    type Case = Case10W;
    fn name(&self) -> &'static str {
        "C10.unique_wide"
    }
    fn cases(&self, tier: Tier) -> u64 {
        tier.pick(12_000, 300_000)
    }
    fn strategy(&self, t: Tier) -> BoxedStrategy<Case10W> {
        let max_many: u32 = t.pick(5_000, 70_000);
        let cell = (0u8..12, 0u8..FAMILIES, 0u8..MEMBERS, 0u8..2);
        let explicit = (0usize..=3, 0u8..3, prop::bool::weighted(0.25), vec(0u8..FAMILIES, 1..3), vec(vec(cell, 3), 0..=40)).prop_map(|(cols, titles, csv, fams, rows)| {
            let width = cols.max(1);
            let rows = rows.iter().map(|r| r.iter().take(width).map(|(a, f, m, sp)| if cols > 0 && *a < 2 { None } else { Some((fams[*f as usize % fams.len()], *m, *sp)) }).collect()).collect();
            Case10W { cols, titles, csv: csv && cols > 0, rows, many: None, sort: 0 }
        });
        let many = (0usize..=2, 0u8..3, prop::bool::weighted(0.2), prop_oneof![40 => 1_000u32..max_many, 1 => 65_530u32..70_000], any::<u64>()).prop_map(|(cols, titles, csv, n, seed)| Case10W { cols, titles, csv: csv && cols > 0, rows: vec![], many: Some((n, seed)), sort: 0 });
        (prop_oneof![60 => explicit, 1 => many], 0u8..6).prop_map(|(mut c, s)| {
            if c.cols > 0 && s < 3 {
                c.sort = s;
            }
            c
        }).boxed()
    }
    fn check(&self, case: &Case10W) -> CaseResult {
        let cells = Self::cells(case);
        let mut input = String::new();
        let skey = |i: usize| (i * 7 + 3) % 4;
        for (ri, r) in cells.iter().enumerate() {
            if case.cols == 0 {
                let (f, m, sp) = r[0].unwrap_or((0, 0, 0));
                input.push_str(&near_dup(f, m, sp));
            } else {
                let mut members: Vec<String> = r.iter().enumerate().filter_map(|(c, v)| v.map(|(f, m, sp)| format!("\"c{}\":{}", c, near_dup(f, m, sp)))).collect();
                members.push(format!("\"s\":{}", skey(ri)));
                input.push_str(&format!("{{{}}}", members.join(",")));
            }
            input.push('\n');
        }
        let title = |c: usize| match case.titles {
            1 => "t".to_string(),
            2 if c < 2 => "t".to_string(),
            _ => format!("c{}", c),
        };
        let mut args: Vec<String> = (0..case.cols).map(|c| format!("--select=.c{}={}", c, title(c))).collect();
        if case.csv {
            args.push("--output-style=csv".into());
        }
        let plain = run(&args, input.as_bytes());
        args.push("--unique".into());
        let sorting = case.cols > 0 && case.sort > 0;
        if sorting {
            args.push(if case.sort == 2 { "--sort-by=.s=DESC".to_string() } else { "--sort-by=.s".to_string() });
        }
        let uniq = run(&args, input.as_bytes());
        if !plain.res.is_ok() || !uniq.res.is_ok() {
            return CaseResult::Fail(format!("jawk failed: {} / {} (args {:?})", plain.res.short(), uniq.res.short(), args));
        }
        let mut all = lines(&plain.stdout);
        let mut got = lines(&uniq.stdout);
        if case.csv {
            // the header row comes first in both runs
            if all.is_empty() || got.is_empty() || all[0] != got[0] {
                return CaseResult::Fail(format!("csv header differs or is missing with --unique (args {:?}): {} vs {}", args, esc_trunc(&plain.stdout, 100), esc_trunc(&uniq.stdout, 100)));
            }
            all.remove(0);
            got.remove(0);
        }
        if all.len() != cells.len() {
            return CaseResult::Fail(format!("{} rows for {} inputs without --unique (args {:?})", all.len(), cells.len(), args));
        }
        // equal = same family and member in every column (absent only equals absent)
        let key = |r: &Vec<Option<(u8, u8, u8)>>| -> Vec<Option<(u8, u8)>> { r.iter().map(|c| c.map(|(f, m, _)| if f % FAMILIES == 7 { (f, m % 3) } else { (f, m) })).collect() };
        let mut seen: std::collections::HashSet<Vec<Option<(u8, u8)>>> = std::collections::HashSet::new();
        let mut keep: Vec<usize> = Vec::new();
        let mut respelled = false;
        let mut first_text: std::collections::HashMap<Vec<Option<(u8, u8)>>, usize> = std::collections::HashMap::new();
        for (i, r) in cells.iter().enumerate() {
            let k = key(r);
            if seen.insert(k.clone()) {
                keep.push(i);
                first_text.insert(k, i);
            } else if cells[first_text[&k]] != *r {
                respelled = true;
            }
        }
        if sorting {
            // the survivors (first occurrences in arrival order) are then sorted, stably
            if case.sort == 2 {
                keep.sort_by_key(|i| std::cmp::Reverse(skey(*i)));
            } else {
                keep.sort_by_key(|i| skey(*i));
            }
        }
        let exp: Vec<&[u8]> = keep.iter().map(|i| all[*i]).collect();
        let near = keep.iter().any(|i| keep.iter().any(|j| i != j && cells[*i].iter().zip(cells[*j].iter()).any(|(a, b)| matches!((a, b), (Some(x), Some(y)) if x.0 == y.0 && x.1 != y.1))));
        let removed = cells.len() - keep.len();
        if got != exp {
            let first = got.iter().zip(exp.iter()).position(|(a, b)| a != b).unwrap_or(got.len().min(exp.len()));
            return CaseResult::Fail(format!(
                "--unique output is not the first-occurrence filter of the plain output (args {:?}, {} input rows): expected {} rows, got {}; first difference at output row {}: got {} expected {}",
                args,
                cells.len(),
                exp.len(),
                got.len(),
                first,
                got.get(first).map(|l| esc_trunc(l, 160)).unwrap_or_default(),
                exp.get(first).map(|l| esc_trunc(l, 160)).unwrap_or_default()
            ));
        }
        CaseResult::Pass(
            Info::new(removed > 0 && near)
                .class(["no_selection", "one_selection", "two_selections", "three_selections"][case.cols])
                .class_if(case.titles > 0 && case.cols >= 2, "selections_share_a_title")
                .class_if(case.csv, "csv")
                .class_if(sorting, "sorted_by_a_member_that_is_not_selected")
                .class_if(respelled, "duplicate_with_different_spelling")
                .class_if(near, "near_duplicates_both_kept")
                .class_if(case.many.is_some(), "thousands_of_rows")
                .class_if(cells.len() > 65_536, "more_than_65536_rows")
                .obs(json!({"rows": cells.len(), "kept": keep.len()})),
        )
    }
}

// ---------------------------------------------------------------- computed values

/// Rows whose selected value is computed: the same number reached by different routes (3 as
/// itself, as (ceil 2.5), as (+ 2.5 0.5), as (/ 6 2), as (parse "3.0")) is one value for `=`
/// and must be one value for --unique, whatever representation the route left behind.
#[derive(Clone, Debug, Serialize, Deserialize)]
pub struct Case10C {
    pub expr: u8,
    pub inputs: Vec<u8>,
    pub second_column: bool,
}

const COMPUTED: &[&str] = &["(ceil .)", "(floor .)", "(round .)", "(+ . 0.5)", "(- . 0.5)", "(* . 2)", "(/ . 0.5)", "(abs .)", "(parse (stringify .))", "(+ . 0)", "(sum (push [] . 0.5 0.5))", "(% . 4)", "(size (range (floor .)))", "(get (push [] .) 0)"];
const COMPUTED_INPUTS: &[&str] = &["0", "1", "2", "3", "4", "6", "0.5", "1.5", "2.5", "3.5", "2.2", "2.8", "3.0", "1e0", "25e-1", "5", "7.5", "8"];

pub struct C10Computed;
impl Check for C10Computed {
    type Case = Case10C;
    fn name(&self) -> &'static str {
        "C10.unique_computed"
    }
    fn cases(&self, tier: Tier) -> u64 {
        tier.pick(8_000, 200_000)
    }
    fn strategy(&self, _t: Tier) -> BoxedStrategy<Case10C> {
        (0..COMPUTED.len() as u8, vec(0..COMPUTED_INPUTS.len() as u8, 0..24), any::<bool>()).prop_map(|(expr, inputs, second_column)| Case10C { expr, inputs, second_column }).boxed()
    }
    fn check(&self, c: &Case10C) -> CaseResult {
        let input: String = c.inputs.iter().map(|i| format!("{}\n", COMPUTED_INPUTS[*i as usize % COMPUTED_INPUTS.len()])).collect();
        let mut args = vec![format!("--select={} = v", COMPUTED[c.expr as usize % COMPUTED.len()])];
        if c.second_column {
            args.push("--select=(string? .) = s".into());
        }
        args.push("--style=consise".into());
        let plain = run(&args, input.as_bytes());
        args.push("--unique".into());
        let uniq = run(&args, input.as_bytes());
        if !plain.res.is_ok() || !uniq.res.is_ok() {
            return CaseResult::Fail(format!("jawk failed: {} / {} (args {:?})", plain.res.short(), uniq.res.short(), args));
        }
        // equal rows = equal printed value (numbers by value)
        let key = |l: &[u8]| -> String {
            match parse_one(l) {
                Ok(v) => match v.get("v") {
                    Some(x) if x.is_num() => format!("n{:?}", x.as_f64().unwrap()),
                    Some(x) => x.to_json(),
                    None => "absent".into(),
                },
                Err(_) => String::from_utf8_lossy(l).to_string(),
            }
        };
        let all = lines(&plain.stdout);
        let mut seen = std::collections::HashSet::new();
        let exp: Vec<&[u8]> = all.iter().copied().filter(|l| seen.insert(key(l))).collect();
        let got = lines(&uniq.stdout);
        if got != exp {
            return CaseResult::Fail(format!("--unique over computed values keeps {} rows, {} distinct values were printed without it: {} vs {} (args {:?}, input {})", got.len(), exp.len(), esc_trunc(&uniq.stdout, 200), esc_trunc(&exp.join(&b"\n"[..]), 200), args, esc_trunc(input.as_bytes(), 120)));
        }
        CaseResult::Pass(Info::new(exp.len() >= 2 && exp.len() < all.len()).class_if(c.second_column, "two_columns").obs(json!({"rows": all.len(), "kept": exp.len()})))
    }
}

/// More distinct rows than any fixed-size memory of --unique would hold (2^16 and a bit), then
/// repeats of early, middle and late rows: every repeat is removed, every first occurrence kept.
#[derive(Clone, Debug, Serialize, Deserialize)]
pub struct CaseManyDistinct {
    pub distinct: u32,
    pub through_split: bool,
}
pub struct C10ManyDistinct;
impl Check for C10ManyDistinct {
    type Case = CaseManyDistinct;
    fn name(&self) -> &'static str {
        "C10.many_distinct"
    }
    fn cases(&self, _t: Tier) -> u64 {
        0
    }
    fn strategy(&self, _t: Tier) -> BoxedStrategy<CaseManyDistinct> {
        Just(CaseManyDistinct { distinct: 70_000, through_split: false }).boxed()
    }
    fn check(&self, c: &CaseManyDistinct) -> CaseResult {
        let n = c.distinct as usize;
        let repeats: Vec<usize> = vec![0, 1, 2, 255, 256, 32_767, 32_768, 65_534, 65_535, 65_536, 65_537, n - 1, 0, n / 2].into_iter().filter(|x| *x < n).collect();
        let mut vals: Vec<String> = (0..n).map(|i| if i % 3 == 0 { format!("{{\"id\":{}}}", i) } else if i % 3 == 1 { format!("\"s{}\"", i) } else { i.to_string() }).collect();
        let firsts = vals.clone();
        for r in &repeats {
            vals.push(firsts[*r].clone());
        }
        let (input, args): (String, Vec<String>) = if c.through_split { (format!("[{}]", vals.join(",")), vec!["--split-by=.".into(), "--unique".into(), "--style=consise".into()]) } else { (vals.join("\n"), vec!["--unique".into(), "--style=consise".into()]) };
        let o = run(&args, input.as_bytes());
        if !o.res.is_ok() {
            return CaseResult::Fail(format!("run failed: {}", o.res.short()));
        }
        let rows: Vec<&[u8]> = o.stdout.split(|b| *b == b'\n').filter(|l| !l.is_empty()).collect();
        if rows.len() != n {
            let extra: Vec<String> = rows.iter().skip(n).take(5).map(|l| esc_trunc(l, 40)).collect();
            return CaseResult::Fail(format!("{} distinct rows followed by {} repeats: --unique printed {} rows (after the first {}: {:?})", n, repeats.len(), rows.len(), n, extra));
        }
        for (i, (r, f)) in rows.iter().zip(firsts.iter()).enumerate() {
            if *r != f.as_bytes() {
                return CaseResult::Fail(format!("row {} is {} instead of {}", i, esc_trunc(r, 60), f));
            }
        }
        CaseResult::Pass(Info::new(true).class("more_than_65536_distinct_rows").class_if(c.through_split, "rows_from_one_split_value").obs(json!({"distinct": n, "repeats": repeats.len()})))
    }
}

pub fn run_all(ctx: &mut Ctx) {
    ctx.rule = "C10.equality: jawk's = matrix over the whole universe must be an equivalence and agree with structural/numeric equality (exhaustive over pairs). C10.unique: 0..40 rows whose 0..3 selected values come from a per-case pool of 1..6 universe values (numerically equal spellings, escape variants, nested equal collections) or are absent; oracle: output with --unique = first-occurrence filter of the output without it under jawk's own = relation per selected value (absent only equals absent). non-trivial = at least one removed duplicate whose text differs from its first occurrence and >= 2 kept rows. C10.unique_wide: rows whose 0..3 selected values are large near-duplicates (ten families: 65- and 241-character strings, objects with the same members nested differently, 31-element arrays, 13-member objects, depth-8 nesting, each with three members that differ only at the very end, and two spellings per member), selections that share a title, JSON or csv output, optionally --sort-by on a member that is not selected (the survivors are the first occurrences in arrival order, then sorted), 0..40 explicit rows or 1000..5000 (70000 thorough) rows derived from a seed; oracle: first-occurrence filter of the plain output under equality by (family, member) per column; non-trivial = something was removed and two kept rows differ only in the tail of a value. C10.unique_computed: 0..23 numbers from a pool of 18 (whole and fractional, several spellings) through one of 14 arithmetic / conversion expressions, so that one number is reached by several routes; oracle: first-occurrence filter of the plain output by printed value".into();
    ctx.assumptions = vec!["universe excludes -0 and member-order permutations (quantifier)".into()];
    run_equality(ctx);
    C10Unique.run(ctx);
    C10Wide.run(ctx);
    C10Computed.run(ctx);
    ctx.rule.push_str(". C10.many_distinct: 70000 distinct rows (objects, strings, numbers) followed by 14 repeats of early, middle and late rows, as a stream and as the elements of one --split-by value: exactly the 70000 first occurrences in order");
    for through_split in [false, true] {
        let c = CaseManyDistinct { distinct: 70_000, through_split };
        let r = C10ManyDistinct.check(&c);
        ctx.record("C10.many_distinct", &serde_json::to_value(&c).unwrap(), r);
    }
}

pub fn checks() -> Vec<Box<dyn DynCheck>> {
    vec![Box::new(C10Unique), Box::new(C10Wide), Box::new(C10Computed), Box::new(C10ManyDistinct)]
}
