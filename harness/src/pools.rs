//! Wide literal pools per argument kind and the small-scope enumeration of every function
//! signature over them (C04.pools).
//!
//! The random generator of C04.eval draws arguments from small pools and nests calls; a
//! function that is wrong only for a narrow class of arguments (a divisor below 1e-16, a
//! counted repetition in a pattern, a list longer than 20, two integers that round to the
//! same double) is met rarely. Here every signature is called directly with literal
//! arguments from pools that were built to contain boundary members of each kind, and the
//! product of the pools is enumerated (completely when it is below the cap, by a seeded
//! sample otherwise). The oracle is the same reference evaluator.

use crate::expr::Kind::*;
use crate::expr::*;

pub fn js(s: &str) -> String {
    let mut t = String::new();
    crate::rjson::write_json_string_utf8(s, &mut t);
    t
}

pub const NUM_WIDE: &[&str] = &[
    "0", "1", "2", "3", "-1", "10", "5", "7", "-7", "4", "100", "0.5", "1.5", "-0.5", "2.25", "0.25", "-2.5", "3.75", "1000", "0.1", "0.2", "3.14", "1e3", "2.5e-1", "1E2", "12.0", "-0.0", "1e10", "9007199254740991",
    "-9007199254740991", "9007199254740992", "9007199254740993", "9223372036854775806", "9223372036854775807", "-9223372036854775808", "-9223372036854775807", "18446744073709551614", "18446744073709551615", "1e200", "-1e200",
    "1.7976931348623157e308", "5e-324", "1e-200", "123456789.125", "1e-20", "-1e-300", "5e-300", "2.2e-16", "1e-16", "1e16", "4503599627370496.5", "0.30000000000000004", "1e-7", "123456.789", "-3.5", "255", "256", "65535", "65536",
    "4294967295", "4294967296", "-2147483648", "1e15", "0.000001", "1e21", "1e22", "-1e21", "21", "33", "0.3", "-0.1", "1e308", "6", "8", "9", "0.75", "1e-3",
];

pub const INT_WIDE: &[&str] = &["0", "1", "2", "3", "4", "5", "7", "19", "20", "21", "31", "32", "33", "64", "65", "100", "1.0", "2.5", "-1", "-0.0", "4294967296", "18446744073709551615", "9223372036854775808", "null", "\"1\""];
/// arguments that decide an allocation size stay small (resource exhaustion is outside the domain)
pub const SIZE_WIDE: &[&str] = &["0", "1", "2", "3", "5", "8", "20", "21", "33", "1.0", "2.5", "-1", "-0.0", "null", "\"2\""];

pub fn str_wide() -> Vec<String> {
    let mut v: Vec<String> = [
        "", "a", "b", "ab", "aa", "abb", "aab", "abc", "ABC", "Abc", " ", "  a  ", "a b", "a,b", "a,b,,c", ",", "-", "1", "10", "12-ab", "a{2}", "xab{2}y", "a+", "a.b", "a|b", "(a)", "[a]", "a*", "a?", "^a", "a$", "\\", "\"", "\n", "a\nb", "\t",
        "\u{e9}", "\u{e9}\u{e9}", "\u{65e5}\u{672c}", "a\u{e9}\u{65e5}", "\u{ffff}", "\u{7f}", "\u{1}", "hello world", "Hello, World!", "2023-12-03", "true", "null", "0x10", "aaa", "bab", "a1b22c333", "k", "z",
    ]
    .iter()
    .map(|s| js(s))
    .collect();
    v.push(js(&"a".repeat(70)));
    v.push(js(&format!("{}y", "x".repeat(64))));
    v.push(js(&format!("{}z", "x".repeat(64))));
    v.push(js(&"ab,".repeat(30)));
    // long arguments: 5000 and 70000 characters
    v.push(js(&"lorem ipsum, ".repeat(385)));
    v.push(js(&"0123456789".repeat(7000)));
    v
}

pub fn regex_wide() -> Vec<String> {
    let mut v: Vec<String> = REGEX_LITS.iter().map(|s| s.to_string()).collect();
    for p in [
        "ab{2}", "a{1,2}b", "b{0}", "[ab]{2,}", "a.c", "a.b", "a\\.b", "a?b", "a|b", "^ab$", "\\w+", "\\bA", "(?:ab)+", "\\(a\\)", "\\[a\\]", "a\\+", "a\\*", "\\^a", "a\\$", "a\\|b", "\\\\", "}", "{", "a{", "a{2", "a}", "]", "x{64}y", "^x+[yz]$", "(a)(a)",
        // groups that take no part in the match (alternation, optional, repeated zero times): group N
        // is capture group N, not the N-th group that matched
        // word boundaries and look-around at the edges of the pattern: the characters around the match count
        "(a+)\\B", "\\Ba(b)", "\\B(b)", "(a)\\b", "\\b(b)", "(l+)\\B", "\\B(o)\\b", "(a)$", "^(b)",
        "(a)|(b)", "(z)?(a)(b)?", "(a)|(b)|(ab)", "(x)*(a)(y)?(b)", "(?:(a)|(b))+", "([0-9]+)-(y)?(x)", "(b)?(a)",
        "(?P<n>a)b", "a$|b", "\\d{2}", "[[:alpha:]]+", "\\p{L}+", "(?s).", "(?m)^b", "a,b", " ", "\\t", "\\n",
    ] {
        v.push(js(p));
    }
    v
}

pub fn nas_wide() -> Vec<String> {
    let mut v: Vec<String> = NAS_LITS.iter().map(|s| s.to_string()).collect();
    for p in [
        "1.0", "1.00", "01", "+1", "-0", "0.0", "-0.0", "1e0", "10e-1", "0.5e1", "5", "9007199254740993", "9007199254740992", "18446744073709551616", "-9223372036854775809", "0.1", "0.10", ".5", "5.", "1e-30", "1e30", "1E30",
        "123456789012345678901234567890123456789012345678901234567890", "100000000000000000000000000000000000000000000000001", "3", "0.3333333333", "2e-1", "-7.50", " 1", "1_000", "NaN", "inf", "1e+2", "1e-2", "999", "1000", "0.999",
    ] {
        v.push(js(p));
    }
    v
}

fn seq(n: usize, f: impl Fn(usize) -> String) -> String {
    format!("[{}]", (0..n).map(f).collect::<Vec<_>>().join(","))
}

pub fn arr_num_wide() -> Vec<String> {
    let mut v: Vec<String> = ["[]", "[1]", "[1,2,3]", "[3,1,2]", "[1,1,1]", "[2,1,2,1]", "[0.5,1.5,-2]", "[1,1.0,1e0]", "[1,null,3]", "[1,\"a\",3]", "[-1,0,1]", "[1e200,1e200]", "[9007199254740993,9007199254740992]", "[0.1,0.2]", "[10,9,8,7,6,5,4,3,2,1]"].iter().map(|s| s.to_string()).collect();
    v.push("[9223372036854775808]".into());
    v.push("[18446744073709551615,1]".into());
    v.push("[9223372036854775807,9223372036854775807,2]".into());
    v.push("[-9223372036854775808,-1]".into());
    v.push("[4611686018427387904,4611686018427387904]".into());
    v.push(seq(21, |i| format!("{}", (i * 7) % 5)));
    v.push(seq(40, |i| format!("{}", (i * 11) % 3)));
    v.push(seq(33, |i| format!("{}", 33 - i)));
    v
}
pub fn arr_str_wide() -> Vec<String> {
    let mut v: Vec<String> = ["[]", "[\"a\"]", "[\"a\",\"b\",\"c\"]", "[\"b\",\"a\",\"b\"]", "[\"\",\"\"]", "[\"a\",1,\"b\"]", "[\"a\",null]", "[\"\u{e9}\",\"e\",\"z\"]", "[\"10\",\"9\",\"1\"]", "[\"a,b\",\"c\"]", "[\"x\",\"y\",\"\"]"].iter().map(|s| s.to_string()).collect();
    v.push(seq(25, |i| js(&format!("s{}", i % 4))));
    v
}
pub fn arr_nas_wide() -> Vec<String> {
    let mut v: Vec<String> = ["[]", "[\"1\"]", "[\"1\",\"1.0\",\"1.00\"]", "[\"2\",\"1\",\"10\"]", "[\"1e2\",\"99\",\"100\"]", "[\"abc\",\"1\"]", "[\"-1\",\"0\",\"-0.5\"]", "[1,\"1\"]"].iter().map(|s| s.to_string()).collect();
    v.push(seq(24, |i| js(["1", "1.0", "1.00", "2", "02", "0.5"][i % 6])));
    v
}
pub fn arr_bool_wide() -> Vec<String> {
    ["[]", "[true]", "[false]", "[true,true]", "[true,false]", "[false,false,true]", "[true,null]", "[true,1]", "[null]", "[\"true\"]"].iter().map(|s| s.to_string()).collect()
}
pub fn arr_obj_wide() -> Vec<String> {
    let mut v: Vec<String> = [
        "[]",
        "[{\"k\":\"a\",\"v\":1,\"g\":\"x\"}]",
        "[{\"k\":\"a\",\"v\":1,\"g\":\"x\"},{\"k\":\"b\",\"v\":2,\"g\":\"y\"},{\"k\":\"c\",\"v\":1,\"g\":\"x\"}]",
        "[{\"a\":1},{},{\"a\":3}]",
        "[{\"a\":1},{\"a\":null},{\"a\":3}]",
        "[{\"a\":2,\"b\":1},{\"b\":1,\"a\":2}]",
        "[{\"k\":\"b\",\"v\":2},{\"k\":\"a\",\"v\":2},{\"k\":\"c\",\"v\":1}]",
        "[{\"k\":1},{\"k\":\"a\"},{\"k\":null},{\"k\":[1]},{\"k\":{}}]",
        "[{\"v\":1,\"g\":\"x\"},{\"v\":2},{\"g\":\"x\",\"v\":3}]",
        "[{\"k\":null,\"i\":0},{\"i\":1},{\"k\":1,\"i\":2},{\"i\":3},{\"k\":null,\"i\":4}]",
        "[{\"a\":false},{\"a\":null},{},{\"a\":0},{\"a\":\"\"}]",
    ]
    .iter()
    .map(|s| s.to_string())
    .collect();
    v.push(seq(22, |i| format!("{{\"k\":\"k{}\",\"v\":{},\"g\":\"g{}\",\"i\":{}}}", i % 3, i % 2, i % 4, i)));
    v.push(seq(40, |i| format!("{{\"k\":\"k{}\",\"v\":{},\"a\":{},\"i\":{}}}", (i * 5) % 3, (i * 3) % 4, i % 2, i)));
    v
}
pub fn arr_arr_wide() -> Vec<String> {
    ["[]", "[[]]", "[[1],[2]]", "[[1,2],[1]]", "[[2],[1,2],[1]]", "[[],[0]]", "[[1,2],[3,4],[5]]", "[[1],2,[3]]", "[[1,[2]],[1,[1]]]", "[[\"a\"],[1]]"].iter().map(|s| s.to_string()).collect()
}
pub fn obj_num_wide() -> Vec<String> {
    let mut v: Vec<String> = ["{}", "{\"a\":1}", "{\"a\":1,\"b\":2}", "{\"b\":2,\"a\":1}", "{\"b\":1,\"a\":2,\"c\":1}", "{\"a\":1,\"b\":1.0}", "{\"a\":null,\"b\":2}", "{\"\u{e9}\":1,\"e\":2,\"z\":0}", "{\"\":0}", "{\"a\":9007199254740993,\"b\":9007199254740992}", "{\"z\":3,\"y\":2,\"x\":1,\"w\":0}"].iter().map(|s| s.to_string()).collect();
    v.push(format!("{{{}}}", (0..24).map(|i| format!("\"m{:02}\":{}", 23 - i, (i * 7) % 4)).collect::<Vec<_>>().join(",")));
    v
}
pub fn obj_str_wide() -> Vec<String> {
    ["{}", "{\"a\":\"x\"}", "{\"a\":\"x\",\"b\":\"y\"}", "{\"b\":\"y\",\"a\":\"x\"}", "{\"a\":\"b\",\"b\":\"a\"}", "{\"a\":\"\",\"b\":\"\"}", "{\"k\":\"v\",\"a\":1}", "{\"a\":\"x\",\"c\":\"x\",\"b\":\"w\"}"].iter().map(|s| s.to_string()).collect()
}
pub fn obj_mixed_wide() -> Vec<String> {
    [
        "{\"a\":null,\"b\":false,\"c\":0,\"d\":\"\",\"e\":[],\"f\":{}}",
        "{\"a\":[1,2],\"b\":{\"c\":1}}",
        "{\"b\":{\"c\":1},\"a\":[1,2]}",
        "{\"a\":{\"x\":1,\"y\":2}}",
        "{\"a\":{\"y\":2,\"x\":1}}",
        "{\"k\":\"a\",\"v\":1,\"g\":\"x\"}",
        "{\"value\":1,\"index\":0}",
        "{\"a\":1,\"b\":\"1\",\"c\":true,\"d\":null}",
    ]
    .iter()
    .map(|s| s.to_string())
    .collect()
}

pub fn any_wide() -> Vec<String> {
    let mut v: Vec<String> = ["null", "true", "false", "0", "1", "1.0", "-0.0", "0.5", "-1", "2", "9007199254740993", "9007199254740992", "18446744073709551615", "18446744073709551614", "1e200", "\"\"", "\"a\"", "\"b\"", "\"1\"", "\"\u{e9}\"", "[]", "[1]", "[1,2]", "[2,1]", "[[]]", "[null]", "[\"a\"]", "{}"]
        .iter()
        .map(|s| s.to_string())
        .collect();
    v.extend(obj_num_wide().into_iter().take(5));
    v.extend(obj_mixed_wide().into_iter().take(5));
    v.push(js(&format!("{}y", "x".repeat(64))));
    v.push(js(&format!("{}z", "x".repeat(64))));
    v
}

/// `pool_lits` plus arguments that are read from the input record of the enumeration (its
/// members n m i j s t b c z an as ab ao aa o os ...), so that every function also meets
/// every argument position filled from the input and not from a literal
pub fn pool(k: Kind) -> Vec<String> {
    let mut v = pool_lits(k);
    let paths: &[&str] = match k {
        Any => &[".n", ".s", ".an", ".o", ".z", ".nosuch", "^.n", "."],
        Num => &[".n", ".m", ".i", ".nosuch"],
        Int => &[".i", ".j", ".m"],
        Str => &[".s", ".t", ".nosuch"],
        Bool => &[".b", ".c"],
        Nas => &[".ns", ".nt"],
        Regex => &[".re"],
        TimeFmt => &[".tf"],
        JsonText => &[".js"],
        Arr => &[".an", ".as", ".ao", ".aa", ".ab", ".e"],
        ArrNum => &[".an", ".e"],
        ArrStr => &[".as"],
        ArrBool => &[".ab"],
        ArrObj => &[".ao"],
        ArrArr => &[".aa"],
        ArrNas => &[".ans"],
        Obj | ObjNum => &[".o", ".eo", "."],
        ObjStr => &[".os"],
        _ => &[],
    };
    v.extend(paths.iter().map(|s| s.to_string()));
    v
}

pub fn pool_lits(k: Kind) -> Vec<String> {
    let own = |v: &[&str]| v.iter().map(|s| s.to_string()).collect::<Vec<_>>();
    match k {
        Any => any_wide(),
        Null => own(&["null", "false", "0"]),
        Bool => own(&["true", "false", "null", "1", "\"true\""]),
        Num => own(NUM_WIDE),
        Int => own(INT_WIDE),
        Str => str_wide(),
        Nas => nas_wide(),
        Regex => regex_wide(),
        TimeFmt => {
            let mut v = own(TIMEFMT_LITS);
            v.extend(own(&["\"%Y-%m-%dT%H:%M:%S%.f\"", "\"%Y-%m-%dT%H:%M:%S%.3f\"", "\"%Y-%m-%dT%H:%M:%S%.6f\"", "\"%Y-%m-%d %H:%M\"", "\"%s%.f\""]));
            v
        }
        TimeStr => {
            let mut v = own(TIMESTR_LITS);
            v.extend(own(&[
                "\"2020-01-01T00:00:00.123456\"", "\"2020-01-01T00:00:00.5\"", "\"1999-12-31T23:59:59.999999\"", "\"2038-01-19T03:14:08\"", "\"1969-12-31T23:59:59\"", "\"2023-12-03 13:51\"", "\"1701611515.25\"", "\"2000-02-29T12:00:00.001\"",
                "\"2024-12-31 23:59:59 -1200\"", "\"2024-01-01 00:00:00 +1400\"",
            ]));
            v
        }
        JsonText => own(JSONTEXT_LITS),
        ExprText => own(EXPRTEXT_LITS),
        B64 => {
            let mut v = own(B64_LITS);
            // long inputs: 4500, 4095/4096/4097 and 12000 decoded bytes
            v.push(js(&"YWJj".repeat(1500)));
            v.push(js(&format!("{}YQ==", "YWJj".repeat(1365))));
            v.push(js(&format!("{}YWI=", "YWJj".repeat(1365))));
            v.push(js(&"YWJj".repeat(1366)));
            v.push(js(&"w6nDqcOp".repeat(2000)));
            v
        }
        EnvName => own(ENVNAME_LITS),
        Arr => {
            let mut v = arr_num_wide();
            v.extend(arr_str_wide().into_iter().take(6));
            v.extend(arr_obj_wide());
            v.extend(arr_arr_wide().into_iter().take(5));
            v.extend(arr_bool_wide().into_iter().take(4));
            v.extend(arr_nas_wide().into_iter().skip(2));
            v.push("[1,\"a\",null,[1],{\"a\":1},true]".into());
            v.push("[{\"a\":1},[1],\"a\",1,true,null]".into());
            v
        }
        ArrNum => arr_num_wide(),
        ArrStr => arr_str_wide(),
        ArrBool => arr_bool_wide(),
        ArrObj => arr_obj_wide(),
        ArrArr => arr_arr_wide(),
        ArrNas => arr_nas_wide(),
        Obj | Record | FoldRec => {
            let mut v = obj_num_wide();
            v.extend(obj_str_wide());
            v.extend(obj_mixed_wide());
            v
        }
        ObjNum => obj_num_wide(),
        ObjStr => obj_str_wide(),
        Rec => own(&["{\"k\":\"a\",\"v\":1,\"g\":\"x\"}", "{\"k\":\"b\"}", "{}", "{\"v\":2.5,\"g\":\"\"}"]),
    }
}

/// lambda bodies per `.`-shape (texts in jawk syntax, parsed by `mini_parse`)
pub fn lambdas(d: Dot) -> &'static [&'static str] {
    match d {
        Dot::Elem => &[
            ".", ".a", ".k", ".v", ".g", "(+ . 1)", "(size .)", "(? (> . 1) . .nope)", "(> . 1)", "(string? .)", "(get . 0)", "(% . 3)", "(stringify .)", "null", "1", "(% .i 2)", ".k.x", "(= . \"a\")", "(number? .)", "(concat . \"!\")", "(? (number? .) (+ . 0.5) .nope)",
            ".i", "(now)",
        ],
        Dot::Val => &["(now)", ".", "(+ . 1)", "(> . 1)", "(size .)", "(? (number? .) . .nope)", "(string? .)", "(% . 2)", "null", "(stringify .)", "(- .)"],
        Dot::Key => &[".", "(concat . \"x\")", "(= . \"a\")", "(size .)", "(> . \"a\")", "(head . 1)", "\"same\"", "(? (= . \"a\") . .nope)", "1", "(match . \"^[a-b]\")"],
        Dot::Fold => &[
            ".value", ".value.a", "(+ .so_far .value)", "(default (+ .so_far .value) .value)", "(? (> .value 1) .value .nope)", ".index", "(? (= .index 1) .nope .value)", ".so_far", "(default .so_far .value)", "(push (default .so_far []) .value)",
            "(concat (default .so_far \"\") (stringify .value))", "(+ (default .so_far 0) .index)", ".value.v", "(? (number? .value) (+ (default .so_far 0) .value) .nope)",
        ],
    }
}

/// A tiny reader for the lambda texts above: `(f a b)`, `.`, `.a.b`, `^.a`, JSON literals.
pub fn mini_parse(s: &str) -> Expr {
    fn ws(b: &[u8], i: &mut usize) {
        while *i < b.len() && (b[*i] == b' ' || b[*i] == b',') {
            *i += 1;
        }
    }
    fn lit_end(b: &[u8], mut i: usize) -> usize {
        // JSON literal: balanced brackets / string / bare token
        let mut depth = 0i32;
        let mut in_str = false;
        while i < b.len() {
            let c = b[i];
            if in_str {
                if c == b'\\' {
                    i += 1;
                } else if c == b'"' {
                    in_str = false;
                    if depth == 0 {
                        return i + 1;
                    }
                }
            } else {
                match c {
                    b'"' => in_str = true,
                    b'[' | b'{' => depth += 1,
                    b']' | b'}' => {
                        depth -= 1;
                        if depth == 0 {
                            return i + 1;
                        }
                    }
                    b' ' | b')' | b'(' if depth == 0 => return i,
                    _ => {}
                }
            }
            i += 1;
        }
        i
    }
    fn go(b: &[u8], i: &mut usize) -> Expr {
        ws(b, i);
        match b[*i] {
            b'(' => {
                *i += 1;
                ws(b, i);
                let st = *i;
                while *i < b.len() && b[*i] != b' ' && b[*i] != b')' {
                    *i += 1;
                }
                let f = std::str::from_utf8(&b[st..*i]).unwrap().to_string();
                let mut args = Vec::new();
                loop {
                    ws(b, i);
                    if b[*i] == b')' {
                        *i += 1;
                        break;
                    }
                    args.push(go(b, i));
                }
                Expr::Call { f, args }
            }
            b'.' | b'^' => {
                let mut up = 0;
                while b[*i] == b'^' {
                    up += 1;
                    *i += 1;
                }
                let mut steps = Vec::new();
                while *i < b.len() && b[*i] == b'.' {
                    *i += 1;
                    let st = *i;
                    while *i < b.len() && (b[*i].is_ascii_alphanumeric() || b[*i] == b'_') {
                        *i += 1;
                    }
                    if *i > st {
                        steps.push(Step::Key(std::str::from_utf8(&b[st..*i]).unwrap().to_string()));
                    }
                }
                Expr::Path { up, steps }
            }
            _ => {
                let e = lit_end(b, *i);
                let t = std::str::from_utf8(&b[*i..e]).unwrap().to_string();
                *i = e;
                Expr::Lit(t)
            }
        }
    }
    let b = s.as_bytes();
    let mut i = 0;
    go(b, &mut i)
}

/// One enumerable position of a signature
pub enum Slot {
    Lits(Vec<String>),
    Lams(&'static [&'static str]),
}

/// extra members for the crash oracle (C05): no expected value is needed, so numbers that
/// the reference evaluator leaves open are welcome
pub const WILD_EXTRA: &[&str] = &["18446744073709551615", "-9223372036854775808", "9223372036854775807", "1e18", "-1e18", "1e308", "-1e308", "4294967295", "2147483648", "0.9999999999999999", "1e-320"];

/// the enumerable positions of signature `si` (None = not enumerated here)
pub fn slots(si: usize) -> Option<Vec<Slot>> {
    slots_with(si, false)
}

pub fn slots_with(si: usize, wild: bool) -> Option<Vec<Slot>> {
    let s = &SIGS[si];
    if matches!(s.f, "set" | "define" | ":" | "@" | "now" | "|" | "?" | "default" | "cross") {
        return None;
    }
    let mut out = Vec::new();
    let mut kinds: Vec<A> = s.args.to_vec();
    if let Some(v) = s.var {
        kinds.push(v); // one optional extra argument (an empty pick = absent)
    }
    for (i, a) in kinds.iter().enumerate() {
        let optional = i >= s.args.len();
        let slot = match a {
            A::K(k) => {
                let size_pos = (s.f == "range" && i == 0) || (s.f == "sub" && i == 2);
                let mut p = if size_pos { SIZE_WIDE.iter().map(|x| x.to_string()).collect() } else { pool(*k) };
                if wild && !size_pos && matches!(k, Int | Num) {
                    p.extend(WILD_EXTRA.iter().map(|x| x.to_string()));
                }
                if optional {
                    p.push(String::new());
                }
                Slot::Lits(p)
            }
            A::Lam(_, d) => Slot::Lams(lambdas(*d)),
            _ => return None,
        };
        out.push(slot);
    }
    Some(out)
}

pub fn slot_len(s: &Slot) -> usize {
    match s {
        Slot::Lits(v) => v.len(),
        Slot::Lams(v) => v.len(),
    }
}

/// the call of signature `si` with the given pick per slot
pub fn build(si: usize, sl: &[Slot], picks: &[usize]) -> Expr {
    let mut args = Vec::new();
    for (s, p) in sl.iter().zip(picks) {
        match s {
            Slot::Lits(v) => {
                let t = &v[*p];
                if t.starts_with('.') || t.starts_with('^') {
                    // an argument read from the input record (or from a parent that does not exist)
                    args.push(mini_parse(t));
                } else if !t.is_empty() {
                    args.push(Expr::Lit(t.clone()));
                }
            }
            Slot::Lams(v) => args.push(mini_parse(v[*p])),
        }
    }
    Expr::call(SIGS[si].f, args)
}

#[cfg(test)]
mod tests {
    use super::*;
    #[test]
    fn pools_are_json_and_lambdas_parse() {
        for k in [Any, Null, Bool, Num, Int, Str, Nas, Regex, TimeFmt, TimeStr, JsonText, ExprText, B64, EnvName, Arr, ArrNum, ArrStr, ArrBool, ArrObj, ArrArr, ArrNas, Obj, ObjNum, ObjStr, Rec] {
            for t in pool_lits(k) {
                assert!(crate::rjson::parse_one(t.as_bytes()).is_ok(), "{:?} {}", k, t);
            }
        }
        for d in [Dot::Elem, Dot::Val, Dot::Key, Dot::Fold] {
            for t in lambdas(d) {
                let e = mini_parse(t);
                assert_eq!(&canon(&e), t, "{}", t);
            }
        }
    }
}
