//! C05 No input data and no parsable expression can make jawk panic or hang.

use crate::engine::*;
use crate::expr::Kind::*;
use crate::expr::*;
use crate::gen::*;
use crate::runner::*;
use proptest::collection::vec;
use proptest::prelude::*;
use serde::{Deserialize, Serialize};
use serde_json::{json, Value};
use std::sync::atomic::{AtomicBool, AtomicU64, Ordering};

pub const POLICIES: &[&str] = &["ignore", "panic", "stderr", "stdout"];
pub const ALPHABET: &[u8] = b"{}[],:\"\\-+.01eEtrunl \n\xC3\xA9";

const PIPELINES: &[&[&str]] = &[
    &[],
    &["--select=.a = a", "--select=(len .) = l"],
    &["--sort-by=."],
    &["--unique", "--group-by=(stringify .)"],
    &["--output-style=text"],
    &["--only-objects-and-arrays", "--style=pretty"],
    &["--select=&started-at-line-number = l", "--select=&ended-at-char-number = c", "--select=. = v"],
    &["--split-by=.", "--take=3"],
];

fn judge(o: &Outcome) -> Result<(), String> {
    match &o.res {
        Res::Panic(m) => Err(format!("panic: {}", m)),
        _ => Ok(()),
    }
}

// ------------------------------------------------------------------ bytes: exhaustive

fn decode_bytes(mut idx: u64, maxlen: u32) -> Vec<u8> {
    let k = ALPHABET.len() as u64;
    let mut len = 0u32;
    let mut count = 1u64;
    while len < maxlen && idx >= count {
        idx -= count;
        len += 1;
        count *= k;
    }
    let mut v = Vec::with_capacity(len as usize);
    for _ in 0..len {
        v.push(ALPHABET[(idx % k) as usize]);
        idx /= k;
    }
    v
}

fn total_upto(maxlen: u32) -> u64 {
    let k = ALPHABET.len() as u64;
    (0..=maxlen).map(|l| k.pow(l)).sum()
}

#[derive(Clone, Debug, Serialize, Deserialize)]
pub struct CaseBytes {
    pub input: BytesS,
    pub policy: u8,
    pub pipeline: u8,
}

fn bytes_args(policy: u8, pipeline: u8) -> Vec<String> {
    let mut a: Vec<String> = vec![format!("--on-error={}", POLICIES[policy as usize % 4])];
    a.extend(PIPELINES[pipeline as usize % PIPELINES.len()].iter().map(|s| s.to_string()));
    a
}

/// all strings over the 24-byte alphabet up to `maxlen`, under one policy, no pipeline
fn run_exhaustive(ctx: &mut Ctx, policy: u8, maxlen: u32) {
    let name = "C05.bytes_exhaustive";
    let total = total_upto(maxlen);
    let args = bytes_args(policy, 0);
    let failed = AtomicBool::new(false);
    let nontrivial = AtomicU64::new(0);
    let done = AtomicU64::new(0);
    let failures: std::sync::Mutex<Vec<(Vec<u8>, String)>> = std::sync::Mutex::new(Vec::new());
    std::thread::scope(|s| {
        for shard in 0..SHARDS {
            let (args, failed, nontrivial, done, failures) = (&args, &failed, &nontrivial, &done, &failures);
            std::thread::Builder::new()
                .stack_size(64 << 20)
                .spawn_scoped(s, move || {
                    let mut idx = shard as u64;
                    let mut nt = 0u64;
                    let mut n = 0u64;
                    while idx < total && !failed.load(Ordering::Relaxed) {
                        let input = decode_bytes(idx, maxlen);
                        // cheap slot for the abort reporter (the case is a few bytes)
                        slot_set(shard, "C05", "C05.bytes", &format!("{{\"input\":\"{}\",\"policy\":{},\"pipeline\":0}}", esc(&input).replace('\\', "\\\\").replace('"', "\\\""), policy));
                        let o = run(args, &input);
                        n += 1;
                        if let Err(m) = judge(&o) {
                            failed.store(true, Ordering::Relaxed);
                            failures.lock().unwrap().push((input, m));
                            break;
                        }
                        // non-trivial: not a clean stream of values (something malformed or cut off)
                        if input.len() >= 2 && crate::rjson::parse_stream(&input).is_err() {
                            nt += 1;
                        }
                        idx += SHARDS as u64;
                    }
                    slot_idle(shard);
                    nontrivial.fetch_add(nt, Ordering::Relaxed);
                    done.fetch_add(n, Ordering::Relaxed);
                })
                .unwrap();
        }
    });
    let st = ctx.stats.entry(name.to_string()).or_default();
    st.evaluations += done.load(Ordering::Relaxed);
    st.extra_distinct += nontrivial.load(Ordering::Relaxed);
    *st.classes.entry(POLICIES[policy as usize]).or_default() += done.load(Ordering::Relaxed);
    let fs = std::mem::take(&mut *failures.lock().unwrap());
    if fs.is_empty() {
        let prev = st.exhaustive.take().unwrap_or_default();
        st.exhaustive = Some(format!("{}{}all {} byte strings of length <= {} over the 24-byte alphabet under --on-error={}", prev, if prev.is_empty() { "" } else { "; " }, total, maxlen, POLICIES[policy as usize]));
        if st.samples.len() < 3 {
            st.samples.push((policy as u64, json!({"check": name, "case": {"policy": POLICIES[policy as usize], "inputs": format!("all {} strings up to length {}", total, maxlen), "examples": [esc(&decode_bytes(total / 3, maxlen)), esc(&decode_bytes(total / 2 + 7, maxlen)), esc(&decode_bytes(total - 5, maxlen))]}, "observed": "no panic, every run returned"})));
        }
    }
    let mut fs = fs;
    fs.sort_by_key(|f| f.0.len());
    for (input, msg) in fs.into_iter().take(2) {
        let case = vjson(&CaseBytes { input: BytesS(input), policy, pipeline: 0 });
        ctx.violation("C05.bytes", &case, &msg);
    }
}

// ------------------------------------------------------------------ bytes: random, mutated

fn arb_mutated_bytes() -> BoxedStrategy<Vec<u8>> {
    let base = prop_oneof![
        4 => arb_stream(CharSet::Full, 12).prop_map(|s| s.bytes.0),
        1 => vec(prop::sample::select(ALPHABET.to_vec()), 0..64),
        1 => vec(any::<u8>(), 0..200),
        1 => (arb_deep(CharSet::Bmp, 40, 64), arb_spelling()).prop_map(|(v, sp)| serialise(&v, &sp).into_bytes()),
    ];
    let tokens: Vec<&'static [u8]> = vec![b"{", b"}", b"[", b"]", b",", b":", b"\"", b"\\", b"\\u", b"\\ud800", b"-", b"1e", b"1e+", b"0.", b"tru", b"nul", b"fals", b"\xff", b"\xc3", b"\xe2\x82", b"\xf0\x9f\x98", b"\x80", b"\x00", b"1E400", b"-0", b"01", b"\"\\", b"\\u12", b"{\"a\"", b"{\"a\":", b"[1,", b"\r", b"\t\t"];
    (base, vec((0u8..6, any::<u16>(), any::<u16>(), prop::sample::select(tokens)), 0..6))
        .prop_map(|(mut b, muts)| {
            for (kind, p, q, tok) in muts {
                let len = b.len();
                let at = if len == 0 { 0 } else { (p as usize * (len + 1)) >> 16 };
                match kind {
                    0 => b.truncate(at),
                    1 => {
                        if at < len {
                            b[at] ^= 1 << (q % 8);
                        }
                    }
                    2 => {
                        let t: Vec<u8> = tok.to_vec();
                        b.splice(at..at, t);
                    }
                    3 => {
                        if at < len {
                            b.remove(at);
                        }
                    }
                    4 => {
                        // duplicate a slice somewhere else
                        let e = (at + (q as usize % 16)).min(len);
                        let piece = b[at..e].to_vec();
                        let dst = if len == 0 { 0 } else { (q as usize * (len + 1)) >> 16 };
                        b.splice(dst..dst, piece);
                    }
                    _ => {
                        if at < len {
                            b[at] = tok[0];
                        }
                    }
                }
                if b.len() > 4096 {
                    b.truncate(4096);
                }
            }
            b
        })
        .boxed()
}

pub struct C05Bytes;
impl Check for C05Bytes {
    type Case = CaseBytes;
    fn name(&self) -> &'static str {
        "C05.bytes"
    }
    fn cases(&self, tier: Tier) -> u64 {
        tier.pick(60_000, 3_000_000)
    }
    fn strategy(&self, _t: Tier) -> BoxedStrategy<CaseBytes> {
        (arb_mutated_bytes(), 0u8..4, 0..PIPELINES.len() as u8).prop_map(|(b, policy, pipeline)| CaseBytes { input: BytesS(b), policy, pipeline }).boxed()
    }
    fn check(&self, c: &CaseBytes) -> CaseResult {
        let o = run(&bytes_args(c.policy, c.pipeline), &c.input.0);
        if let Err(m) = judge(&o) {
            return CaseResult::Fail(format!("{} [args {:?}]", m, bytes_args(c.policy, c.pipeline)));
        }
        let clean = crate::rjson::parse_stream(&c.input.0).is_ok();
        let some_value = !o.stdout.is_empty();
        CaseResult::Pass(
            Info::new(!clean && c.input.0.len() >= 2)
                .class(POLICIES[c.policy as usize % 4])
                .class_if(!clean && some_value, "malformed_with_output")
                .class_if(std::str::from_utf8(&c.input.0).is_err(), "invalid_utf8")
                .class_if(c.input.0.len() > 1000, "longer_than_1000_bytes")
                .obs(json!({"result": o.res.short(), "stdout": esc_trunc(&o.stdout, 80)})),
        )
    }
}

// ------------------------------------------------------------------ expressions

#[derive(Clone, Debug, Serialize, Deserialize)]
pub struct CaseExpr {
    pub e: Expr,
    /// 0 select, 1 filter, 2 sort-by, 3 group-by, 4 split-by, 5 --set macro + select, 6 select with csv output
    pub position: u8,
    pub inputs: Vec<String>,
}

fn expr_args(e: &Expr, position: u8) -> Vec<String> {
    let t = canon(e);
    match position % 7 {
        0 => vec![format!("--select={} = v", t)],
        1 => vec![format!("--filter={}", t)],
        2 => vec![format!("--sort-by={} DESC", t)],
        3 => vec![format!("--group-by={}", t)],
        4 => vec![format!("--split-by={}", t)],
        5 => vec![format!("--set=@m={}", t), "--select=@m = v".into(), "--unique".into()],
        _ => vec![format!("--select={} = v", t), "--output-style=csv".into()],
    }
}

pub struct C05Expr;
impl Check for C05Expr {
    type Case = CaseExpr;
    fn name(&self) -> &'static str {
        "C05.expressions"
    }
    fn cases(&self, tier: Tier) -> u64 {
        tier.pick(120_000, 4_000_000)
    }
    fn strategy(&self, _t: Tier) -> BoxedStrategy<CaseExpr> {
        (vec(any::<u32>(), 0..400), 0u8..7, 0usize..1000)
            .prop_map(|(tape, position, root)| {
                let mut g = Gen::new(&tape, GenCfg { ill: 6, chars: Chars::Full, wild_numbers: true, ctx: true, exclude: vec!["exec", "trigger"], ..GenCfg::default() });
                let env = Env::top();
                // stratified roots: every signature is the root of about the same number of cases
                let si = root % SIGS.len();
                let mut e = if IMPURE.contains(&SIGS[si].f) { g.expr(Any, 4, &env) } else { g.call_sig(si, Any, 4, &env) };
                // parents beyond the enclosing levels (`^` at top level, `^^^` inside one lambda)
                if g.tape.chance(1, 8) {
                    let extra = 1 + g.tape.below(3);
                    fn bump(e: &mut Expr, extra: usize, budget: &mut usize) {
                        match e {
                            Expr::Path { up, .. } => {
                                if *budget > 0 {
                                    *up += extra;
                                    *budget -= 1;
                                }
                            }
                            Expr::Call { args, .. } => {
                                for a in args.iter_mut().rev() {
                                    bump(a, extra, budget);
                                }
                            }
                            _ => {}
                        }
                    }
                    let mut budget = 1 + g.tape.below(2);
                    bump(&mut e, extra, &mut budget);
                    if budget > 0 {
                        e = Expr::call("default", vec![Expr::Path { up: extra, steps: vec![] }, e]);
                    }
                }
                let n = 1 + g.tape.below(3);
                let inputs = (0..n).map(|_| if g.tape.chance(1, 5) { g.lit(Any, 2) } else { g.record() }).collect();
                CaseExpr { e, position, inputs }
            })
            .boxed()
    }
    fn check(&self, c: &CaseExpr) -> CaseResult {
        let args = expr_args(&c.e, c.position);
        let input = c.inputs.join("\n");
        let o = run(&args, input.as_bytes());
        if let Err(m) = judge(&o) {
            return CaseResult::Fail(format!("{} [args {:?}]", m, args));
        }
        if let Res::Err(m) = &o.res {
            // a generated expression always parses; an error here is a harness problem, not a finding
            if c.position % 7 != 6 {
                return CaseResult::Discard(format!("rejected: {}", m));
            }
        }
        let multibyte = c.e.any(&|x| matches!(x, Expr::Lit(t) if t.starts_with('"') && !t.is_ascii()));
        CaseResult::Pass(
            Info::new(true)
                .class(match c.position % 7 {
                    0 => "select",
                    1 => "filter",
                    2 => "sort_by",
                    3 => "group_by",
                    4 => "split_by",
                    5 => "macro",
                    _ => "csv",
                })
                .class_if(multibyte, "multibyte_string_argument")
                .class_if(c.e.depth() >= 3, "depth_3_or_more")
                .class_if(c.e.uses_parent(), "parent_reference")
                .obs(json!({"args": args, "stdout": esc_trunc(&o.stdout, 80)})),
        )
    }
}

// ------------------------------------------------------------------ directed enumerations

#[derive(Clone, Debug, Serialize, Deserialize)]
pub struct CaseRaw {
    pub args: Vec<String>,
    pub input: String,
}

pub struct C05Directed;
impl Check for C05Directed {
    type Case = CaseRaw;
    fn name(&self) -> &'static str {
        "C05.directed"
    }
    fn cases(&self, _t: Tier) -> u64 {
        0
    }
    fn strategy(&self, _t: Tier) -> BoxedStrategy<CaseRaw> {
        Just(CaseRaw { args: vec![], input: String::new() }).boxed()
    }
    fn check(&self, c: &CaseRaw) -> CaseResult {
        let o = run(&c.args, c.input.as_bytes());
        match judge(&o) {
            Err(m) => CaseResult::Fail(format!("{} [args {:?} input {}]", m, c.args, trunc(&c.input, 200))),
            Ok(()) => CaseResult::Pass(Info::new(true).obs(json!({"result": o.res.short()}))),
        }
    }
}

fn js(s: &str) -> String {
    let mut t = String::new();
    crate::rjson::write_json_string_utf8(s, &mut t);
    t
}

/// the directed case list: (args, input)
pub fn directed_cases(tier: Tier) -> Vec<CaseRaw> {
    let mut v = Vec::new();
    let sel = |e: String| vec![format!("--select={} = v", e)];
    // 1. every integer argument 0..=len+1 (in bytes) of strings mixing 1-, 2-, 3- and 4-byte characters
    let strings = ["a\u{e9}b", "\u{e9}", "\u{65e5}\u{672c}", "\u{1f603}", "x\u{1f603}\u{e9}\u{65e5}y", "", "abc", "\u{e9}\u{e9}\u{e9}\u{e9}", "a\u{10ffff}"];
    for s in strings {
        let n = s.len() + 2;
        for i in 0..=n {
            for f in ["take", "take_last", "head", "tail"] {
                v.push(CaseRaw { args: sel(format!("({} {} {})", f, js(s), i)), input: "null".into() });
            }
            v.push(CaseRaw { args: sel(format!("(extract_regex_group {} \"(.)(.)?\" {})", js(s), i)), input: "null".into() });
            v.push(CaseRaw { args: sel(format!("(get (split {} \"\") {})", js(s), i)), input: "null".into() });
            for j in 0..=n {
                v.push(CaseRaw { args: sel(format!("(sub {} {} {})", js(s), i, j)), input: "null".into() });
            }
        }
        for sep in ["", "\u{e9}", "a", "\u{1f603}", s] {
            v.push(CaseRaw { args: sel(format!("(split {} {})", js(s), js(sep))), input: "null".into() });
            v.push(CaseRaw { args: sel(format!("(join (split {} {}) {})", js(s), js(sep), js(sep))), input: "null".into() });
        }
    }
    // 2. a multi-byte character straddling every byte offset of an expression text, a --set
    //    value, a (parse s) string and a (parse_selection s) string
    for pad in 0..72usize {
        let p = " ".repeat(pad);
        for ch in ["\u{e9}", "\u{65e5}", "\u{1f603}"] {
            v.push(CaseRaw { args: vec![format!("--select={}(concat {} \"x\") = v", p, js(ch))], input: "null".into() });
            v.push(CaseRaw { args: vec![format!("--filter={}(= . {})", p, js(ch))], input: js(ch) });
            v.push(CaseRaw { args: vec![format!("--set=v={}{}", p, js(ch)), "--select=:v = v".into()], input: "null".into() });
            v.push(CaseRaw { args: sel(format!("(parse {})", js(&format!("{}{}", p, js(ch))))), input: "null".into() });
            v.push(CaseRaw { args: sel(format!("(parse_selection {})", js(&format!("{}(concat {} \"x\")", p, js(ch))))), input: "null".into() });
            v.push(CaseRaw { args: sel(format!("(parse {})", js(&format!("{}{}", "x".repeat(pad), ch)))), input: "null".into() });
            v.push(CaseRaw { args: vec![format!("--sort-by={}.{}", p, ch)], input: "{}".into() });
            v.push(CaseRaw { args: vec![format!("--group-by={}(concat {} .)", p, js(ch))], input: "\"a\"".into() });
            v.push(CaseRaw { args: vec![format!("--split-by={}(split . {})", p, js(ch))], input: js(&format!("a{}b", ch)) });
        }
    }
    // 3. time formats: every %-specifier (with the padding modifiers) x representative instants and strings
    let mut fmts: Vec<String> = Vec::new();
    for c in 0x20u8..0x7f {
        let c = c as char;
        fmts.push(format!("%{}", c));
        if tier == Tier::Thorough || c.is_ascii_alphabetic() {
            for m in ["-", "_", "0", ":", "::", ":::", "#", ".", ".3", ".6", ".9", "3", "6", "9", "5"] {
                fmts.push(format!("%{}{}", m, c));
            }
        }
    }
    fmts.extend(["%", "%%", "", "%Y-%m-%d %H:%M:%S", "%+", "%c%x%X", "%Y%", "%\u{e9}", "\u{1f603}%Y", "%5Y", "%Ez", "%Ey", "%OS"].iter().map(|s| s.to_string()));
    let instants = ["0", "-1", "1701611515.3603675", "1e18", "-1e18", "1e300", "253402300800", "-62167219200", "9223372036854775807", "0.999999999", "-0.5", "4102444800"];
    let times = ["2023-12-03", "13:51:55", "2023 Dec 3 13:51:55.360 +0500", "", "0", "\u{e9}", "99999-99-99", "2023-02-30", "12/31/99", "+0500", "1701611515"];
    for f in &fmts {
        for (k, i) in instants.iter().enumerate() {
            if tier == Tier::Quick && k >= 6 && f.len() > 2 {
                continue;
            }
            v.push(CaseRaw { args: sel(format!("(format_time {} {})", i, js(f))), input: "null".into() });
        }
        for (k, t) in times.iter().enumerate() {
            if tier == Tier::Quick && k >= 4 && f.len() > 2 {
                continue;
            }
            v.push(CaseRaw { args: sel(format!("(parse_time {} {})", js(t), js(f))), input: "null".into() });
            v.push(CaseRaw { args: sel(format!("(parse_time_with_zone {} {})", js(t), js(f))), input: "null".into() });
        }
    }
    // 4. sizes and numbers at the documented resource bound (<= 10^4) and beyond-range integers as indices
    for n in ["0", "1", "10000", "-1", "0.5", "1e2", "18446744073709551615", "-9223372036854775808", "1e300", "4294967296"] {
        for e in [
            format!("(range {})", if n.len() > 6 { "3" } else { n }),
            format!("(take [1,2,3] {})", n),
            format!("(take_last [1,2,3] {})", n),
            format!("(take {{\"a\":1}} {})", n),
            format!("(take_last {{\"a\":1}} {})", n),
            format!("(take \"abc\" {})", n),
            format!("(take_last \"abc\" {})", n),
            format!("(head \"abc\" {})", n),
            format!("(tail \"abc\" {})", n),
            format!("(sub [1,2,3] {} 2)", n),
            format!("(sub \"abc\" {} 2)", n),
            format!("(sub {{\"a\":1,\"b\":2}} {} 1)", n),
            format!("(get [1,2,3] {})", n),
            format!("(extract_regex_group \"abc\" \"(a)(b)\" {})", n),
            format!("(format_time {} \"%Y\")", n),
            format!("(% 7 {})", n),
            format!("(/ 7 {})", n),
            format!("(% {} 0.3)", n),
            format!("(round {})", n),
            format!("(ceil {})", n),
            format!("(floor {})", n),
            format!("(abs {})", n),
            format!("(- {})", n),
            format!("(* {} {} {})", n, n, n),
            format!("(\"round\" \"{}\")", n),
            format!("(\"/\" \"1\" \"{}\")", n),
            format!("(\"%\" \"{}\" \"3\")", n),
            format!("(\"*\" \"{}\" \"1e1000\")", n),
            format!("(\"+\" \"{}\" \"1e-1000\")", n),
        ] {
            v.push(CaseRaw { args: sel(e), input: "null".into() });
        }
    }
    v.push(CaseRaw { args: sel("(base63_decode \"8J+Ygw==\")".into()), input: "null".into() });
    // 4b. every pair of boundary numbers in every binary numeric function
    let bn = ["0", "-1", "1", "2", "-9223372036854775808", "9223372036854775807", "18446744073709551615", "9007199254740992", "-0.0", "0.5", "-2.5", "1e308", "-1e308", "5e-324", "1e-320"];
    for a in bn {
        for b in bn {
            for f in ["+", "-", "*", "/", "%", "=", "<", ">="] {
                v.push(CaseRaw { args: sel(format!("({} {} {})", f, a, b)), input: "null".into() });
            }
            v.push(CaseRaw { args: sel(format!("(% . {})", b)), input: a.into() });
            v.push(CaseRaw { args: sel(format!("(sum [{}, {}])", a, b)), input: "null".into() });
        }
        for f in ["abs", "round", "ceil", "floor", "-", "stringify", "range", "format_time"] {
            let e = if f == "format_time" { format!("(format_time {} \"%s %Y\")", a) } else if f == "range" && a.len() > 2 { continue } else { format!("({} {})", f, a) };
            v.push(CaseRaw { args: sel(e), input: "null".into() });
        }
    }
    // 5. nesting up to 64 in expressions and inputs
    for depth in [1usize, 8, 32, 63, 64] {
        let open: String = "[".repeat(depth);
        let close: String = "]".repeat(depth);
        v.push(CaseRaw { args: vec!["--select=(stringify .) = v".into(), "--select=(parse (stringify .)) = w".into(), "--sort-by=.".into(), "--unique".into()], input: format!("{}1{} {}2{}", open, close, open, close) });
        let mut e = "1".to_string();
        for _ in 0..depth {
            e = format!("(+ {} 1)", e);
        }
        v.push(CaseRaw { args: sel(e), input: "null".into() });
        let mut p = ".".to_string();
        for _ in 0..depth {
            p = format!("(| {} .)", p);
        }
        v.push(CaseRaw { args: sel(p), input: "1".into() });
        v.push(CaseRaw { args: sel(format!("{}.", "^".repeat(depth))), input: "1".into() });
    }
    v
}

/// byte-level directed inputs: an invalid byte after a string prefix of every length 0..40 that
/// starts or ends with a 2-, 3- or 4-byte character (error paths that quote or measure the
/// surrounding text), truncated UTF-8 sequences at every position, under every policy
pub fn directed_bytes() -> Vec<CaseBytes> {
    let mut v = Vec::new();
    let chars: [&[u8]; 3] = ["\u{e9}".as_bytes(), "\u{65e5}".as_bytes(), "\u{1f603}".as_bytes()];
    let bad: [&[u8]; 5] = [b"\xff", b"\xc3", b"\xe2\x82", b"\xf0\x9f\x98", b"\x80"];
    for pad in 0..40usize {
        for ch in chars {
            for b in bad {
                for (k, layout) in [0u8, 1, 2, 3].iter().enumerate() {
                    let mut inp: Vec<u8> = Vec::new();
                    match layout {
                        0 => {
                            // "<ch><pad ascii><bad>"
                            inp.push(b'"');
                            inp.extend_from_slice(ch);
                            inp.extend(std::iter::repeat(b'a').take(pad));
                            inp.extend_from_slice(b);
                            inp.push(b'"');
                        }
                        1 => {
                            // "<pad ascii><ch><bad>" inside an object key
                            inp.extend_from_slice(b"{\"");
                            inp.extend(std::iter::repeat(b'k').take(pad));
                            inp.extend_from_slice(ch);
                            inp.extend_from_slice(b);
                            inp.extend_from_slice(b"\":1}");
                        }
                        2 => {
                            // garbage outside a string, then a value
                            inp.extend(std::iter::repeat(b' ').take(pad % 5));
                            inp.extend_from_slice(ch);
                            inp.extend_from_slice(b);
                            inp.extend_from_slice(b" 7");
                        }
                        _ => {
                            // unterminated string ending in the bad byte at end of input
                            inp.extend_from_slice(b"[1,\"");
                            inp.extend(std::iter::repeat(b'z').take(pad));
                            inp.extend_from_slice(ch);
                            inp.extend_from_slice(b);
                        }
                    }
                    inp.extend_from_slice(b" 2\n");
                    v.push(CaseBytes { input: BytesS(inp), policy: ((pad + k) % 4) as u8, pipeline: 0 });
                }
            }
        }
    }
    // \uXXXX escapes at every boundary of the surrogate range and of the code space, alone, in
    // pairs, in member names, in both letter cases
    let hexes = ["0000", "001f", "007f", "0080", "07ff", "0800", "d7ff", "d800", "d801", "dbff", "dc00", "dc01", "dffe", "dfff", "e000", "fffd", "fffe", "ffff", "DFFF", "D800", "DbFf"];
    for (i, a) in hexes.iter().enumerate() {
        for (j, layout) in [0u8, 1, 2].iter().enumerate() {
            let text = match layout {
                0 => format!("\"\\u{}\" 2\n", a),
                1 => format!("{{\"k\\u{}\":[\"\\u{}x\"]}} 2\n", a, a),
                _ => format!("[1,\"a\\u{}\\u{}\"] 2\n", a, hexes[(i * 7 + 3) % hexes.len()]),
            };
            v.push(CaseBytes { input: BytesS(text.into_bytes()), policy: ((i + j) % 4) as u8, pipeline: (i % 3) as u8 });
        }
        for b in &hexes {
            v.push(CaseBytes { input: BytesS(format!("\"\\u{}\\u{}\"\n", a, b).into_bytes()), policy: (i % 4) as u8, pipeline: 0 });
        }
    }
    v
}

pub fn run_directed(ctx: &mut Ctx) {
    {
        let cases = std::sync::Arc::new(directed_bytes());
        let total = cases.len() as u64 * 4;
        let c2 = cases.clone();
        run_enum(ctx, "C05.bytes", total, "directed byte inputs (invalid byte after string prefixes of every length with multi-byte characters, truncated sequences) x 4 policies", move |idx| {
            let mut c = c2[(idx / 4) as usize].clone();
            c.policy = (idx % 4) as u8;
            slot_set((idx % SHARDS as u64) as usize, "C05", "C05.bytes", &serde_json::to_string(&c).unwrap());
            let r = C05Bytes.check(&c);
            slot_idle((idx % SHARDS as u64) as usize);
            (Box::new(move || vjson(&c)), r)
        });
    }
    let cases = directed_cases(ctx.tier);
    let total = cases.len() as u64;
    let cases = std::sync::Arc::new(cases);
    let c2 = cases.clone();
    run_enum(ctx, "C05.directed", total, "directed list: byte-offset sweeps over multi-byte strings, multi-byte characters at every offset of expression texts / --set values / (parse s) strings, all strftime specifiers x instants, boundary numbers in every numeric argument, nesting up to 64", move |idx| {
        let c = c2[idx as usize].clone();
        slot_set((idx % SHARDS as u64) as usize, "C05", "C05.directed", &serde_json::to_string(&c).unwrap());
        let r = C05Directed.check(&c);
        slot_idle((idx % SHARDS as u64) as usize);
        (Box::new(move || vjson(&c)), r)
    });
}

// ------------------------------------------------------------------ terminating recursive macros

/// A macro that refers to itself through a generated expression: `@r` = `(? (< :d 1) BASE E)`
/// where every `@r` inside E is written `(set "d" (- :d 1) @r)`, so the recursion ends after
/// :d levels whatever the data is. Every function that occurs in E is then entered again
/// while an evaluation of the same call is still in progress (scratch state kept with a call,
/// guards, caches and borrow flags show here and nowhere else).
#[derive(Clone, Debug, Serialize, Deserialize)]
pub struct CaseRec {
    pub e: Expr,
    pub depth: u8,
    pub base: String,
    pub inputs: Vec<String>,
}

fn is_self_ref(e: &Expr) -> bool {
    match e {
        Expr::Mac(n) => n == "r",
        Expr::Call { f, args } if f == "@" => !matches!(args.first(), Some(Expr::Lit(t)) if t != "\"r\""),
        _ => false,
    }
}

fn reenter(e: &Expr) -> Expr {
    match e {
        Expr::Mac(n) if n == "r" => Expr::call("set", vec![Expr::lit("\"d\""), Expr::call("-", vec![Expr::Var("d".into()), Expr::lit("1")]), Expr::Mac("r".into())]),
        // the call spelling of the same reference
        Expr::Call { f, args } if f == "@" && is_self_ref(e) => Expr::call("set", vec![Expr::lit("\"d\""), Expr::call("-", vec![Expr::Var("d".into()), Expr::lit("1")]), Expr::Call { f: f.clone(), args: args.clone() }]),
        Expr::Call { f, args } => Expr::Call { f: f.clone(), args: args.iter().map(reenter).collect() },
        other => other.clone(),
    }
}

pub struct C05Recursive;
impl Check for C05Recursive {
    type Case = CaseRec;
    fn name(&self) -> &'static str {
        "C05.recursive_macros"
    }
    fn cases(&self, tier: Tier) -> u64 {
        tier.pick(40_000, 1_000_000)
    }
    fn strategy(&self, _t: Tier) -> BoxedStrategy<CaseRec> {
        (vec(any::<u32>(), 0..300), 1u8..4, 0usize..1000)
            .prop_map(|(tape, depth, root)| {
                let mut g = Gen::new(&tape, GenCfg { ill: 2, chars: Chars::Bmp, bind_bias: true, exclude: vec!["exec", "trigger", "now", "define", "cross"], ..GenCfg::default() });
                let mut env = Env::top();
                // (cross multiplies the sizes of its arguments, which here grow with every level;
                // the counter :d is not offered to the generator: it would rebind it)
                let k = *g.tape.pick(&[Any, Num, Str, ArrNum, Bool]);
                env.macros.push(("r".to_string(), k));
                // stratified roots; the macro occurs at least once (an extra argument slot if needed)
                let si = root % SIGS.len();
                let mut e = if IMPURE.contains(&SIGS[si].f) || matches!(SIGS[si].f, "define" | "set" | ":" | "@" | "cross") { g.expr(k, 3, &env) } else { g.call_sig(si, Any, 3, &env) };
                if !e.any(&|x| is_self_ref(x)) {
                    e = Expr::call("default", vec![e, Expr::Mac("r".into())]);
                }
                let base = g.lit(k, 1);
                let n = 1 + g.tape.below(2);
                let inputs = (0..n).map(|_| g.record()).collect();
                CaseRec { e, depth, base, inputs }
            })
            .boxed()
    }
    fn check(&self, c: &CaseRec) -> CaseResult {
        // every path through E uses @r at most a handful of times: bound the fan-out
        fn count(e: &Expr) -> usize {
            match e {
                x if is_self_ref(x) => 1,
                Expr::Call { args, .. } => args.iter().map(count).sum(),
                _ => 0,
            }
        }
        if count(&c.e) > 3 {
            return CaseResult::Discard("more than three self-references (fan-out)".into());
        }
        let body = Expr::call("?", vec![Expr::call("<", vec![Expr::Var("d".into()), Expr::lit("1")]), Expr::Lit(c.base.clone()), reenter(&c.e)]);
        let args = vec![format!("--set=d={}", c.depth), format!("--set=@r={}", canon(&body)), "--select=@r = v".to_string()];
        let t0 = std::time::Instant::now();
        let o = run(&args, c.inputs.join("\n").as_bytes());
        if std::env::var("JV_TIMING").is_ok() && t0.elapsed().as_millis() > 300 {
            eprintln!("SLOW {:?} {}", t0.elapsed(), crate::runner::trunc(&args[1], 400));
        }
        if let Err(m) = judge(&o) {
            return CaseResult::Fail(format!("{} [args {:?}]", m, args));
        }
        if let Res::Err(m) = &o.res {
            return CaseResult::Discard(format!("rejected: {}", m));
        }
        CaseResult::Pass(Info::new(o.stdout.windows(4).any(|w| w == b"\"v\":")).class(["", "depth_1", "depth_2", "depth_3"][c.depth.min(3) as usize]).class_if(count(&c.e) >= 2, "several_self_references").obs(json!({"args": args, "stdout": esc_trunc(&o.stdout, 80)})))
    }
}

/// replayable wrapper for failures found by the pool enumeration
pub struct C05Pools;
impl Check for C05Pools {
    type Case = CaseExpr;
    fn name(&self) -> &'static str {
        "C05.pools"
    }
    fn cases(&self, _t: Tier) -> u64 {
        0
    }
    fn strategy(&self, t: Tier) -> BoxedStrategy<CaseExpr> {
        C05Expr.strategy(t)
    }
    fn check(&self, c: &CaseExpr) -> CaseResult {
        C05Expr.check(c)
    }
}

/// every signature called with literal arguments from the wide pools of C04.pools plus
/// extreme numbers in every numeric position (crash oracle only)
pub fn run_pools(ctx: &mut Ctx) {
    use crate::pools::*;
    let cap: u64 = ((ctx.tier.pick(1200u64, 40_000u64) as f64) * ctx.scale).ceil() as u64;
    let mut plan: Vec<(usize, Vec<Slot>, u64, u64)> = Vec::new();
    for (si, s) in SIGS.iter().enumerate() {
        if IMPURE.contains(&s.f) {
            continue;
        }
        if let Some(sl) = slots_with(si, true) {
            let prod: u64 = sl.iter().map(|x| slot_len(x) as u64).fold(1u64, |a, b| a.saturating_mul(b));
            let n = prod.min(cap);
            plan.push((si, sl, prod, n));
        }
    }
    let total: u64 = plan.iter().map(|p| p.3).sum();
    let space = format!("{} signatures called with literal arguments from the wide pools (harness/src/pools.rs) plus {} extreme numbers in every numeric position: whole product below {} tuples per signature, seeded sample above", plan.len(), WILD_EXTRA.len(), cap);
    let seed = ctx.seed;
    let mix = |mut x: u64| {
        x = x.wrapping_add(0x9e3779b97f4a7c15);
        x = (x ^ (x >> 30)).wrapping_mul(0xbf58476d1ce4e5b9);
        x = (x ^ (x >> 27)).wrapping_mul(0x94d049bb133111eb);
        x ^ (x >> 31)
    };
    let record = r#"{"n":1.5,"m":2,"i":1,"j":0,"s":"a","t":"ab","b":true,"c":false,"z":null,"an":[1,2],"as":["a"],"ab":[true],"ao":[{"k":"a","v":1,"g":"x"}],"aa":[[1]],"o":{"a":1},"os":{"a":"x"},"e":[],"eo":{}}"#;
    run_enum(ctx, "C05.pools", total, &space, |idx| {
        let mut rest = idx;
        let mut pi = 0;
        while rest >= plan[pi].3 {
            rest -= plan[pi].3;
            pi += 1;
        }
        let (si, sl, prod, _) = &plan[pi];
        let mut picks = Vec::with_capacity(sl.len());
        if *prod <= cap {
            let mut r = rest;
            for s in sl.iter() {
                let l = slot_len(s) as u64;
                picks.push((r % l) as usize);
                r /= l;
            }
        } else {
            let mut h = mix(seed ^ mix(*si as u64 ^ (rest << 16) ^ 0x5005));
            for s in sl.iter() {
                h = mix(h);
                picks.push((h % slot_len(s) as u64) as usize);
            }
        }
        let c = CaseExpr { e: build(*si, sl, &picks), position: (mix(idx) % 7) as u8, inputs: vec![record.to_string()] };
        let shard = (idx % SHARDS as u64) as usize;
        slot_set(shard, "C05", "C05.expressions", &serde_json::to_string(&c).unwrap());
        let r = C05Expr.check(&c);
        slot_idle(shard);
        (Box::new(move || vjson(&c)), r)
    });
}

pub fn run_all(ctx: &mut Ctx) {
    install_abort_reporter_for(&ctx.root.clone(), true);
    ctx.rule = "(bytes_exhaustive) every byte string over the 24-byte alphabet { } [ ] , : \" \\ - + . 0 1 e E t r u n l SP LF 0xC3 0xA9 up to length 5 (quick) / 6 (thorough) under --on-error=ignore and up to length 4 / 5 under panic, stderr, stdout. (bytes) generated streams, alphabet soup, raw bytes and depth-64 values, mutated 0..5 times (truncate, bit flip, splice of a token fragment incl. broken UTF-8 and broken escapes, delete, duplicate, overwrite), <= 4 KiB, x 4 policies x 8 pipelines. (expressions) every signature of every function as root (stratified), depth <= 4, ill-typed arguments with probability 6/16, full Unicode strings incl. astral, boundary and huge numbers (allocation-size arguments bounded as the property says), in 7 option positions, on 1..3 generated inputs. (recursive_macros) a macro @r = (? (< :d 1) BASE E) whose generated body E (every signature as root) refers to @r under (set \"d\" (- :d 1) ..), depth 1..3: every function is re-entered while a call of the same node is in progress. (pools) every signature with literal arguments from the wide pools of C04.pools plus extreme numbers (2^64-1, -2^63, +-1e18, +-1e308, 2^31, 2^32-1) in every numeric position that does not decide an allocation. (directed) see the space description. Oracle: the run returns (Ok or Err), never a panic (catch_unwind), never an abort (SIGABRT reporter), never a hang (60 s watchdog + isolated re-run). non-trivial (bytes) = the input is not a clean stream of values and has >= 2 bytes; every expression case counts".into();
    ctx.assumptions = vec!["optimised build of jawk with integer-overflow checks on (what `cargo build` and `cargo test` check, what a release build would silently wrap)".into(), "sizes that decide an allocation (range N, sub length) are kept <= 10^4: resource exhaustion is outside the property".into()];
    let (l_ignore, l_other) = ctx.tier.pick((5u32, 4u32), (6u32, 5u32));
    run_exhaustive(ctx, 0, l_ignore);
    for p in 1..4u8 {
        run_exhaustive(ctx, p, l_other);
    }
    let t0 = std::time::Instant::now();
    C05Bytes.run(ctx);
    if std::env::var("JV_TIMING").is_ok() { eprintln!("bytes done {:?}", t0.elapsed()); }
    C05Expr.run(ctx);
    if std::env::var("JV_TIMING").is_ok() { eprintln!("expr done {:?}", t0.elapsed()); }
    C05Recursive.run(ctx);
    if std::env::var("JV_TIMING").is_ok() { eprintln!("recursive done {:?}", t0.elapsed()); }
    run_pools(ctx);
    if std::env::var("JV_TIMING").is_ok() { eprintln!("pools done {:?}", t0.elapsed()); }
    run_directed(ctx);
    if std::env::var("JV_TIMING").is_ok() { eprintln!("directed done {:?}", t0.elapsed()); }
}

pub fn checks() -> Vec<Box<dyn DynCheck>> {
    vec![Box::new(C05Bytes), Box::new(C05Expr), Box::new(C05Directed), Box::new(C05Pools), Box::new(C05Recursive)]
}

#[allow(dead_code)]
fn _unused(_: Value) {}
