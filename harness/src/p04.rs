//! C04 Expressions evaluate to what the function documentation prescribes.

use crate::engine::*;
use crate::eval::*;
use crate::expr::Kind::*;
use crate::expr::*;
use crate::rjson::*;
use crate::runner::*;
use proptest::collection::vec;
use proptest::prelude::*;
use serde::{Deserialize, Serialize};
use serde_json::json;

#[derive(Clone, Debug, Serialize, Deserialize)]
pub struct Case04 {
    pub e: Expr,
    /// --set variables (name, JSON literal)
    pub vars: Vec<(String, String)>,
    /// --set macros
    pub macros: Vec<(String, Expr)>,
    /// earlier selections that `e` may refer to as /name/
    pub priors: Vec<(Expr, String)>,
    pub inputs: Vec<String>,
    pub spell: Spell,
}

pub const SYNTH: &[&str] = &["entries", "indexed", "fold", "zip", "cross"];
/// functions whose result depends on the member order of their object argument
pub const ORDER_OBSERVERS: &[&str] = &["keys", "values", "entries", "take", "take_last", "sub"];

fn count_calls(e: &Expr, names: &[&str]) -> usize {
    match e {
        Expr::Call { f, args } => names.contains(&f.as_str()) as usize + args.iter().map(|a| count_calls(a, names)).sum::<usize>(),
        _ => 0,
    }
}

/// The member order of records synthesised by entries / indexed / fold / zip / cross is not
/// documented. When such a record can reach a function that observes member order, the
/// documentation does not decide the result.
pub fn order_sensitive(exprs: &[&Expr]) -> bool {
    let synth: usize = exprs.iter().map(|e| count_calls(e, SYNTH)).sum();
    let obs: usize = exprs.iter().map(|e| count_calls(e, ORDER_OBSERVERS)).sum();
    let only_entries: usize = exprs.iter().map(|e| count_calls(e, &["entries"])).sum();
    synth >= 1 && obs >= 1 && !(synth == 1 && obs == 1 && only_entries == 1)
}

pub fn arb_case04(depth: u32) -> BoxedStrategy<Case04> {
    (vec(any::<u32>(), 0..500), 0usize..100_000, any::<bool>(), 0u8..7, any::<u64>()).prop_map(move |(tape, root, alias, sep, seed)| decode_case04(&tape, root, alias, sep, seed, depth)).boxed()
}

/// a case from a choice tape (shared by the proptest strategy and the libFuzzer target)
pub fn decode_case04(tape: &[u32], root: usize, alias: bool, sep: u8, seed: u64, depth: u32) -> Case04 {
    {
        {
            let mut g = Gen::new(tape, GenCfg { ill: 3, exclude: vec!["exec", "trigger", "now"], ..GenCfg::default() });
            let mut env = Env::top();
            let mut vars = Vec::new();
            for i in 0..g.tape.below(3) {
                let k = *g.tape.pick(LEAF_KINDS);
                let name = format!("p{}", i);
                vars.push((name.clone(), g.lit(k, 2)));
                env.vars.push((name, k));
            }
            let mut macros = Vec::new();
            if g.tape.chance(1, 3) {
                let k = *g.tape.pick(&[Num, Str, Bool, Any, ArrNum]);
                let body = g.expr(k, 2, &env);
                macros.push(("q0".to_string(), body));
                env.macros.push(("q0".to_string(), k));
            }
            let mut priors = Vec::new();
            // one case in five names the selections with digits that are not their position
            // (/1/ is the selection called "1", wherever it stands)
            let digit_names = g.tape.chance(1, 5);
            let case_names = !digit_names && g.tape.chance(1, 8);
            for i in 0..g.tape.below(3) {
                let k = *g.tape.pick(LEAF_KINDS);
                let e = g.expr(k, 2, &env);
                // (or, one case in ten, names that differ only in letter case)
                let name = if digit_names { format!("{}", (i + 1) % 3) } else if case_names { ["k", "K", "\u{e9}"][i % 3].to_string() } else { format!("s{}", i) };
                priors.push((e, name.clone()));
                env.sels.push((name, k));
            }
            // stratified root: every function is the root of the same number of cases
            let names = pure_function_names();
            let f = names[root % names.len()];
            let ss = sigs_of(f);
            let si = ss[(root / names.len()) % ss.len()];
            let e = g.call_sig(si, Any, depth, &env);
            let n = 1 + g.tape.below(3);
            let inputs = (0..n).map(|_| if g.tape.chance(1, 6) { g.lit(Any, 2) } else { g.record() }).collect();
            Case04 { e, vars, macros, priors, inputs, spell: Spell { alias, sep: if sep > 2 { 0 } else { sep }, sugar: false, pad: false, seed } }
        }
    }
}

pub struct C04Eval;
impl Check for C04Eval {
    type Case = Case04;
    fn name(&self) -> &'static str {
        "C04.eval"
    }
    fn cases(&self, tier: Tier) -> u64 {
        tier.pick(150_000, 5_000_000)
    }
    fn strategy(&self, _t: Tier) -> BoxedStrategy<Case04> {
        prop_oneof![3 => arb_case04(3), 2 => arb_case04(5), 1 => arb_case04(1)].boxed()
    }
    fn check(&self, c: &Case04) -> CaseResult {
        let mut args: Vec<String> = Vec::new();
        for (n, l) in &c.vars {
            args.push(format!("--set={}={}", n, l));
        }
        for (n, m) in &c.macros {
            args.push(format!("--set=@{}={}", n, canon(m)));
        }
        for (e, n) in &c.priors {
            args.push(select_arg(e, n, &Spell::CANON));
        }
        args.push(select_arg(&c.e, "x", &c.spell));
        let input: Vec<u8> = c.inputs.join("\n").into_bytes();
        let o = run(&args, &input);
        match &o.res {
            Res::Ok => {}
            Res::Panic(m) => return CaseResult::Fail(format!("panic: {} args {:?}", m, args)),
            other => return CaseResult::Fail(format!("a generated expression was rejected: {} args {:?}", other.short(), args)),
        }
        let rows: Vec<RVal> = match split_rows(&o.stdout, b"\n") {
            Ok(r) => r.into_iter().map(|x| x.0).collect(),
            Err(e) => return CaseResult::Fail(format!("unreadable output: {} ({})", e, esc_trunc(&o.stdout, 300))),
        };
        if rows.len() != c.inputs.len() {
            return CaseResult::Fail(format!("{} rows for {} inputs", rows.len(), c.inputs.len()));
        }
        let allow_unordered = c.e.uses_function(SYNTH) || c.macros.iter().any(|m| m.1.uses_function(SYNTH)) || c.priors.iter().any(|p| p.0.uses_function(SYNTH));
        let mut all_exprs: Vec<&Expr> = vec![&c.e];
        all_exprs.extend(c.macros.iter().map(|m| &m.1));
        all_exprs.extend(c.priors.iter().map(|p| &p.0));
        if order_sensitive(&all_exprs) {
            return CaseResult::Pass(Info::new(false).class("unspecified_member_order_observed"));
        }
        let mut judged = 0;
        let mut values = 0;
        let mut nothings = 0;
        let mut unspec = 0;
        let mut unordered_used = false;
        for (inp, row) in c.inputs.iter().zip(rows.iter()) {
            let Ok(iv) = parse_one(inp.as_bytes()) else { return CaseResult::Discard("input not parsable by the strict reader".into()) };
            let mut cx = Cx::top(iv);
            for (n, l) in &c.vars {
                match parse_one(l.as_bytes()) {
                    Ok(v) => cx.vars.push((n.clone(), v)),
                    Err(_) => return CaseResult::Discard("variable literal".into()),
                }
            }
            for (n, m) in &c.macros {
                cx.macros.push((n.clone(), m.clone()));
            }
            let mut ev_ok = true;
            for (pe, pn) in &c.priors {
                let mut evl = Evaluator::new();
                match evl.eval(pe, &cx) {
                    Ev::Val(v) => cx.sels.push((pn.clone(), v)),
                    _ => {
                        ev_ok = false;
                        break;
                    }
                }
            }
            if !ev_ok {
                unspec += 1;
                continue;
            }
            let mut evl = Evaluator::new();
            let ev = evl.eval(&c.e, &cx);
            let got = row.get("x");
            match judge(&ev, got, allow_unordered) {
                Verdict::Unspecified => unspec += 1,
                Verdict::Ok(u) => {
                    judged += 1;
                    unordered_used |= u;
                    if got.is_some() {
                        values += 1
                    } else {
                        nothings += 1
                    }
                }
                Verdict::Mismatch(exp) => {
                    return CaseResult::Fail(format!(
                        "{} on {} : jawk gives {}, the documentation prescribes {}",
                        print(&c.e, &c.spell),
                        trunc(inp, 400),
                        got.map(|g| g.to_json()).unwrap_or_else(|| "nothing".into()),
                        exp
                    ))
                }
            }
        }
        let f = c.e.root_function().unwrap_or("");
        let root_class: &'static str = FTAB_NAMES.iter().find(|n| **n == f).copied().unwrap_or("other");
        CaseResult::Pass(
            Info::new(judged > 0)
                .class_if(values > 0, "value_expected")
                .class_if(nothings > 0, "nothing_expected")
                .class_if(unspec > 0, "unspecified")
                .class_if(unordered_used, "accepted_up_to_member_order")
                .class_if(c.spell.alias, "alias_spelling")
                .class_if(c.e.any(&|x| matches!(x, Expr::Sel(_))), "uses_earlier_selection")
                .class_if(c.e.any(&|x| matches!(x, Expr::Var(_) | Expr::Mac(_))), "uses_variable_or_macro")
                .class(root_class)
                .class_if(judged == 0, UNJUDGED_NAMES.get(root_class).copied().unwrap_or("unjudged:other"))
                .obs(json!({"e": canon(&c.e), "x": rows.first().and_then(|r| r.get("x")).map(|v| trunc(&v.to_json(), 100))})),
        )
    }
}

/// "unjudged:<function>" class names (to see which functions the evaluator rarely decides)
pub static UNJUDGED_NAMES: std::sync::LazyLock<std::collections::HashMap<&'static str, &'static str>> =
    std::sync::LazyLock::new(|| crate::ftab::FTAB.iter().map(|d| (d.name, &*Box::leak(format!("unjudged:{}", d.name).into_boxed_str()))).collect());

/// 'static names for class counters
pub static FTAB_NAMES: std::sync::LazyLock<Vec<&'static str>> = std::sync::LazyLock::new(|| crate::ftab::FTAB.iter().map(|d| d.name).collect());

// ---------------------------------------------------------------- small-scope enumeration over wide pools

fn mix64(mut x: u64) -> u64 {
    x = x.wrapping_add(0x9e3779b97f4a7c15);
    x = (x ^ (x >> 30)).wrapping_mul(0xbf58476d1ce4e5b9);
    x = (x ^ (x >> 27)).wrapping_mul(0x94d049bb133111eb);
    x ^ (x >> 31)
}

/// replayable wrapper: a C04.pools case is a Case04 and is judged like any other
pub struct C04Pools;
impl Check for C04Pools {
    type Case = Case04;
    fn name(&self) -> &'static str {
        "C04.pools"
    }
    fn cases(&self, _t: Tier) -> u64 {
        0
    }
    fn strategy(&self, _t: Tier) -> BoxedStrategy<Case04> {
        arb_case04(1)
    }
    fn check(&self, c: &Case04) -> CaseResult {
        C04Eval.check(c)
    }
}

pub fn run_pools(ctx: &mut Ctx) {
    use crate::pools::*;
    let cap: u64 = ((ctx.tier.pick(2600u64, 60_000u64) as f64) * ctx.scale).ceil() as u64;
    let names = pure_function_names();
    // (signature, slots, product, cases)
    let mut plan: Vec<(usize, Vec<Slot>, u64, u64)> = Vec::new();
    for (si, s) in SIGS.iter().enumerate() {
        if !names.contains(&s.f) {
            continue;
        }
        if let Some(sl) = slots(si) {
            let prod: u64 = sl.iter().map(|x| slot_len(x) as u64).fold(1u64, |a, b| a.saturating_mul(b));
            let n = prod.min(cap);
            plan.push((si, sl, prod, n));
        }
    }
    let total: u64 = plan.iter().map(|p| p.3).sum();
    let complete = plan.iter().filter(|p| p.2 <= cap).count();
    let space = format!("{} signatures of {} functions called with literal arguments from the wide pools (harness/src/pools.rs): the whole product of the pools for {} signatures, a seeded sample of {} argument tuples for each of the others", plan.len(), names.len(), complete, cap);
    let seed = ctx.seed;
    let record = r#"{"n":1.5,"m":2,"i":1,"j":0,"s":"a","t":"ab","b":true,"c":false,"z":null,"an":[1,2],"as":["a"],"ab":[true],"ao":[{"k":"a","v":1,"g":"x"}],"aa":[[1]],"o":{"a":1},"os":{"a":"x"},"e":[],"eo":{},"ns":"1","nt":"2.5","ans":["1"],"re":"a+","tf":"%Y","js":"[1]"}"#;
    run_enum(ctx, "C04.pools", total, &space, |idx| {
        let mut rest = idx;
        let mut pi = 0;
        while rest >= plan[pi].3 {
            rest -= plan[pi].3;
            pi += 1;
        }
        let (si, sl, prod, _) = &plan[pi];
        let mut picks = Vec::with_capacity(sl.len());
        if *prod <= cap {
            let mut r = rest;
            for s in sl.iter() {
                let l = slot_len(s) as u64;
                picks.push((r % l) as usize);
                r /= l;
            }
        } else {
            let mut h = mix64(seed ^ mix64(*si as u64 ^ (rest << 16)));
            for s in sl.iter() {
                h = mix64(h);
                picks.push((h % slot_len(s) as u64) as usize);
            }
        }
        let e = build(*si, sl, &picks);
        let h = mix64(idx ^ seed);
        let case = Case04 { e, vars: vec![], macros: vec![], priors: vec![], inputs: vec![record.to_string()], spell: Spell { alias: h & 1 == 1, sep: ((h >> 1) % 3) as u8, sugar: false, pad: false, seed: h } };
        let res = C04Eval.check(&case);
        (Box::new(move || serde_json::to_value(&case).unwrap()), res)
    });
}

/// Time functions on a grid: parse_time / parse_time_with_zone on every combination of 14 years (1066 .. 9999),
/// 7 dates, 5 times of day, 8 fractions / 7 zones written in the three numeric layouts the
/// reference decides, and format_time on 28 instants (year 1 to 9999, before and after 1970) x every format of the pool.
pub struct C04Times;
impl Check for C04Times {
    type Case = Case04;
    fn name(&self) -> &'static str {
        "C04.times"
    }
    fn cases(&self, _t: Tier) -> u64 {
        0
    }
    fn strategy(&self, _t: Tier) -> BoxedStrategy<Case04> {
        arb_case04(1)
    }
    fn check(&self, c: &Case04) -> CaseResult {
        C04Eval.check(c)
    }
}

pub fn run_times(ctx: &mut Ctx) {
    const YEARS: [i32; 14] = [1970, 1999, 2000, 2023, 2024, 2038, 2100, 1066, 1500, 1677, 1678, 2262, 2263, 9999];
    const DATES: [(u32, u32); 7] = [(1, 1), (2, 28), (2, 29), (3, 1), (12, 31), (6, 15), (12, 3)];
    const TIMES: [(u32, u32, u32); 5] = [(0, 0, 0), (23, 59, 59), (13, 51, 55), (12, 0, 0), (0, 0, 1)];
    const FRACS: [&str; 8] = ["", ".5", ".25", ".360", ".360367", ".000001", ".999999", ".123456789"];
    const ZONES: [&str; 7] = ["+0000", "+0500", "-0330", "+1400", "-1200", "+0545", "-0001"];
    const INSTANTS: [&str; 28] = ["0", "1", "59", "60", "3599", "86399", "86400", "951782400", "951868800", "1701611515", "2147483647", "2147483648", "4102444799", "4102444800", "1.0", "68169600", "-1", "-86400", "-86401", "-2208988800", "-28526256000", "-62135596800", "32503680000", "99999999999", "100000000000", "100000000001", "253402300799", "4294967296"];
    let fmts = crate::pools::pool_lits(TimeFmt);
    let n_plain = (YEARS.len() * DATES.len() * TIMES.len() * FRACS.len()) as u64;
    let n_zone = (YEARS.len() * DATES.len() * TIMES.len() * ZONES.len()) as u64;
    let n_fmt = (INSTANTS.len() * fmts.len()) as u64;
    let total = n_plain + n_zone + n_fmt;
    let space = format!("parse_time: {} date-times x 8 fractions; parse_time_with_zone: {} date-times x 7 zones; format_time: 28 instants (year 1 to 9999) x {} formats", YEARS.len() * DATES.len() * TIMES.len(), YEARS.len() * DATES.len() * TIMES.len(), fmts.len());
    run_enum(ctx, "C04.times", total, &space, |idx| {
        let pick = |mut r: u64| {
            let y = YEARS[(r % 14) as usize];
            r /= 14;
            let (m, d) = DATES[(r % 7) as usize];
            r /= 7;
            let (hh, mi, ss) = TIMES[(r % 5) as usize];
            r /= 5;
            (y, m, d, hh, mi, ss, r)
        };
        let e = if idx < n_plain {
            let (y, m, d, hh, mi, ss, r) = pick(idx);
            let frac = FRACS[(r % 8) as usize];
            let fm = if frac.is_empty() { "\"%Y-%m-%dT%H:%M:%S\"" } else { "\"%Y-%m-%dT%H:%M:%S%.f\"" };
            Expr::call("parse_time", vec![Expr::Lit(format!("\"{:04}-{:02}-{:02}T{:02}:{:02}:{:02}{}\"", y, m, d, hh, mi, ss, frac)), Expr::Lit(fm.to_string())])
        } else if idx < n_plain + n_zone {
            let (y, m, d, hh, mi, ss, r) = pick(idx - n_plain);
            let z = ZONES[(r % 7) as usize];
            Expr::call("parse_time_with_zone", vec![Expr::Lit(format!("\"{:04}-{:02}-{:02} {:02}:{:02}:{:02} {}\"", y, m, d, hh, mi, ss, z)), Expr::Lit("\"%Y-%m-%d %H:%M:%S %z\"".to_string())])
        } else {
            let j = idx - n_plain - n_zone;
            Expr::call("format_time", vec![Expr::Lit(INSTANTS[(j % 28) as usize].to_string()), Expr::Lit(fmts[(j / 28) as usize].clone())])
        };
        let case = Case04 { e, vars: vec![], macros: vec![], priors: vec![], inputs: vec!["null".to_string()], spell: Spell { alias: idx % 2 == 1, sep: (idx % 3) as u8, sugar: false, pad: false, seed: idx } };
        let res = C04Eval.check(&case);
        (Box::new(move || serde_json::to_value(&case).unwrap()), res)
    });
}

/// replayable wrapper under a given name (cases are Case04 and judged like any other)
pub struct C04Named(pub &'static str);
impl Check for C04Named {
    type Case = Case04;
    fn name(&self) -> &'static str {
        self.0
    }
    fn cases(&self, _t: Tier) -> u64 {
        0
    }
    fn strategy(&self, _t: Tier) -> BoxedStrategy<Case04> {
        arb_case04(1)
    }
    fn check(&self, c: &Case04) -> CaseResult {
        C04Eval.check(c)
    }
}

/// Collections of more than 2^20 elements: N of take / take_last / sub, and the sizes, are not
/// capped anywhere near the sizes of everyday data.
pub fn run_big_collections(ctx: &mut Ctx) {
    let exprs: Vec<&'static str> = vec![
        "(size (range 1200000))",
        "(size (take (range 1200000) 1100000))",
        "(size (take_last (range 1200000) 1100000))",
        "(size (sub (range 1200000) 1100000 50000))",
        "(get (range 1200000) 1150000)",
        "(last (take (range 1200000) 1100000))",
        "(first (take_last (range 1200000) 1100000))",
        "(size (filter (range 1200000) (< . 1100000)))",
        "(sum (map (range 1100000) 1))",
        "(size (push (range 1100000) 1))",
        // many arguments (functions that take any number of them)
        "(zip [1] [2] [3] [4] [5] [6] [7] [8] [9] [10] [11] [12])",
        "(zip [1,2] [3] [4,5] [6] [7] [8] [9] [10] [11] [12] [13] [14] [15] [16] [17] [18] [19] [20] [21] [22] [23,24])",
        "(cross [1] [2] [3] [4] [5] [6] [7] [8] [9] [10] [11] [12])",
        "(push [] 1 2 3 4 5 6 7 8 9 10 11 12 13 14 15 16 17 18 19 20 21 22 23 24 25 26 27 28 29 30 31 32 33)",
        "(push_front [] 1 2 3 4 5 6 7 8 9 10 11 12 13 14 15 16 17 18 19 20 21 22 23 24 25 26 27 28 29 30 31 32 33)",
        "(+ 1 2 3 4 5 6 7 8 9 10 11 12 13 14 15 16 17 18 19 20 21 22 23 24 25 26 27 28 29 30 31 32 33)",
        "(* 1 2 1 2 1 2 1 2 1 2 1 2 1 2 1 2 1 2 1 2 1 2 1 2 1 2 1 2 1 2 1 2 3)",
        "(concat \"a\" \"b\" \"c\" \"d\" \"e\" \"f\" \"g\" \"h\" \"i\" \"j\" \"k\" \"l\" \"m\" \"n\" \"o\" \"p\" \"q\" \"r\" \"s\" \"t\")",
        "(and true true true true true true true true true true true true true true true true true false)",
        "(or false false false false false false false false false false false false false false false false false true)",
        "(default .n0 .n1 .n2 .n3 .n4 .n5 .n6 .n7 .n8 .n9 .n10 .n11 .n12 .n13 .n14 .n15 .n16 17)",
        "(| 1 (+ . 1) (+ . 1) (+ . 1) (+ . 1) (+ . 1) (+ . 1) (+ . 1) (+ . 1) (+ . 1) (+ . 1) (+ . 1) (+ . 1) (+ . 1) (+ . 1) (+ . 1) (+ . 1) (+ . 1) (+ . 1) (+ . 1) (+ . 1))",
        "(\"+\" \"1\" \"2\" \"3\" \"4\" \"5\" \"6\" \"7\" \"8\" \"9\" \"10\" \"11\" \"12\" \"13\" \"14\" \"15\" \"16\" \"17\" \"18\" \"19\" \"20\")",
    ];
    let total = exprs.len() as u64;
    run_enum(ctx, "C04.big_collections", total, "ten expressions over lists of 1.1 to 1.2 million elements, thirteen calls with 12 to 33 arguments", |idx| {
        let e = crate::pools::mini_parse(exprs[idx as usize]);
        let case = Case04 { e, vars: vec![], macros: vec![], priors: vec![], inputs: vec!["null".to_string()], spell: Spell::CANON };
        let res = C04Eval.check(&case);
        (Box::new(move || serde_json::to_value(&case).unwrap()), res)
    });
}

/// Extractor paths over member names of every shape the path syntax admits (anything but
/// whitespace, controls and `. , = ( ) " [ ] { } #`): non-ASCII names, names with `- _ : @ / ^ & ' +`,
/// digits; nested, through list indices, from inside a lambda with `^`.
pub const PATH_KEYS: &[&str] = &["a", "ab", "A", "k1", "1", "0", "2", "00", "10", "-", "a-b", "a_b", "x:y", "p@q", "a/b", "a^b", "a&b", "a'b", "a+b", "\u{e9}", "cl\u{e9}", "\u{fc}ber", "\u{65e5}\u{672c}", "\u{8a9e}", "\u{43a}\u{43b}\u{44e}\u{447}", "\u{5d0}", "\u{ffff}", "a\u{e9}b", "\u{e9}\u{e9}"];

pub struct C04Paths;
impl Check for C04Paths {
    type Case = Case04;
    fn name(&self) -> &'static str {
        "C04.paths"
    }
    fn cases(&self, _t: Tier) -> u64 {
        0
    }
    fn strategy(&self, _t: Tier) -> BoxedStrategy<Case04> {
        arb_case04(1)
    }
    fn check(&self, c: &Case04) -> CaseResult {
        C04Eval.check(c)
    }
}

pub fn run_paths(ctx: &mut Ctx) {
    let n = PATH_KEYS.len() as u64;
    const SHAPES: u64 = 12;
    let total = n * n * SHAPES;
    let space = format!("all {}^2 ordered pairs of member names x {} path shapes", n, SHAPES);
    run_enum(ctx, "C04.paths", total, &space, |idx| {
        let (k1, k2, shape) = (PATH_KEYS[(idx / (n * SHAPES)) as usize], PATH_KEYS[((idx / SHAPES) % n) as usize], idx % SHAPES);
        let js = |s: &str| {
            let mut t = String::new();
            write_json_string_utf8(s, &mut t);
            t
        };
        let inner = if k1 == k2 { format!("{{{}:7}}", js(k2)) } else { format!("{{{}:7,{}:\"w\"}}", js(k2), js(k1)) };
        let input = if k1 == k2 { format!("{{{}:{},\"zz\":[10,{{{}:\"deep\"}}]}}", js(k1), inner, js(k1)) } else { format!("{{{}:{},{}:[10,{{{}:\"deep\"}}],\"zz\":0}}", js(k1), inner, js(k2), js(k1)) };
        let key = |k: &str| Step::Key(k.to_string());
        let list = if k1 == k2 { "zz" } else { k2 };
        let e = match shape {
            0 => Expr::Path { up: 0, steps: vec![key(k1)] },
            1 => Expr::Path { up: 0, steps: vec![key(k1), key(k2)] },
            2 => Expr::Path { up: 0, steps: vec![key(list), Step::Idx(1), key(k1)] },
            3 => Expr::Path { up: 0, steps: vec![key(list), Step::Idx(0)] },
            4 => Expr::Path { up: 0, steps: vec![key(k1), key("missing")] },
            5 => Expr::Path { up: 0, steps: vec![key("missing"), key(k1)] },
            // an index far beyond the list (2^8, 2^16, 2^31, 2^32, 2^63 and neighbours, 2^64-1): nothing,
            // whatever the index is modulo a narrower width
            11 => {
                const FAR: [usize; 14] = [255, 256, 257, 65_535, 65_536, 65_537, 2_147_483_648, 4_294_967_295, 4_294_967_296, 4_294_967_297, 9_223_372_036_854_775_808, 9_223_372_036_854_775_809, 18_446_744_073_709_551_614, usize::MAX];
                let far = FAR[((idx / SHAPES) % FAR.len() as u64) as usize];
                Expr::call("default", vec![Expr::Path { up: 0, steps: vec![key(list), Step::Idx(far)] }, Expr::Path { up: 0, steps: vec![key(list), Step::Idx(far), key(k1)] }, Expr::Lit(format!("\"beyond {}\"", far))])
            }
            // a member name applied to a list and an index applied to an object are nothing,
            // also when the name is all digits and the list has that position
            8 => Expr::Path { up: 0, steps: vec![key(list), key(k1)] },
            9 => Expr::Path { up: 0, steps: vec![key(k1), Step::Idx(0)] },
            10 => Expr::call("map", vec![Expr::Lit(format!("[[{{{}:1}},[3,4,5],6],[[7,8,9],[10,11,12],[13,14,15]]]", js(k2))), Expr::Path { up: 0, steps: vec![key(k1), key(k2)] }]),
            6 => Expr::call("map", vec![Expr::Path { up: 0, steps: vec![key(list)] }, Expr::call("?", vec![Expr::call("number?", vec![Expr::dot()]), Expr::Path { up: 1, steps: vec![key(k1), key(k2)] }, Expr::Path { up: 0, steps: vec![key(k1)] }])]),
            _ => Expr::call("get", vec![Expr::Path { up: 0, steps: vec![key(k1)] }, Expr::Lit(js(k2))]),
        };
        let case = Case04 { e, vars: vec![], macros: vec![], priors: vec![], inputs: vec![input], spell: Spell { alias: false, sep: (idx % 3) as u8, sugar: false, pad: false, seed: idx } };
        let res = match C04Eval.check(&case) {
            CaseResult::Pass(i) => CaseResult::Pass(i.class("extractor_path").class_if(!k1.is_ascii() || !k2.is_ascii(), "non_ascii_member_name").class_if((8..=10).contains(&shape) && k1.bytes().all(|b| b.is_ascii_digit()), "digit_name_on_a_list_or_index_on_an_object").class_if(shape == 11, "index_far_beyond_the_list")),
            o => o,
        };
        (Box::new(move || serde_json::to_value(&case).unwrap()), res)
    });
}

/// `!=` is the negation of `=` (and "!=" of "=") on every pair, also where the documentation
/// leaves the value of `=` open (objects that differ in member order, integers beyond 2^53
/// against floats): a metamorphic relation that needs no expected value.
#[derive(Clone, Debug, Serialize, Deserialize)]
pub struct CaseNeg {
    pub a: String,
    pub b: String,
    /// the number-as-string pair "=" / "!="
    pub nas: bool,
}

pub struct C04Negation;
impl Check for C04Negation {
    type Case = CaseNeg;
    fn name(&self) -> &'static str {
        "C04.negation"
    }
    fn cases(&self, _t: Tier) -> u64 {
        0
    }
    fn strategy(&self, _t: Tier) -> BoxedStrategy<CaseNeg> {
        Just(CaseNeg { a: "1".into(), b: "1".into(), nas: false }).boxed()
    }
    fn check(&self, c: &CaseNeg) -> CaseResult {
        let (a, b) = (&c.a, &c.b);
        let (eqf, nef) = if c.nas { ("\"=\"", "\"!=\"") } else { ("=", "!=") };
        let args = vec![format!("--select=({} {} {}) = e", eqf, a, b), format!("--select=({} {} {}) = n", nef, a, b), format!("--select=({} {} {}) = r", eqf, b, a)];
        let o = run(&args, b"null");
        if !o.res.is_ok() {
            return CaseResult::Fail(format!("jawk failed: {} (args {:?})", o.res.short(), args));
        }
        let row = match parse_one(o.stdout.strip_suffix(b"\n").unwrap_or(&o.stdout)) {
            Ok(r) => r,
            Err(e) => return CaseResult::Fail(format!("unreadable output {}: {}", esc_trunc(&o.stdout, 200), e)),
        };
        let (e, ne, r) = (row.get("e").cloned(), row.get("n").cloned(), row.get("r").cloned());
        match (&e, &ne) {
            (Some(RVal::Bool(x)), Some(RVal::Bool(y))) if x != y => {
                if matches!(&r, Some(RVal::Bool(z)) if z == x) {
                    CaseResult::Pass(Info::new(a != b).class_if(*x, "equal").class_if(!*x, "different"))
                } else {
                    CaseResult::Fail(format!("({} a b) = {:?} but ({} b a) = {:?} for a = {} b = {}", eqf, e, eqf, r, a, b))
                }
            }
            (None, None) => CaseResult::Pass(Info::new(false).class("both_nothing")),
            _ => CaseResult::Fail(format!("({} a b) = {:?} but ({} a b) = {:?}: not each other's negation, for a = {} b = {}", eqf, e, nef, ne, a, b)),
        }
    }
}

pub fn run_negation(ctx: &mut Ctx) {
    use crate::pools::*;
    let mut vals = any_wide();
    vals.extend(obj_num_wide());
    vals.extend(obj_str_wide());
    vals.extend(obj_mixed_wide());
    vals.extend(arr_obj_wide().into_iter().take(7));
    vals.sort();
    vals.dedup();
    let nas = nas_wide();
    let (n, m) = (vals.len() as u64, nas.len() as u64);
    let total = n * n + m * m;
    let space = format!("all {}^2 pairs of the value pool for = / != and all {}^2 pairs of the number-as-string pool for \"=\" / \"!=\"", n, m);
    run_enum(ctx, "C04.negation", total, &space, |idx| {
        let c = if idx < n * n {
            CaseNeg { a: vals[(idx / n) as usize].clone(), b: vals[(idx % n) as usize].clone(), nas: false }
        } else {
            let j = idx - n * n;
            CaseNeg { a: nas[(j / m) as usize].clone(), b: nas[(j % m) as usize].clone(), nas: true }
        };
        let res = C04Negation.check(&c);
        (Box::new(move || serde_json::to_value(&c).unwrap()), res)
    });
}

/// The regular-expression functions on a complete grid: every pattern of the pool x 12 short
/// subjects x groups 0..3 (and `match`), so that a pattern class meets every subject it was made
/// for (the per-signature pools are sampled above a cap, which a pair of rare members can miss).
pub fn run_regex_grid(ctx: &mut Ctx) {
    let pats = crate::pools::regex_wide();
    const SUBJECTS: [&str; 12] = ["ab", "aab", "bab", "a b", "xfoo bar", "hello world", "aaa", "b", "", "2024-x", "ab ab", "a\u{e9}b"];
    let total = (pats.len() * SUBJECTS.len() * 5) as u64;
    let space = format!("all {} pool patterns x {} subjects x (match, extract_regex_group 0..3)", pats.len(), SUBJECTS.len());
    run_enum(ctx, "C04.regex_grid", total, &space, |idx| {
        let g = idx % 5;
        let sub = SUBJECTS[((idx / 5) % SUBJECTS.len() as u64) as usize];
        let pat = &pats[(idx / 5 / SUBJECTS.len() as u64) as usize];
        let mut st = String::new();
        write_json_string_utf8(sub, &mut st);
        let e = if g == 4 { Expr::call("match", vec![Expr::Lit(st), Expr::Lit(pat.clone())]) } else { Expr::call("extract_regex_group", vec![Expr::Lit(st), Expr::Lit(pat.clone()), Expr::Lit(g.to_string())]) };
        let case = Case04 { e, vars: vec![], macros: vec![], priors: vec![], inputs: vec!["null".to_string()], spell: Spell { alias: idx % 7 == 3, sep: (idx % 3) as u8, sugar: false, pad: false, seed: idx } };
        let res = C04Eval.check(&case);
        (Box::new(move || serde_json::to_value(&case).unwrap()), res)
    });
}

pub fn run_all(ctx: &mut Ctx) {
    ctx.rule = "expressions whose root is one of the 108 pure functions (stratified: each function and each of its signatures equally often), depth 1, 3 or 5, type-directed arguments with 3/16 ill-typed, boundary-biased sizes (N = size-1, size, size+1, 0), literals of all six types incl. empty/singleton collections and non-ASCII strings, extractors . .k #i ^, :var, @macro (--set), /name/ (earlier selections), printed with canonical names or aliases and space/comma separators x 1..3 inputs (schema records with absent and wrong-typed fields, or arbitrary values). Oracle: the reference evaluator written from the function documentation; unspecified points (string length unit for non-ASCII, order of different objects, tail, float indices, empty separators, ...) are not judged, floating-point results within relative 1e-12, member order of records synthesised by entries/indexed/fold/zip/cross not compared. non-trivial = at least one input was judged (expected value or expected nothing). C04.pools: every function signature called directly with literal arguments from wide per-kind pools (harness/src/pools.rs: 77 numbers incl. 1e-300, 2^53+-1, 2^63, 2^64-1; 58 strings incl. regex metacharacters and 65-byte strings with a common 64-byte prefix; 67 patterns; lists of 21, 33 and 40 elements; objects that differ in member order; lambda bodies that return nothing for some elements), the whole product when it is below the cap (2600 quick, 60000 thorough per signature), a seeded sample otherwise. C04.paths: extractor paths (.k, .k1.k2, .k#1.k, ^.k1.k2 inside a lambda) over all ordered pairs of 25 member names of every shape the path syntax admits (non-ASCII, punctuation, digits); same oracle. C04.times: parse_time / parse_time_with_zone over a grid of 245 date-times x 8 fractions / 7 zones in the three layouts the reference decides, format_time over 16 instants x every format of the pool. C04.big_collections: ten expressions over lists of 1.1 to 1.2 million elements (sizes, take / take_last / sub / get beyond 2^20) and thirteen calls of variadic functions with 12 to 33 arguments. C04.negation: != is the negation of = (and symmetric) on all pairs of a value pool, also where the value of = itself is left open; the same for \"=\" / \"!=\". C04.nas_sort: the number-as-string sort and its three aliases on up to 160 elements whose keys come from 16 value classes with several spellings each; oracle: stable sort by exact decimal value, elements without a key first (the documented example)".into();
    ctx.assumptions = vec!["the reference evaluator (harness/src/eval.rs) states the documentation correctly; a disagreement is first treated as a possible harness error".into()];
    C04Eval.run(ctx);
    run_pools(ctx);
    run_paths(ctx);
    run_times(ctx);
    run_regex_grid(ctx);
    run_big_collections(ctx);
    run_negation(ctx);
    crate::p07::C07NasSort.run(ctx);
}

pub fn checks() -> Vec<Box<dyn DynCheck>> {
    vec![Box::new(C04Eval), Box::new(C04Pools), Box::new(C04Paths), Box::new(C04Times), Box::new(C04Named("C04.big_collections")), Box::new(C04Named("C04.regex_grid")), Box::new(C04Negation), Box::new(crate::p07::C07NasSort)]
}
