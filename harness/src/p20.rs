//! C20 The executable: data vs diagnostics, exit code.

use crate::engine::*;
use crate::gen::*;
use crate::p06::{build_inputs, garbage_byte, POLICIES};
use crate::runner::*;
use proptest::collection::vec;
use proptest::prelude::*;
use serde::{Deserialize, Serialize};
use serde_json::json;
use std::io::{Read, Write};
use std::os::fd::FromRawFd;
use std::process::{Command, Stdio};

#[derive(Clone, Debug, Serialize, Deserialize)]
pub struct Case20 {
    pub values: Vec<String>,
    pub noise: Vec<Vec<BytesS>>,
    pub policy: u8,
    /// extra arguments: a valid pipeline or an invalid configuration
    pub extra: Vec<String>,
    /// whether `extra` is meant to be invalid
    pub invalid: bool,
    pub sep: String,
    /// 0 pipe read to the end, 1 pipe whose read end is already closed, 2 /dev/full
    pub sink: u8,
    /// standard error is /dev/full (diagnostics cannot be written)
    #[serde(default)]
    pub stderr_full: bool,
}

pub struct ChildOut {
    pub code: Option<i32>,
    pub stdout: Vec<u8>,
    pub stderr: Vec<u8>,
}

pub fn jawk_bin() -> Option<String> {
    std::env::var("JAWK_BIN").ok().filter(|p| std::path::Path::new(p).exists())
}

/// Every fork in this process happens under this lock. The "closed pipe" sink creates a pipe
/// and closes its read end; a fork of another thread in between would carry the read end into
/// a child for a moment, the pipe would have a reader, and the write of the jawk under test
/// would succeed - a race in the harness that was seen once under heavy load.
static SPAWN_LOCK: std::sync::Mutex<()> = std::sync::Mutex::new(());

pub fn spawn_jawk(bin: &str, args: &[String], input: &[u8], sink: u8) -> Result<ChildOut, String> {
    spawn_jawk2(bin, args, input, sink, false)
}

pub fn spawn_jawk2(bin: &str, args: &[String], input: &[u8], sink: u8, stderr_full: bool) -> Result<ChildOut, String> {
    let guard = SPAWN_LOCK.lock().unwrap_or_else(|e| e.into_inner());
    let mut cmd = Command::new(bin);
    cmd.args(args).stdin(Stdio::piped());
    if stderr_full {
        let f = std::fs::OpenOptions::new().write(true).open("/dev/full").map_err(|e| e.to_string())?;
        cmd.stderr(Stdio::from(f));
    } else {
        cmd.stderr(Stdio::piped());
    }
    match sink {
        0 => {
            cmd.stdout(Stdio::piped());
        }
        1 => {
            let mut fds = [0i32; 2];
            if unsafe { libc::pipe2(fds.as_mut_ptr(), libc::O_CLOEXEC) } != 0 {
                return Err("pipe failed".into());
            }
            unsafe { libc::close(fds[0]) };
            cmd.stdout(unsafe { Stdio::from_raw_fd(fds[1]) });
        }
        _ => {
            let f = std::fs::OpenOptions::new().write(true).open("/dev/full").map_err(|e| e.to_string())?;
            cmd.stdout(Stdio::from(f));
        }
    }
    let mut child = cmd.spawn().map_err(|e| format!("cannot spawn {}: {}", bin, e))?;
    drop(cmd); // closes the parent's copy of the write end
    drop(guard);
    let mut stdin = child.stdin.take().unwrap();
    let data = input.to_vec();
    let w = std::thread::spawn(move || {
        let _ = stdin.write_all(&data);
    });
    let mut out = Vec::new();
    let mut err = Vec::new();
    let so = child.stdout.take();
    let se = child.stderr.take();
    let t = std::thread::spawn(move || {
        let mut e = Vec::new();
        if let Some(mut se) = se {
            let _ = se.read_to_end(&mut e);
        }
        e
    });
    if let Some(mut so) = so {
        let _ = so.read_to_end(&mut out);
    }
    err.extend(t.join().unwrap_or_default());
    let st = child.wait().map_err(|e| e.to_string())?;
    let _ = w.join();
    Ok(ChildOut { code: st.code(), stdout: out, stderr: err })
}

pub struct C20Binary;
impl Check for C20Binary {
    type Case = Case20;
    fn name(&self) -> &'static str {
        "C20.binary"
    }
    fn cases(&self, tier: Tier) -> u64 {
        tier.pick(3_000, 80_000)
    }
    fn strategy(&self, _t: Tier) -> BoxedStrategy<Case20> {
        let val = prop_oneof![
            5 => (arb_gval(CharSet::Bmp, 2, 8), arb_spelling()).prop_map(|(v, sp)| serialise(&v, &sp)),
            3 => prop::sample::select(vec!["1", "true", "null", "\"a\"", "[]", "{}", "-0.5", "[1,2]", "{\"a\":1}"]).prop_map(|s| s.to_string()),
            // rows larger than the 1 KiB / 8 KiB buffers of the standard output handle
            1 => (1100usize..3000, prop::sample::select(vec!['x', 'y', ' '])).prop_map(|(n, c)| format!("\"{}\"", c.to_string().repeat(n))),
            1 => (8200usize..9000).prop_map(|n| format!("[{}1]", "1,".repeat(n / 2))),
        ];
        let gap = prop_oneof![
            3 => Just(Vec::<BytesS>::new()),
            1 => vec(vec(garbage_byte(), 1..3).prop_map(BytesS), 1..3),
        ];
        let valid: Vec<Vec<&str>> = vec![vec![], vec!["--select=.=v"], vec!["--filter=(not (null? .))"], vec!["--unique"], vec!["--sort-by=."], vec!["--merge"], vec!["--select=.=v", "--output-style=csv"], vec!["--take=2"], vec!["--select=.=v", "--select=&index=i", "--skip=1"]];
        let invalid: Vec<Vec<&str>> = vec![
            vec!["--select=(no_such_function .)"],
            vec!["--filter=(size . ."],
            vec!["--filter=(size . .)"],
            vec!["--sort-by=.a=UP"],
            vec!["--set=novalue"],
            vec!["--set=v=1", "--set=v=2"],
            vec!["--set=v=1 junk"],
            vec!["--split-by=.a junk"],
            vec!["--output-style=csv"],
            vec!["--output-style=csv", "--select=.=v", "--merge"],
            vec!["--output-style=text", "--style=pretty"],
            vec!["--headers"],
            vec!["--select=&nosuch"],
            vec!["--no-such-flag"],
            vec!["--on-error=sometimes"],
            vec!["--take=many"],
            vec!["--output-style=yaml"],
            vec!["--group-by=(concat \"a\""],
        ];
        let extra = prop_oneof![
            3 => prop::sample::select(valid).prop_map(|v| (v.iter().map(|s| s.to_string()).collect::<Vec<_>>(), false)),
            1 => prop::sample::select(invalid).prop_map(|v| (v.iter().map(|s| s.to_string()).collect::<Vec<_>>(), true)),
        ];
        (vec(val, 0..8), vec(gap, 9), 0u8..4, extra, prop::sample::select(vec!["\n", " ", ";", "\r\n", "--"]), prop_oneof![4 => Just(0u8), 1 => Just(1u8), 1 => Just(2u8)])
            .prop_map(|(values, mut noise, policy, (extra, invalid), sep, sink)| {
                noise.truncate(values.len() + 1);
                // one stderr-policy case in four has a standard error that cannot be written
                let stderr_full = policy == 2 && sink == 0 && !invalid && values.len() % 4 == 1;
                Case20 { values, noise, policy, extra, invalid, sep: sep.to_string(), sink, stderr_full }
            })
            .boxed()
    }
    fn check(&self, case: &Case20) -> CaseResult {
        let Some(bin) = jawk_bin() else { return CaseResult::Discard("JAWK_BIN not set".into()) };
        let (_, input) = build_inputs(&case.values, &case.noise);
        let mut args = case.extra.clone();
        // an explicit policy would hide the clap-level invalid value we test
        if !args.iter().any(|a| a.starts_with("--on-error=")) {
            args.push(format!("--on-error={}", POLICIES[case.policy as usize]));
        }
        args.push(format!("--row-seperator={}", case.sep));
        if args.iter().any(|a| a == "--unique") && !crate::univ::coherent_for_unique(&build_inputs(&case.values, &[]).0) {
            return CaseResult::Discard("--unique over values where jawk's = and hash disagree (outside C10's domain)".into());
        }
        let reference = run(&args, &input);
        let child = match spawn_jawk2(&bin, &args, &input, case.sink, case.stderr_full) {
            Ok(c) => c,
            Err(e) => return CaseResult::Discard(e),
        };
        if case.stderr_full {
            // diagnostics that cannot be written: the run has failed (exit status), and nothing of
            // them may turn up in the data stream instead
            let fail = |m: String| CaseResult::Fail(format!("{} [args {:?} input {} stderr=/dev/full]", m, args, esc_trunc(&input, 200)));
            let wanted_diagnostics = !reference.stderr.is_empty();
            if wanted_diagnostics && child.code == Some(0) {
                return fail(format!("the diagnostics could not be written to standard error but the executable exited with status 0; stdout {}", esc_trunc(&child.stdout, 200)));
            }
            if !wanted_diagnostics && reference.res.is_ok() && child.code != Some(0) {
                return fail(format!("nothing had to be written to standard error, yet the executable exited with {:?}", child.code));
            }
            if child.stdout.split(|c| *c == b'\n').any(|l| l.starts_with(b"error:")) {
                return fail(format!("an error: line reached standard output: {}", esc_trunc(&child.stdout, 200)));
            }
            if !reference.stdout.starts_with(&child.stdout) {
                return fail(format!("standard output {} is not a prefix of the library's {}", esc_trunc(&child.stdout, 200), esc_trunc(&reference.stdout, 200)));
            }
            return CaseResult::Pass(Info::new(wanted_diagnostics).class("stderr_is_dev_full").class_if(wanted_diagnostics, "failure:diagnostics_unwritable").obs(json!({"args": args.clone(), "exit": child.code})));
        }
        let noisy = case.noise.iter().any(|g| !g.is_empty());
        let lib_ok = reference.res.is_ok();
        let sink_fails = case.sink != 0 && !reference.stdout.is_empty();
        let should_succeed = lib_ok && !sink_fails;
        let failure_kind = if !lib_ok && case.invalid {
            "failure:invalid_configuration"
        } else if !lib_ok {
            "failure:panic_policy_or_input"
        } else if sink_fails {
            "failure:output"
        } else {
            "success"
        };
        let info = Info::new(!should_succeed || (case.policy == 2 && noisy))
            .class(failure_kind)
            .class(["policy:ignore", "policy:stdout", "policy:stderr", "policy:panic"][case.policy as usize])
            .class(["sink:pipe", "sink:closed_pipe", "sink:dev_full"][case.sink as usize])
            .class_if(!case.sep.contains('\n'), "separator_without_line_feed")
            .class_if(case.values.iter().any(|v| v.len() > 1024), "row_larger_than_1KiB")
            .obs(json!({"args": args.clone(), "exit": child.code, "stdout": esc_trunc(&child.stdout, 200), "stderr": esc_trunc(&child.stderr, 200)}));
        let fail = |m: String| CaseResult::Fail(format!("{} [args {:?} input {} sink {}]", m, args, esc_trunc(&input, 200), case.sink));
        if reference.res.is_panic() {
            return fail(format!("library panicked: {}", reference.res.short()));
        }
        if case.invalid && lib_ok {
            return CaseResult::Discard("configuration meant to be invalid is accepted by the library (C18's subject)".into());
        }
        let code = child.code;
        if should_succeed {
            if code != Some(0) {
                return fail(format!("the run succeeds in-process but the executable exited with {:?}; stderr {}", code, esc_trunc(&child.stderr, 300)));
            }
            if case.sink == 0 && child.stdout != reference.stdout {
                return fail(format!("stdout of the executable differs from the library's: {} vs {}", esc_trunc(&child.stdout, 300), esc_trunc(&reference.stdout, 300)));
            }
            if child.stderr != reference.stderr {
                return fail(format!("stderr of the executable {} differs from the library's error stream {}", esc_trunc(&child.stderr, 300), esc_trunc(&reference.stderr, 300)));
            }
            if case.policy == 2 {
                if child.stdout.split(|c| *c == b'\n').any(|l| l.starts_with(b"error:")) && !reference.stdout.split(|c| *c == b'\n').any(|l| l.starts_with(b"error:")) {
                    return fail("an error: line reached standard output under --on-error=stderr".into());
                }
                if child.stderr.split(|c| *c == b'\n').any(|l| !l.is_empty() && !l.starts_with(b"error:")) {
                    return fail(format!("standard error holds something else than error: lines: {}", esc_trunc(&child.stderr, 300)));
                }
            } else if !child.stderr.is_empty() {
                return fail(format!("standard error is not empty on a successful run: {}", esc_trunc(&child.stderr, 300)));
            }
        } else {
            if code == Some(0) {
                return fail(format!("the run failed ({}) but the executable exited with status 0; stderr {}", if lib_ok { "output could not be written".to_string() } else { reference.res.short() }, esc_trunc(&child.stderr, 200)));
            }
            if code.is_none() {
                return fail("the executable was killed by a signal".into());
            }
            if child.stderr.is_empty() {
                return fail(format!("exit status {:?} without any message on standard error", code));
            }
            if !lib_ok && case.invalid && !child.stdout.is_empty() {
                return fail(format!("invalid configuration but something was written to standard output: {}", esc_trunc(&child.stdout, 200)));
            }
            // a run stopped by --on-error=panic (or by an unreadable input) still owes the user the
            // rows of the values before the failure: all of them, as the library wrote them
            if !lib_ok && case.sink == 0 && child.stdout != reference.stdout {
                return fail(format!("rows before the failure differ from the library's: {} vs {}", esc_trunc(&child.stdout, 200), esc_trunc(&reference.stdout, 200)));
            }
        }
        CaseResult::Pass(info)
    }
}

/// An input that opens but cannot be read (stdin is a directory: EISDIR; a file argument
/// /proc/self/mem after a good file: EIO) x policies x pipelines: the executable must exit
/// with a non-zero status and say why on standard error - a read error is not end of input.
#[derive(Clone, Debug, Serialize, Deserialize)]
pub struct CaseUnreadable {
    pub args: Vec<String>,
    /// 0 stdin is a directory, 1 good file then /proc/self/mem
    pub source: u8,
}

fn run_unreadable(c: &CaseUnreadable) -> CaseResult {
    let Some(bin) = jawk_bin() else { return CaseResult::Discard("JAWK_BIN not set".into()) };
    let dir = crate::fifo::tmp_dir();
    let mut cmd = Command::new(&bin);
    cmd.args(&c.args).stdout(Stdio::piped()).stderr(Stdio::piped());
    let good = dir.join(format!("good-{:?}.json", std::thread::current().id()).replace(['(', ')'], ""));
    let mut expect_rows = false;
    if c.source == 0 {
        match std::fs::File::open(&dir) {
            Ok(f) => {
                cmd.stdin(Stdio::from(f));
            }
            Err(e) => return CaseResult::Discard(e.to_string()),
        }
    } else {
        if std::fs::write(&good, b"{\"a\":1}\n{\"a\":2}\n").is_err() {
            return CaseResult::Discard("cannot write temp file".into());
        }
        cmd.arg(&good).arg("/proc/self/mem").stdin(Stdio::null());
        expect_rows = true;
    }
    let out = {
        let guard = SPAWN_LOCK.lock().unwrap_or_else(|e| e.into_inner());
        let child = cmd.spawn();
        drop(guard);
        match child.and_then(|c| c.wait_with_output()) {
            Ok(o) => o,
            Err(e) => return CaseResult::Discard(format!("cannot spawn: {}", e)),
        }
    };
    let _ = std::fs::remove_file(&good);
    let _ = expect_rows;
    if out.status.code() == Some(0) {
        return CaseResult::Fail(format!("the input could not be read but the executable exited with status 0 (stdout {}, stderr {}) [args {:?} source {}]", esc_trunc(&out.stdout, 200), esc_trunc(&out.stderr, 200), c.args, c.source));
    }
    if out.status.code().is_none() {
        return CaseResult::Fail(format!("the executable was killed by a signal [args {:?}]", c.args));
    }
    if out.stderr.is_empty() {
        return CaseResult::Fail(format!("exit status {:?} without any message on standard error [args {:?}]", out.status.code(), c.args));
    }
    CaseResult::Pass(Info::new(true).class(if c.source == 0 { "stdin_is_a_directory" } else { "file_read_error_after_good_file" }).obs(json!({"args": c.args, "exit": out.status.code(), "stderr": esc_trunc(&out.stderr, 120)})))
}

pub struct C20Unreadable;
impl DynCheck for C20Unreadable {
    fn name(&self) -> &'static str {
        "C20.unreadable_input"
    }
    fn replay(&self, case: &serde_json::Value) -> Result<CaseResult, String> {
        let c: CaseUnreadable = serde_json::from_value(case.clone()).map_err(|e| e.to_string())?;
        Ok(run_unreadable(&c))
    }
    fn run(&self, ctx: &mut Ctx) {
        let pipes: Vec<Vec<&str>> = vec![vec![], vec!["--select=.a=v"], vec!["--sort-by=.a"], vec!["--unique"], vec!["--merge"], vec!["--group-by=(stringify .a)"], vec!["--select=.a=v", "--output-style=csv"], vec!["--take=5"], vec!["--sort-by=.a", "--take=1"]];
        let mut cases = Vec::new();
        for pol in POLICIES {
            for p in &pipes {
                for source in 0..2u8 {
                    let mut args: Vec<String> = p.iter().map(|x| x.to_string()).collect();
                    args.push(format!("--on-error={}", pol));
                    cases.push(CaseUnreadable { args, source });
                }
            }
        }
        let n = cases.len() as u64;
        let cases = std::sync::Arc::new(cases);
        run_enum(ctx, "C20.unreadable_input", n, "4 policies x 9 pipelines x {stdin is a directory, unreadable file after a good file}", move |idx| {
            let c = cases[idx as usize].clone();
            let r = run_unreadable(&c);
            (Box::new(move || vjson(&c)), r)
        });
    }
}

pub fn run_all(ctx: &mut Ctx) {
    if jawk_bin().is_none() {
        ctx.inconclusive.push("JAWK_BIN is not set or does not exist (the check driver builds the executable)".into());
        return;
    }
    ctx.rule = "the real executable (built from the current tree) spawned with pipes on 0..8 generated values with garbage between them x 4 --on-error policies x 9 valid pipelines / 18 invalid configurations (library-level and clap-level) x row separators with and without a line feed x stdout = {pipe read to the end, pipe whose read end is closed before the spawn, /dev/full}. Oracle: exit 0 iff the in-process run returns Ok and every output byte could be written; on success stdout and stderr are byte-identical to the library's streams (so --on-error=stderr reports are on standard error only); on failure exit != 0 with a message on standard error, and nothing on standard output for an invalid configuration. non-trivial = a failure case, or --on-error=stderr with noise".into();
    ctx.assumptions = vec!["the in-process run of the same arguments is the reference for the data (the library's behaviour is the subject of C01-C19)".into(), "no timing-dependent early-close variant (it would race)".into()];
    ctx.rule.push_str(". C20.unreadable_input: an input that opens but fails on read (stdin is a directory; /proc/self/mem after a good file) under every policy and 9 pipelines: non-zero exit status and a message on standard error");
    C20Binary.run(ctx);
    DynCheck::run(&C20Unreadable, ctx);
}

pub fn checks() -> Vec<Box<dyn DynCheck>> {
    vec![Box::new(C20Binary), Box::new(C20Unreadable)]
}
