//! Finite key universe (DESIGN §2.4), the specified total order, and jawk's own comparison
//! matrices over the universe (obtained from one in-process run per operator).

use crate::rjson::*;
use crate::runner::*;
use std::cmp::Ordering;
use std::sync::OnceLock;

/// JSON texts. Many numerically equal spellings, equal strings with different escapes,
/// nested equal collections. No -0, no integers >= 2^53 in magnitude, no member-order
/// permutations of the same object (excluded by the quantifiers of C07/C10).
pub const UNIVERSE: &[&str] = &[
    "null",
    "false",
    "true",
    // strings
    "\"\"",
    "\"a\"",
    "\"\\u0061\"",
    "\"b\"",
    "\"A\"",
    "\"aa\"",
    "\"ab\"",
    "\"\u{e9}\"",
    "\"\\u00e9\"",
    "\"\\u00E9\"",
    "\"z\"",
    "\"1\"",
    "\"10\"",
    "\"9\"",
    "\"1.0\"",
    "\" \"",
    "\"\\\"\"",
    "\"\\\\\"",
    "\"a\\nb\"",
    "\"a\\u000ab\"",
    "\"\\u0000\"",
    "\"~\"",
    "\"\\u007f\"",
    "\"\\u2028\"",
    "\"\u{65e5}\u{672c}\"",
    "\"\\uffff\"",
    "\"\\/\"",
    "\"/\"",
    "\"null\"",
    "\"true\"",
    // 64 bytes in common, then different (a key that is cut, hashed or compared by a prefix)
    "\"xxxxxxxxxxxxxxxxxxxxxxxxxxxxxxxxxxxxxxxxxxxxxxxxxxxxxxxxxxxxxxxx\"",
    "\"xxxxxxxxxxxxxxxxxxxxxxxxxxxxxxxxxxxxxxxxxxxxxxxxxxxxxxxxxxxxxxxxy\"",
    "\"xxxxxxxxxxxxxxxxxxxxxxxxxxxxxxxxxxxxxxxxxxxxxxxxxxxxxxxxxxxxxxxxz\"",
    "\"xxxxxxxxxxxxxxxxxxxxxxxxxxxxxxxxxxxxxxxxxxxxxxxxxxxxxxxxxxxxxxxxya\"",
    // numbers
    "0",
    "0.0",
    "0e5",
    "1",
    "1.0",
    "1e0",
    "10e-1",
    "0.1e1",
    "1.000",
    "-1",
    "-1.0",
    "-10E-1",
    "2",
    "10",
    "1e1",
    "1E1",
    "100",
    "1E2",
    "0.5",
    "5e-1",
    "0.25",
    "-0.5",
    "1.5",
    "15e-1",
    "3.14",
    "1e10",
    "10000000000",
    "1e-10",
    "2.5e3",
    "2500",
    "9007199254740991",
    "-9007199254740991",
    "5e-324",
    "123456789",
    "0.1",
    "0.2",
    "0.30000000000000004",
    // arrays
    "[]",
    "[1]",
    "[1.0]",
    "[1,2]",
    "[1, 2.0]",
    "[1,2,3]",
    "[2]",
    "[[]]",
    "[[1]]",
    "[null]",
    "[\"a\"]",
    "[\"\\u0061\"]",
    "[1,\"a\"]",
    "[true]",
    "[false]",
    "[[1],[2]]",
    "[{}]",
    "[{\"a\":1}]",
    "[{\"a\":1.0}]",
    "[1,[2,[3]]]",
    "[\"b\"]",
    "[[],[]]",
    // objects
    "{}",
    "{\"a\":1}",
    "{\"a\":1.0}",
    "{\"\\u0061\":1e0}",
    "{\"a\":2}",
    "{\"b\":1}",
    "{\"a\":1,\"b\":2}",
    "{\"a\":1,\"b\":2.0}",
    "{\"a\":{\"b\":1}}",
    "{\"a\":[1]}",
    "{\"a\":null}",
    "{\"\":0}",
    "{\"a\":\"x\"}",
    "{\"a\":1,\"b\":2,\"c\":3}",
    "{\"a\":[1,2]}",
    "{\"a\":{}}",
    // appended later (replay files hold indices, so new entries go to the end): doubles one unit
    // in the last place apart, alone and nested - equal only to themselves
    "0.3",
    "3e-1",
    "1.1",
    "1.1000000000000003",
    "4503599627370496.5",
    "4503599627370497.5",
    "[0.3]",
    "[0.30000000000000004]",
    "{\"a\":0.3}",
    "{\"a\":0.30000000000000004}",
];

pub fn universe_vals() -> &'static Vec<RVal> {
    static V: OnceLock<Vec<RVal>> = OnceLock::new();
    V.get_or_init(|| UNIVERSE.iter().map(|t| parse_one(t.as_bytes()).unwrap_or_else(|e| panic!("universe entry {} invalid: {}", t, e))).collect())
}

/// numbers of the universe are < 2^53 in magnitude or non-integral, so f64 comparison is exact
pub fn num_cmp(a: &RVal, b: &RVal) -> Ordering {
    a.as_f64().unwrap().partial_cmp(&b.as_f64().unwrap()).unwrap()
}

/// The specified order: null < false < true < strings by code point < numbers by value
/// < objects < arrays lexicographic. None = unspecified (two different objects, or arrays that
/// differ first at two different objects).
pub fn spec_cmp(a: &RVal, b: &RVal) -> Option<Ordering> {
    let (ra, rb) = (a.type_rank(), b.type_rank());
    if ra != rb {
        return Some(ra.cmp(&rb));
    }
    match (a, b) {
        (RVal::Null, RVal::Null) => Some(Ordering::Equal),
        (RVal::Bool(_), RVal::Bool(_)) => Some(Ordering::Equal), // same rank => same value
        (RVal::Str(x), RVal::Str(y)) => Some(x.as_bytes().cmp(y.as_bytes())),
        (x, y) if x.is_num() && y.is_num() => Some(num_cmp(x, y)),
        (RVal::Obj(_), RVal::Obj(_)) => {
            if ref_eq(a, b) {
                Some(Ordering::Equal)
            } else {
                None
            }
        }
        (RVal::Arr(x), RVal::Arr(y)) => {
            for (p, q) in x.iter().zip(y.iter()) {
                match spec_cmp(p, q) {
                    Some(Ordering::Equal) => {}
                    other => return other,
                }
            }
            Some(x.len().cmp(&y.len()))
        }
        _ => None,
    }
}

/// Reference equality: structural, numbers by value, strings by code points, member order kept.
pub fn ref_eq(a: &RVal, b: &RVal) -> bool {
    match (a, b) {
        (RVal::Null, RVal::Null) => true,
        (RVal::Bool(x), RVal::Bool(y)) => x == y,
        (RVal::Str(x), RVal::Str(y)) => x == y,
        (x, y) if x.is_num() && y.is_num() => x.as_f64() == y.as_f64(),
        (RVal::Arr(x), RVal::Arr(y)) => x.len() == y.len() && x.iter().zip(y).all(|(p, q)| ref_eq(p, q)),
        (RVal::Obj(x), RVal::Obj(y)) => x.len() == y.len() && x.iter().zip(y).all(|((k1, v1), (k2, v2))| k1 == k2 && ref_eq(v1, v2)),
        _ => false,
    }
}

pub struct Matrices {
    pub n: usize,
    /// m[op][i][j] for op in < <= > >= = !=   (None = jawk gave nothing / non-boolean)
    pub m: Vec<Vec<Vec<Option<bool>>>>,
}
pub const OPS: &[&str] = &["<", "<=", ">", ">=", "=", "!="];

pub fn universe_array_text() -> String {
    format!("[{}]", UNIVERSE.join(","))
}

/// Ask jawk for the full comparison matrices over the universe.
pub fn fetch_matrices() -> Result<Matrices, String> {
    let input = universe_array_text();
    let n = UNIVERSE.len();
    let mut m = Vec::new();
    for op in OPS {
        let sel = format!("--select=(map . (map ^ ({} ^ .)))=m", op);
        let out = run(&[sel, "--style=consise".to_string()], input.as_bytes());
        if !out.res.is_ok() {
            return Err(format!("jawk failed computing the {} matrix: {}", op, out.res.short()));
        }
        let rows = split_rows(&out.stdout, b"\n")?;
        if rows.len() != 1 {
            return Err(format!("{} matrix: {} rows", op, rows.len()));
        }
        let Some(RVal::Arr(outer)) = rows[0].0.get("m").cloned() else { return Err(format!("{} matrix missing", op)) };
        if outer.len() != n {
            return Err(format!("{} matrix has {} rows instead of {} (some comparison returned nothing)", op, outer.len(), n));
        }
        let mut mat = Vec::new();
        for r in outer {
            let RVal::Arr(r) = r else { return Err("matrix row is not an array".into()) };
            if r.len() != n {
                return Err(format!("{} matrix row has {} entries instead of {} (some comparison returned nothing)", op, r.len(), n));
            }
            mat.push(r.iter().map(|x| if let RVal::Bool(b) = x { Some(*b) } else { None }).collect::<Vec<_>>());
        }
        m.push(mat);
    }
    Ok(Matrices { n, m })
}

/// Strings whose code-point order differs from their UTF-16 code-unit order (characters beyond
/// U+FFFF against U+E000..U+FFFF), from their order after case folding, and from the order of
/// their lengths: `<` and both sorts must follow the code points. Only booleans and positions
/// are read back, never the strings themselves (how such characters are printed is C02's
/// subject and has a known finding).
pub const ORDER_STRINGS: &[&str] = &["", "A", "Z", "a", "aa", "ab", "b", "z", "~", "\u{7f}", "\u{80}", "\u{e9}", "\u{7ff}", "\u{800}", "\u{d7ff}", "\u{e000}", "\u{ff5a}", "\u{ffff}", "\u{10000}", "\u{1f600}", "\u{1f600}a", "\u{10ffff}"];

pub fn check_string_order() -> Result<(usize, Vec<String>), String> {
    let n = ORDER_STRINGS.len();
    let lit = |s: &str| {
        let mut t = String::new();
        write_json_string_utf8(s, &mut t);
        t
    };
    // arrival order: a fixed shuffle
    let order: Vec<usize> = (0..n).map(|i| (i * 7 + 3) % n).collect();
    let arr = format!("[{}]", order.iter().map(|i| lit(ORDER_STRINGS[*i])).collect::<Vec<_>>().join(","));
    let mut errs = Vec::new();
    let sel = "--select=(map . (map ^ (< ^ .)))=m".to_string();
    let out = run(&[sel, "--style=consise".to_string()], arr.as_bytes());
    if !out.res.is_ok() {
        return Err(format!("jawk failed computing the < matrix of the strings: {}", out.res.short()));
    }
    let rows = split_rows(&out.stdout, b"\n")?;
    let Some(RVal::Arr(outer)) = rows.first().and_then(|r| r.0.get("m").cloned()) else { return Err("< matrix missing".into()) };
    for (a, row) in outer.iter().enumerate() {
        let RVal::Arr(row) = row else { return Err("matrix row is not a list".into()) };
        for (b, x) in row.iter().enumerate() {
            let (i, j) = (order[a], order[b]);
            // ORDER_STRINGS is written in increasing code-point order
            if !matches!(x, RVal::Bool(v) if *v == (i < j)) {
                errs.push(format!("(< {:?} {:?}) is {} but the code points say {}", ORDER_STRINGS[i], ORDER_STRINGS[j], x.to_json(), i < j));
            }
        }
    }
    let stream: String = order.iter().map(|i| format!("{{\"k\":{},\"id\":{}}}\n", lit(ORDER_STRINGS[*i]), i)).collect();
    for (what, args, input) in [
        ("(sort_by ..)", vec!["--select=(map (sort_by (indexed .) .value) .index)=s".to_string(), "--style=consise".to_string()], arr.clone()),
        ("--sort-by", vec!["--sort-by=.k".to_string(), "--select=.id=id".to_string(), "--style=consise".to_string()], stream.clone()),
        ("--sort-by DESC", vec!["--sort-by=.k=DESC".to_string(), "--select=.id=id".to_string(), "--style=consise".to_string()], stream.clone()),
    ] {
        let o = run(&args, input.as_bytes());
        let rows = split_rows(&o.stdout, b"\n")?;
        let ids: Vec<usize> = if what == "(sort_by ..)" {
            rows.first().and_then(|r| r.0.get("s").cloned()).and_then(|v| if let RVal::Arr(a) = v { Some(a.iter().filter_map(|x| if let RVal::Int(i) = x { Some(order[*i as usize]) } else { None }).collect()) } else { None }).unwrap_or_default()
        } else {
            rows.iter().filter_map(|r| if let Some(RVal::Int(i)) = r.0.get("id") { Some(*i as usize) } else { None }).collect()
        };
        let exp: Vec<usize> = if what.ends_with("DESC") { (0..n).rev().collect() } else { (0..n).collect() };
        if ids != exp {
            errs.push(format!("{} puts the strings in the order {:?}, the code points say {:?}", what, ids, exp));
        }
    }
    errs.truncate(8);
    Ok((n * n + 3 * n, errs))
}

/// Objects that differ only in member order (which `=` ignores and the order does not), and
/// objects whose texts sort between them: the four order functions must still describe one
/// total preorder - dual (`>` is `<` swapped, `>=` is `<=` swapped), complementary (`<` is
/// not `>=`), total and transitive. `=` plays no part here (C07 does not mention it).
pub const PERMUTED: &[&str] = &[
    "{\"a\":1,\"b\":2}", "{\"b\":2,\"a\":1}", "{\"a\":1,\"b\":3}", "{\"a\":1,\"b\":1}", "{\"b\":1,\"a\":1}", "{\"a\":1,\"b\":2,\"c\":0}", "{\"c\":0,\"b\":2,\"a\":1}", "{\"b\":2,\"c\":0,\"a\":1}", "{\"a\":{\"x\":1,\"y\":2}}",
    "{\"a\":{\"y\":2,\"x\":1}}", "{\"a\":{\"x\":1,\"y\":3}}", "[{\"a\":1,\"b\":2}]", "[{\"b\":2,\"a\":1}]", "[{\"a\":1,\"b\":3}]", "{\"a\":1}", "{\"b\":2}", "{}", "{\"a\":2,\"b\":0}", "{\"b\":0,\"a\":2}", "{\"a\":1,\"c\":0}",
];

pub fn check_permuted_axioms() -> Result<(usize, Vec<String>), String> {
    let n = PERMUTED.len();
    let input = format!("[{}]", PERMUTED.join(","));
    let mut m: Vec<Vec<Vec<Option<bool>>>> = Vec::new();
    for op in &OPS[..4] {
        let sel = format!("--select=(map . (map ^ ({} ^ .)))=m", op);
        let out = run(&[sel, "--style=consise".to_string()], input.as_bytes());
        if !out.res.is_ok() {
            return Err(format!("jawk failed computing the {} matrix: {}", op, out.res.short()));
        }
        let rows = split_rows(&out.stdout, b"\n")?;
        let Some(RVal::Arr(outer)) = rows.first().and_then(|r| r.0.get("m").cloned()) else { return Err(format!("{} matrix missing", op)) };
        let mat: Vec<Vec<Option<bool>>> = outer.iter().map(|r| if let RVal::Arr(r) = r { r.iter().map(|x| if let RVal::Bool(b) = x { Some(*b) } else { None }).collect() } else { vec![] }).collect();
        if mat.len() != n || mat.iter().any(|r| r.len() != n || r.iter().any(|x| x.is_none())) {
            return Err(format!("{} matrix incomplete (a comparison returned nothing)", op));
        }
        m.push(mat);
    }
    let g = |op: usize, i: usize, j: usize| m[op][i][j].unwrap();
    let t = |i: usize| PERMUTED[i];
    let mut errs = Vec::new();
    for i in 0..n {
        for j in 0..n {
            let (lt, le, gt, ge) = (g(0, i, j), g(1, i, j), g(2, i, j), g(3, i, j));
            if gt != g(0, j, i) {
                errs.push(format!("(> a b) differs from (< b a) for {} and {}", t(i), t(j)));
            }
            if ge != g(1, j, i) {
                errs.push(format!("(>= a b) differs from (<= b a) for {} and {}", t(i), t(j)));
            }
            if lt == ge {
                errs.push(format!("(< a b) and (>= a b) are both {} for {} and {}", lt, t(i), t(j)));
            }
            if gt == le {
                errs.push(format!("(> a b) and (<= a b) are both {} for {} and {}", gt, t(i), t(j)));
            }
            if !le && !g(1, j, i) {
                errs.push(format!("neither a <= b nor b <= a for {} and {}", t(i), t(j)));
            }
        }
        if !g(1, i, i) {
            errs.push(format!("<= is not reflexive for {}", t(i)));
        }
    }
    for i in 0..n {
        for j in 0..n {
            if !g(1, i, j) {
                continue;
            }
            for k in 0..n {
                if g(1, j, k) && !g(1, i, k) {
                    errs.push(format!("<= is not transitive: {} <= {} <= {} but not {} <= {}", t(i), t(j), t(k), t(i), t(k)));
                }
            }
        }
    }
    // every sort agrees with <=, whatever the arrival order
    for (name, rot) in [("as listed", 0usize), ("rotated by 7", 7), ("reversed", usize::MAX)] {
        let order: Vec<usize> = if rot == usize::MAX { (0..n).rev().collect() } else { (0..n).map(|i| (i + rot) % n).collect() };
        let arr = format!("[{}]", order.iter().map(|i| PERMUTED[*i]).collect::<Vec<_>>().join(","));
        let stream: String = order.iter().map(|i| format!("{{\"k\":{},\"id\":{}}}\n", PERMUTED[*i], i)).collect();
        let o1 = run(&["--select=(map (sort_by (indexed .) .value) .index)=s".to_string(), "--style=consise".to_string()], arr.as_bytes());
        let o2 = run(&["--sort-by=.k".to_string(), "--select=.id=id".to_string(), "--style=consise".to_string()], stream.as_bytes());
        let ids1: Vec<usize> = split_rows(&o1.stdout, b"\n")?.first().and_then(|r| r.0.get("s").cloned()).and_then(|v| if let RVal::Arr(a) = v { Some(a.iter().filter_map(|x| if let RVal::Int(i) = x { Some(order[*i as usize]) } else { None }).collect()) } else { None }).unwrap_or_default();
        let ids2: Vec<usize> = split_rows(&o2.stdout, b"\n")?.iter().filter_map(|r| if let Some(RVal::Int(i)) = r.0.get("id") { Some(*i as usize) } else { None }).collect();
        for (what, ids) in [("(sort_by ..)", &ids1), ("--sort-by", &ids2)] {
            if ids.len() != n {
                errs.push(format!("{} on the objects {} returned {} of {} elements", what, name, ids.len(), n));
                continue;
            }
            for w in ids.windows(2) {
                if !g(1, w[0], w[1]) {
                    errs.push(format!("{} on the objects {} puts {} before {} although (<= a b) is false", what, name, t(w[0]), t(w[1])));
                }
            }
        }
    }
    errs.truncate(12);
    Ok((n * n * 4 + 6 * n, errs))
}

/// Check the order axioms and the agreement with the specified order. Returns the list of
/// discrepancies (empty = fine).
pub fn check_axioms(mx: &Matrices) -> Vec<String> {
    let u = universe_vals();
    let n = mx.n;
    let mut errs = Vec::new();
    let get = |op: usize, i: usize, j: usize| mx.m[op][i][j];
    let t = |i: usize| UNIVERSE[i];
    for i in 0..n {
        for j in 0..n {
            let (lt, le, gt, ge, eq, ne) = (get(0, i, j), get(1, i, j), get(2, i, j), get(3, i, j), get(4, i, j), get(5, i, j));
            if [lt, le, gt, ge, eq, ne].iter().any(|x| x.is_none()) {
                errs.push(format!("a comparison of {} and {} is not a boolean", t(i), t(j)));
                continue;
            }
            let (lt, le, gt, ge, eq, ne) = (lt.unwrap(), le.unwrap(), gt.unwrap(), ge.unwrap(), eq.unwrap(), ne.unwrap());
            // totality / trichotomy
            if (lt as u8) + (eq as u8) + (gt as u8) != 1 {
                errs.push(format!("not exactly one of < = > holds for {} and {} (<:{} =:{} >:{})", t(i), t(j), lt, eq, gt));
            }
            if le != (lt || eq) {
                errs.push(format!("<= is not (< or =) for {} and {}", t(i), t(j)));
            }
            if ge != (gt || eq) {
                errs.push(format!(">= is not (> or =) for {} and {}", t(i), t(j)));
            }
            if ne == eq {
                errs.push(format!("!= is not the negation of = for {} and {}", t(i), t(j)));
            }
            if gt != get(0, j, i).unwrap_or(!gt) {
                errs.push(format!("(> a b) differs from (< b a) for {} and {}", t(i), t(j)));
            }
            if eq != get(4, j, i).unwrap_or(!eq) {
                errs.push(format!("= is not symmetric for {} and {}", t(i), t(j)));
            }
            // agreement with the reference equality and the specified order
            if eq != ref_eq(&u[i], &u[j]) {
                errs.push(format!("(= {} {}) is {} but the values are {}equal", t(i), t(j), eq, if eq { "not " } else { "" }));
            }
            if let Some(o) = spec_cmp(&u[i], &u[j]) {
                if lt != (o == Ordering::Less) {
                    errs.push(format!("(< {} {}) is {} but the specified order says {:?}", t(i), t(j), lt, o));
                }
            }
            if errs.len() > 20 {
                return errs;
            }
        }
        if get(4, i, i) != Some(true) {
            errs.push(format!("= is not reflexive for {}", t(i)));
        }
    }
    // transitivity of <= over all triples
    for i in 0..n {
        for j in 0..n {
            if get(1, i, j) != Some(true) {
                continue;
            }
            for k in 0..n {
                if get(1, j, k) == Some(true) && get(1, i, k) != Some(true) {
                    errs.push(format!("<= is not transitive: {} <= {} <= {} but not {} <= {}", t(i), t(j), t(k), t(i), t(k)));
                    if errs.len() > 20 {
                        return errs;
                    }
                }
            }
        }
    }
    errs
}

pub struct Order {
    pub n: usize,
    pub lt: Vec<Vec<bool>>,
    pub eq: Vec<Vec<bool>>,
}

impl Order {
    pub fn cmp(&self, i: usize, j: usize) -> Ordering {
        if self.eq[i][j] {
            Ordering::Equal
        } else if self.lt[i][j] {
            Ordering::Less
        } else {
            Ordering::Greater
        }
    }
}

/// jawk's own order over the universe, after it passed the axioms. Cached per process.
/// Err = the matrices could not be obtained or violate the axioms (reported by C07.axioms /
/// C10.equality; other checks that need the order then use the reference order instead).
pub fn jawk_order() -> &'static Result<Order, String> {
    static O: OnceLock<Result<Order, String>> = OnceLock::new();
    O.get_or_init(|| {
        let mx = fetch_matrices()?;
        let errs = check_axioms(&mx);
        if !errs.is_empty() {
            return Err(errs.join("; "));
        }
        let n = mx.n;
        let lt = (0..n).map(|i| (0..n).map(|j| mx.m[0][i][j] == Some(true)).collect()).collect();
        let eq = (0..n).map(|i| (0..n).map(|j| mx.m[4][i][j] == Some(true)).collect()).collect();
        Ok(Order { n, lt, eq })
    })
}

/// Reference order over the universe built from spec_cmp, with unspecified pairs (different
/// objects) ordered by their universe index — used only as a fallback so that other checks can
/// still run when jawk's matrices are broken.
pub fn ref_order() -> &'static Order {
    static O: OnceLock<Order> = OnceLock::new();
    O.get_or_init(|| {
        let u = universe_vals();
        let n = u.len();
        let mut lt = vec![vec![false; n]; n];
        let mut eq = vec![vec![false; n]; n];
        for i in 0..n {
            for j in 0..n {
                match spec_cmp(&u[i], &u[j]) {
                    Some(Ordering::Less) => lt[i][j] = true,
                    Some(Ordering::Equal) => eq[i][j] = true,
                    Some(Ordering::Greater) => {}
                    None => lt[i][j] = i < j,
                }
            }
        }
        Order { n, lt, eq }
    })
}

pub fn order() -> &'static Order {
    match jawk_order() {
        Ok(o) => o,
        Err(_) => ref_order(),
    }
}

/// indices of universe entries by type, for generators
pub fn idx_where(f: impl Fn(&RVal) -> bool) -> Vec<usize> {
    universe_vals().iter().enumerate().filter(|(_, v)| f(v)).map(|(i, _)| i).collect()
}


/// `--unique` (a hash set) is only coherent where jawk's `=` and its hash agree. They do not
/// for integers of magnitude >= 2^53 against an equal double, for the literal -0, and for
/// objects that are equal up to member order - the quantifiers of C07/C10 exclude exactly
/// these - and there the kept rows depend on the per-process hash seed. Checks that put
/// arbitrary generated values through --unique use this predicate to stay inside the domain.
pub fn coherent_for_unique(input: &[u8]) -> bool {
    // -0 (also -0.0, -0e1): a minus sign followed by zeros only
    let mut i = 0;
    while i < input.len() {
        if input[i] == b'-' {
            let mut j = i + 1;
            let mut zero_only = j < input.len();
            while j < input.len() && (input[j].is_ascii_digit() || matches!(input[j], b'.' | b'e' | b'E' | b'+' | b'-')) {
                if matches!(input[j], b'1'..=b'9') {
                    zero_only = false;
                }
                if matches!(input[j], b'e' | b'E') {
                    break;
                }
                j += 1;
            }
            if zero_only && j > i + 1 {
                return false;
            }
        }
        i += 1;
    }
    let vals: Vec<RVal> = match parse_stream(input) {
        Ok(v) => v.into_iter().map(|x| x.0).collect(),
        Err(_) => {
            // noisy input: judge the number tokens textually (16 or more digits = may reach 2^53)
            let mut run = 0;
            for b in input {
                if b.is_ascii_digit() {
                    run += 1;
                    if run >= 16 {
                        return false;
                    }
                } else if !matches!(b, b'.') {
                    run = 0;
                }
            }
            return !input.windows(2).any(|w| matches!(w[0], b'e' | b'E') && (w[1].is_ascii_digit() || matches!(w[1], b'+' | b'-')));
        }
    };
    fn walk(v: &RVal, keysets: &mut Vec<Vec<String>>) -> bool {
        match v {
            RVal::Int(i) => i.unsigned_abs() < (1u128 << 53),
            RVal::Float(f) => f.abs() < 9007199254740992.0,
            RVal::Arr(a) => a.iter().all(|x| walk(x, keysets)),
            RVal::Obj(o) => {
                keysets.push(o.iter().map(|m| m.0.clone()).collect());
                o.iter().all(|m| walk(&m.1, keysets))
            }
            _ => true,
        }
    }
    let mut keysets = Vec::new();
    if !vals.iter().all(|v| walk(v, &mut keysets)) {
        return false;
    }
    // two objects with the same members in a different order
    for (i, a) in keysets.iter().enumerate() {
        for b in &keysets[i + 1..] {
            if a.len() == b.len() && a.len() > 1 && a != b {
                let (mut x, mut y) = (a.clone(), b.clone());
                x.sort();
                y.sort();
                if x == y {
                    return false;
                }
            }
        }
    }
    true
}
