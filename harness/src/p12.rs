//! C12 Bindings are lexical and transparent; pipes and later selects keep their inputs.

use crate::bind::*;
use crate::engine::*;
use crate::expr::Kind::*;
use crate::expr::*;
use crate::rjson::*;
use crate::runner::*;
use proptest::collection::vec;
use proptest::prelude::*;
use serde::{Deserialize, Serialize};
use serde_json::json;

fn rows_of(o: &Outcome) -> Result<Vec<RVal>, String> {
    Ok(split_rows(&o.stdout, b"\n")?.into_iter().map(|x| x.0).collect())
}

fn member_text(row: &RVal, k: &str) -> Option<String> {
    row.get(k).map(|v| v.to_json())
}

// ---------------------------------------------------------------- substitution

#[derive(Clone, Debug, Serialize, Deserialize)]
pub struct CaseSubst {
    /// variable under test: name, literal value
    pub var: (String, String),
    /// macro under test: name, body
    pub mac: (String, Expr),
    /// second macro whose body may use the first one and the variable
    #[serde(default)]
    pub mac2: Option<(String, Expr)>,
    /// the expression that uses them
    pub e: Expr,
    /// optional --split-by in front (so that `^` exists at top level)
    pub split: Option<Expr>,
    /// how many unrelated selections come before (position of e among the --select options)
    pub before: usize,
    pub records: Vec<String>,
}

pub struct C12Subst;
impl Check for C12Subst {
    type Case = CaseSubst;
    fn name(&self) -> &'static str {
        "C12.subst"
    }
    fn cases(&self, tier: Tier) -> u64 {
        tier.pick(40_000, 1_500_000)
    }
    fn strategy(&self, _t: Tier) -> BoxedStrategy<CaseSubst> {
        (vec(any::<u32>(), 0..300), 0usize..4)
            .prop_map(|(tape, before)| {
                let mut g = Gen::new(&tape, GenCfg { ill: 1, bind_bias: true, exclude: vec!["exec", "trigger", "now", "env", "parse_selection"], ..GenCfg::default() });
                let mut env = Env::top();
                let split = if g.tape.chance(1, 3) {
                    let ak = *g.tape.pick(CONCRETE_ARR);
                    let f = RECORD.iter().find(|r| r.1 == ak).map(|r| r.0).unwrap_or("an");
                    env = env.with_dot(elem_kind(ak));
                    Some(Expr::key(0, f))
                } else {
                    None
                };
                let vk = *g.tape.pick(LEAF_KINDS);
                // (among the names: some that a convenience feature might bind by itself inside function arguments)
                let vname = g.tape.pick_s(&["v", "w", "foo", "v1", "index", "value", "key", "item", "i", "acc", "v.w", "index.a", "foo.n"]).to_string();
                let vlit = g.lit(vk, 2);
                let mk = *g.tape.pick(&[Num, Str, Bool, Any, ArrNum]);
                let mname = g.tape.pick_s(&["m", "w", "add-1", "v", "index", "value"]).to_string();
                // the macro body may use the variable
                let mut env_m = env.clone();
                env_m.vars.push((vname.clone(), vk));
                let mbody = g.expr(mk, 2, &env_m);
                let mut env_e = env_m.clone();
                env_e.macros.push((mname.clone(), mk));
                let mac2 = if g.tape.chance(1, 2) {
                    let k2 = *g.tape.pick(&[Num, Str, Bool, Any]);
                    let b2 = g.expr(k2, 2, &env_e);
                    env_e.macros.push(("n2".to_string(), k2));
                    Some(("n2".to_string(), b2))
                } else {
                    None
                };
                let k = *g.tape.pick(LEAF_KINDS);
                let mut e = g.expr(k, 4, &env_e);
                let mut mbody = mbody;
                let mut mac2 = mac2;
                if g.tape.chance(1, 4) {
                    // directed shape: the variable is read by m, m by n2, and n2 / m are used several
                    // times under different rebindings of the variable (one textual macro reference,
                    // several evaluations on the same record with different bindings in scope)
                    let collect = |a: Expr, b: Expr| Expr::call("push", vec![Expr::lit("[]"), a, b]);
                    if !mentions(&mbody, Some(&vname), None) {
                        mbody = collect(mbody, Expr::Var(vname.clone()));
                    }
                    let b2 = match mac2.take() {
                        Some((_, b)) if mentions(&b, None, Some(&mname)) => b,
                        Some((_, b)) => collect(b, Expr::Mac(mname.clone())),
                        None => collect(Expr::Mac(mname.clone()), Expr::dot()),
                    };
                    mac2 = Some(("n2".to_string(), b2));
                    let rebind = |g: &mut Gen, x: Expr| {
                        let l = g.lit(vk, 1);
                        Expr::call("set", vec![Expr::str_lit(&vname), Expr::Lit(l), x])
                    };
                    let u1 = rebind(&mut g, Expr::Mac("n2".into()));
                    let u2 = rebind(&mut g, Expr::Mac("n2".into()));
                    let u3 = rebind(&mut g, Expr::Mac(mname.clone()));
                    e = Expr::call("push", vec![Expr::lit("[]"), u1, Expr::Mac("n2".into()), u2, e, u3, Expr::Mac(mname.clone())]);
                }
                let nrec = 1 + g.tape.below(3);
                let records = (0..nrec).map(|_| g.record()).collect();
                CaseSubst { var: (vname, vlit), mac: (mname, mbody), mac2, e, split, before, records }
            })
            .boxed()
    }
    fn check(&self, c: &CaseSubst) -> CaseResult {
        let (vn, vl) = (&c.var.0, &c.var.1);
        let (mn, mb) = (&c.mac.0, &c.mac.1);
        // fully substituted form
        let mut st: Stack = vec![(vn.clone(), Bound::VarLit(vl.clone())), (mn.clone(), Bound::Macro(mb.clone()))];
        if let Some((n2, b2)) = &c.mac2 {
            st.push((n2.clone(), Bound::Macro(b2.clone())));
        }
        let mut fuel = 20_000;
        let s = match expand(&c.e, &mut st, &mut fuel) {
            Ok(s) => s,
            Err(m) => return CaseResult::Discard(m),
        };
        if s.size() > 3000 {
            return CaseResult::Discard("expansion too large".into());
        }
        // in-expression binding forms
        let vname_lit = Expr::str_lit(vn);
        let mname_lit = Expr::str_lit(mn);
        let inner = match &c.mac2 {
            Some((n2, b2)) => Expr::call("define", vec![Expr::str_lit(n2), b2.clone(), c.e.clone()]),
            None => c.e.clone(),
        };
        let f_set_def = Expr::call("set", vec![vname_lit.clone(), Expr::Lit(vl.clone()), Expr::call("define", vec![mname_lit.clone(), mb.clone(), inner.clone()])]);
        let f_def_set = Expr::call("define", vec![mname_lit, mb.clone(), Expr::call("set", vec![vname_lit, Expr::Lit(vl.clone()), inner])]);
        // a dotted name (v.w) is a name like any other: with the prefix (v) bound as well - to an
        // object that has the suffix as a member - :v.w is still the variable v.w. The decoy binding
        // goes around every form, the substituted one included.
        let decoy: Option<(String, String)> = vn.split_once('.').map(|(p, q)| (p.to_string(), format!("{{\"{}\":\"decoy\"}}", q)));
        let wrap = |x: Expr| match &decoy {
            Some((p, lit)) => Expr::call("set", vec![Expr::str_lit(p), Expr::Lit(lit.clone()), x]),
            None => x,
        };
        let (f_set_def, f_def_set, s) = (wrap(f_set_def), wrap(f_def_set), wrap(s));
        let sp = Spell::CANON;
        let mut base: Vec<String> = Vec::new();
        if let Some(e) = &c.split {
            base.push(format!("--split-by={}", print(e, &sp)));
        }
        for i in 0..c.before {
            base.push(format!("--select={} = u{}", ["(len .)", ".n", "^.s", "(map .an (+ . 1))"][i % 4], i));
        }
        let mut a1 = base.clone();
        a1.push(select_arg(&f_set_def, "a", &sp));
        a1.push(select_arg(&f_def_set, "b", &sp));
        a1.push(select_arg(&s, "c", &sp));
        let mut a2 = vec![format!("--set={}={}", vn, vl), format!("--set=@{}={}", mn, print(mb, &sp))];
        if let Some((p, lit)) = &decoy {
            // before or after the binding it must not disturb
            let at = if vl.len() % 2 == 0 { 0 } else { a2.len() };
            a2.insert(at, format!("--set={}={}", p, lit));
        }
        if let Some((n2, b2)) = &c.mac2 {
            a2.push(format!("--set=@{}={}", n2, print(b2, &sp)));
        }
        a2.extend(base.clone());
        a2.push(select_arg(&c.e, "a", &sp));
        let input: Vec<u8> = c.records.join("\n").into_bytes();
        let o1 = run(&a1, &input);
        let o2 = run(&a2, &input);
        for (o, what) in [(&o1, "in-expression forms"), (&o2, "--set forms")] {
            match &o.res {
                Res::Ok => {}
                Res::Panic(m) => return CaseResult::Fail(format!("panic ({}): {}", what, m)),
                other => return CaseResult::Fail(format!("run with the {} failed: {} (args {:?})", what, other.short(), if what.starts_with("in") { &a1 } else { &a2 })),
            }
        }
        let (r1, r2) = match (rows_of(&o1), rows_of(&o2)) {
            (Ok(a), Ok(b)) => (a, b),
            (Err(e), _) | (_, Err(e)) => return CaseResult::Fail(format!("unreadable output: {}", e)),
        };
        if r1.len() != r2.len() {
            return CaseResult::Fail(format!("{} rows with in-expression bindings, {} rows with --set", r1.len(), r2.len()));
        }
        let mut some = false;
        for (i, (x, y)) in r1.iter().zip(r2.iter()).enumerate() {
            let a = member_text(x, "a");
            let b = member_text(x, "b");
            let cc = member_text(x, "c");
            let d = member_text(y, "a");
            some |= cc.is_some();
            if a != cc || b != cc || d != cc {
                return CaseResult::Fail(format!(
                    "row {}: substituted form = {:?}; (set (define e)) = {:?}; (define (set e)) = {:?}; --set forms = {:?}\n e = {}\n substituted = {}",
                    i,
                    cc,
                    a,
                    b,
                    d,
                    canon(&c.e),
                    canon(&s)
                ));
            }
        }
        let uses = mentions(&c.e, Some(vn), Some(mn));
        let under = binding_under_lambda(&c.e, Some(vn), Some(mn));
        let parent = c.e.uses_parent() || mb.uses_parent();
        let shadow = c.e.any(&|x| matches!(x, Expr::Call { f, args } if (f == "set" || f == "define") && matches!(args.first(), Some(Expr::Lit(t)) if t == &format!("\"{}\"", vn) || t == &format!("\"{}\"", mn))));
        CaseResult::Pass(
            Info::new(uses && some && (under || c.split.is_some() || c.before > 0))
                .class_if(uses, "uses_binding")
                .class_if(under, "binding_used_inside_functional_argument")
                .class_if(parent, "parent_dereferenced")
                .class_if(under && parent, "parent_and_binding_under_lambda")
                .class_if(c.split.is_some(), "after_split")
                .class_if(c.before > 0, "not_first_select")
                .class_if(shadow, "shadowing")
                .class_if(decoy.is_some(), "dotted_name_next_to_its_prefix")
                .class_if(c.mac2.as_ref().map(|m| mentions(&m.1, None, Some(mn)) && mentions(&c.e, None, Some("n2"))).unwrap_or(false), "macro_inside_macro")
                .class_if(some, "non_nothing_result")
                .obs(json!({"e": canon(&c.e), "substituted": canon(&s), "var": c.var, "macro": [mn, canon(mb)]})),
        )
    }
}

// ---------------------------------------------------------------- pipe

#[derive(Clone, Debug, Serialize, Deserialize)]
pub struct CasePipe {
    pub a: Expr,
    pub b: Expr,
    /// third stage that only uses `.` (None = two stages)
    pub c: Option<Expr>,
    pub records: Vec<String>,
}

pub struct C12Pipe;
impl Check for C12Pipe {
    type Case = CasePipe;
    fn name(&self) -> &'static str {
        "C12.pipe"
    }
    fn cases(&self, tier: Tier) -> u64 {
        tier.pick(30_000, 1_000_000)
    }
    fn strategy(&self, _t: Tier) -> BoxedStrategy<CasePipe> {
        vec(any::<u32>(), 0..200)
            .prop_map(|tape| {
                let mut g = Gen::new(&tape, GenCfg { ill: 1, bindings: false, exclude: vec!["exec", "trigger", "now", "env", "parse_selection", "|"], ..GenCfg::default() });
                let env = Env::top();
                let ak = *g.tape.pick(&[Num, Str, ArrNum, ArrStr, ArrObj, ObjNum, Rec, Bool, Any]);
                // now and then a stage that returns its input unchanged
                let a = if g.tape.chance(1, 8) { Expr::dot() } else { g.expr(ak, 2, &env) };
                let env_b = env.with_dot(ak);
                let bk = *g.tape.pick(&[Num, Str, ArrNum, Bool, Any, Arr]);
                let b = if g.tape.chance(1, 8) { Expr::dot() } else { g.expr(bk, 3, &env_b) };
                let c = if g.tape.chance(1, 2) {
                    // third stage: `.` = b's value, `^` = a's value, `^^` = the pipe's input
                    let env_c = env_b.with_dot(bk);
                    Some(g.expr(Any, 2, &env_c))
                } else {
                    None
                };
                let nrec = 1 + g.tape.below(3);
                let records = (0..nrec).map(|_| g.record()).collect();
                CasePipe { a, b, c, records }
            })
            .boxed()
    }
    fn check(&self, c: &CasePipe) -> CaseResult {
        let sp = Spell::CANON;
        // (| a b)  ==  first of (map [a] b): map gives b the element as `.` and the caller's
        // input as `^`, which is what the property says about pipe
        let via_map = |x: &Expr, y: &Expr| Expr::call("first", vec![Expr::call("map", vec![Expr::call("push", vec![Expr::lit("[]"), x.clone()]), y.clone()])]);
        // three stages: nested maps, so that inside c `.` = b's value, `^` = a's value and
        // `^^` = the pipe's input - "the previous input as its parent", stage by stage
        let (pipe, model) = match &c.c {
            None => (Expr::call("|", vec![c.a.clone(), c.b.clone()]), via_map(&c.a, &c.b)),
            Some(cc) => (Expr::call("|", vec![c.a.clone(), c.b.clone(), cc.clone()]), via_map(&c.a, &via_map(&c.b, cc))),
        };
        let args = vec![select_arg(&pipe, "p", &sp), select_arg(&model, "m", &sp), select_arg(&c.a, "a", &sp)];
        // second formulation: --split-by=[a] then select b (`.` = a's value, `^` = the input)
        let args2 = vec![format!("--split-by={}", print(&Expr::call("push", vec![Expr::lit("[]"), c.a.clone()]), &sp)), select_arg(c.c.as_ref().map(|cc| via_map(&c.b, cc)).as_ref().unwrap_or(&c.b), "s", &sp)];
        let mut nontrivial = false;
        let mut parent_used = false;
        for r in &c.records {
            let o = run(&args, r.as_bytes());
            if !o.res.is_ok() {
                return CaseResult::Fail(format!("run failed: {} args {:?}", o.res.short(), args));
            }
            let rows = match rows_of(&o) {
                Ok(r) => r,
                Err(e) => return CaseResult::Fail(e),
            };
            if rows.len() != 1 {
                return CaseResult::Fail(format!("{} rows for one input", rows.len()));
            }
            let p = member_text(&rows[0], "p");
            let m = member_text(&rows[0], "m");
            if p != m {
                return CaseResult::Fail(format!("(| a b ..) = {:?} but b applied to a's value with the input as parent = {:?}; pipe {} ; input {}", p, m, canon(&pipe), trunc(r, 300)));
            }
            let o2 = run(&args2, r.as_bytes());
            if !o2.res.is_ok() {
                return CaseResult::Fail(format!("run failed: {} args {:?}", o2.res.short(), args2));
            }
            let rows2 = match rows_of(&o2) {
                Ok(r) => r,
                Err(e) => return CaseResult::Fail(e),
            };
            let s = rows2.first().and_then(|x| member_text(x, "s"));
            if rows2.len() > 1 || s != p {
                return CaseResult::Fail(format!("(| a b ..) = {:?} but --split-by=[a] --select=b gives {:?} ({} rows); pipe {} ; input {}", p, s, rows2.len(), canon(&pipe), trunc(r, 300)));
            }
            if p.is_some() {
                nontrivial = true;
            }
        }
        parent_used |= c.b.uses_parent() || c.c.as_ref().map(|x| x.uses_parent()).unwrap_or(false);
        let identity_stage = c.a == Expr::dot() || c.b == Expr::dot();
        CaseResult::Pass(
            Info::new(nontrivial && (parent_used || c.c.is_some()))
                .class_if(parent_used, "stage_reads_parent")
                .class_if(c.c.is_some(), "three_stages")
                .class_if(identity_stage, "identity_stage")
                .class_if(c.c.as_ref().map(|x| x.uses_parent()).unwrap_or(false), "third_stage_reads_parent")
                .class_if(nontrivial, "non_nothing_result")
                .obs(json!({"pipe": canon(&pipe)})),
        )
    }
}

// ---------------------------------------------------------------- later selects

#[derive(Clone, Debug, Serialize, Deserialize)]
pub struct CaseSel {
    pub split: Option<Expr>,
    pub filter: Option<Expr>,
    /// the expression that is selected several times
    pub x: Expr,
    /// other selections interleaved: (expr, goes before copy k)
    pub others: Vec<Expr>,
    pub copies: usize,
    pub records: Vec<String>,
}

pub struct C12Selects;
impl Check for C12Selects {
    type Case = CaseSel;
    fn name(&self) -> &'static str {
        "C12.selects"
    }
    fn cases(&self, tier: Tier) -> u64 {
        tier.pick(30_000, 1_000_000)
    }
    fn strategy(&self, _t: Tier) -> BoxedStrategy<CaseSel> {
        vec(any::<u32>(), 0..200)
            .prop_map(|tape| {
                let mut g = Gen::new(&tape, GenCfg { ill: 1, exclude: vec!["exec", "trigger", "now", "env", "parse_selection"], ..GenCfg::default() });
                let mut env = Env::top();
                let split = if g.tape.chance(2, 3) {
                    let ak = *g.tape.pick(CONCRETE_ARR);
                    let f = RECORD.iter().find(|r| r.1 == ak).map(|r| r.0).unwrap_or("an");
                    env = env.with_dot(elem_kind(ak));
                    Some(Expr::key(0, f))
                } else {
                    None
                };
                let filter = if g.tape.chance(1, 4) { Some(g.expr(Bool, 2, &env)) } else { None };
                let k = *g.tape.pick(LEAF_KINDS);
                let x = g.expr(k, 3, &env);
                let copies = 2 + g.tape.below(3);
                let no = g.tape.below(4);
                let others = (0..no).map(|_| g.expr(Any, 2, &env)).collect();
                let nrec = 1 + g.tape.below(3);
                let records = (0..nrec).map(|_| g.record()).collect();
                CaseSel { split, filter, x, others, copies, records }
            })
            .boxed()
    }
    fn check(&self, c: &CaseSel) -> CaseResult {
        let sp = Spell::CANON;
        let mut args = Vec::new();
        if let Some(e) = &c.split {
            args.push(format!("--split-by={}", print(e, &sp)));
        }
        if let Some(e) = &c.filter {
            args.push(format!("--filter={}", print(e, &sp)));
        }
        let mut oi = 0;
        for k in 0..c.copies {
            args.push(select_arg(&c.x, &format!("x{}", k), &sp));
            if oi < c.others.len() {
                args.push(select_arg(&c.others[oi], &format!("o{}", oi), &sp));
                oi += 1;
            }
        }
        let input: Vec<u8> = c.records.join("\n").into_bytes();
        let o = run(&args, &input);
        if !o.res.is_ok() {
            return CaseResult::Fail(format!("run failed: {} args {:?}", o.res.short(), args));
        }
        let rows = match rows_of(&o) {
            Ok(r) => r,
            Err(e) => return CaseResult::Fail(e),
        };
        let mut some = false;
        for (i, r) in rows.iter().enumerate() {
            let first = member_text(r, "x0");
            some |= first.is_some();
            for k in 1..c.copies {
                let v = member_text(r, &format!("x{}", k));
                if v != first {
                    return CaseResult::Fail(format!("row {}: --select number {} of the same expression gives {:?}, the first gives {:?}; x = {}; args {:?}", i, k + 1, v, first, canon(&c.x), args));
                }
            }
        }
        let parent = c.x.uses_parent();
        CaseResult::Pass(
            Info::new(some && parent && !rows.is_empty())
                .class_if(c.split.is_some(), "after_split")
                .class_if(parent, "reads_parent")
                .class_if(parent && c.split.is_some() && some, "parent_after_split_non_nothing")
                .class_if(c.filter.is_some(), "filter")
                .obs(json!({"x": canon(&c.x), "rows": rows.len()})),
        )
    }
}

// ---------------------------------------------------------------- (set n <expression> e): the value is computed where the set stands

#[derive(Clone, Debug, Serialize, Deserialize)]
pub struct CaseSetValue {
    /// input-dependent value expression
    pub x: Expr,
    pub e: Expr,
    pub records: Vec<String>,
}

pub struct C12SetValue;
impl Check for C12SetValue {
    type Case = CaseSetValue;
    fn name(&self) -> &'static str {
        "C12.set_value"
    }
    fn cases(&self, tier: Tier) -> u64 {
        tier.pick(20_000, 600_000)
    }
    fn strategy(&self, _t: Tier) -> BoxedStrategy<CaseSetValue> {
        vec(any::<u32>(), 0..300)
            .prop_map(|tape| {
                let mut g = Gen::new(&tape, GenCfg { ill: 1, bind_bias: true, exclude: vec!["exec", "trigger", "now", "env", "parse_selection"], ..GenCfg::default() });
                let env = Env::top();
                let xk = *g.tape.pick(&[Num, Str, Bool, ArrNum, Int, ObjNum, Any]);
                // values that exist on the empty input too (default .., type tests, stringify) are the interesting ones
                let x = match g.tape.below(4) {
                    0 => Expr::call("default", vec![g.expr(xk, 1, &env), Expr::Lit(g.lit(xk, 1))]),
                    1 => Expr::call("stringify", vec![g.expr(xk, 1, &env)]),
                    _ => g.expr(xk, 2, &env),
                };
                let mut env2 = env.clone();
                env2.vars.push(("sv".to_string(), xk));
                let k = *g.tape.pick(LEAF_KINDS);
                let e = g.expr(k, 3, &env2);
                let n = 1 + g.tape.below(3);
                let records = (0..n).map(|_| g.record()).collect();
                CaseSetValue { x, e, records }
            })
            .boxed()
    }
    fn check(&self, c: &CaseSetValue) -> CaseResult {
        let sp = Spell::CANON;
        let name = Expr::lit("\"sv\"");
        let bound = Expr::call("set", vec![name.clone(), c.x.clone(), c.e.clone()]);
        let mut nt = false;
        for r in &c.records {
            // the value of x on this record, as jawk prints it
            let o = run(&[select_arg(&c.x, "xv", &sp), select_arg(&bound, "a", &sp)], r.as_bytes());
            if !o.res.is_ok() {
                return CaseResult::Fail(format!("run failed: {} ({})", o.res.short(), canon(&bound)));
            }
            let rows = match rows_of(&o) {
                Ok(x) => x,
                Err(e) => return CaseResult::Fail(e),
            };
            let Some(row) = rows.first() else { return CaseResult::Fail("no row".into()) };
            let a = member_text(row, "a");
            let expect = match row.get("xv") {
                None => None, // nothing cannot be bound: the whole (set ..) is nothing
                Some(v) => {
                    let lit = Expr::Lit(v.to_json());
                    let o2 = run(&[select_arg(&Expr::call("set", vec![name.clone(), lit, c.e.clone()]), "a", &sp)], r.as_bytes());
                    if !o2.res.is_ok() {
                        return CaseResult::Fail(format!("run with the literal value failed: {}", o2.res.short()));
                    }
                    match rows_of(&o2) {
                        Ok(x) => x.first().and_then(|w| member_text(w, "a")),
                        Err(e) => return CaseResult::Fail(e),
                    }
                }
            };
            if a != expect {
                return CaseResult::Fail(format!("(set \"sv\" X e) gives {:?}, but with X's value on this record written as a literal it gives {:?}; X = {} = {:?}; e = {}; record {}", a, expect, canon(&c.x), row.get("xv").map(|v| v.to_json()), canon(&c.e), trunc(r, 300)));
            }
            nt |= a.is_some() && mentions(&c.e, Some("sv"), None);
        }
        CaseResult::Pass(Info::new(nt).class_if(mentions(&c.e, Some("sv"), None), "uses_variable").class_if(c.x.any(&|x| matches!(x, Expr::Path { .. })), "value_reads_input").weight(2).obs(json!({"x": canon(&c.x), "e": canon(&c.e)})))
    }
}

// ---------------------------------------------------------------- --set bindings in every option

#[derive(Clone, Debug, Serialize, Deserialize)]
pub struct CasePreset {
    pub var: (String, String),
    pub mac: (String, Expr),
    pub e: Expr,
    /// 0 --split-by, 1 --filter, 2 --sort-by, 3 --group-by, 4 --select, 5 the macro (which reads
    /// /A/) selected before and after the selection A
    pub position: u8,
    pub records: Vec<String>,
}

pub struct C12Preset;
impl Check for C12Preset {
    type Case = CasePreset;
    fn name(&self) -> &'static str {
        "C12.preset_positions"
    }
    fn cases(&self, tier: Tier) -> u64 {
        tier.pick(30_000, 1_000_000)
    }
    fn strategy(&self, _t: Tier) -> BoxedStrategy<CasePreset> {
        (vec(any::<u32>(), 0..300), 0u8..6)
            .prop_map(|(tape, position)| {
                let mut g = Gen::new(&tape, GenCfg { ill: 1, bind_bias: true, ctx: true, exclude: vec!["exec", "trigger", "now", "env", "parse_selection"], ..GenCfg::default() });
                let mut env = Env::top();
                // the kind the position wants, so that the option does something
                let want = [ArrNum, Bool, Num, Str, Any, Any][position as usize];
                let vk = if g.tape.chance(1, 2) { want } else { *g.tape.pick(LEAF_KINDS) };
                let vname = g.tape.pick_s(&["v", "w", "foo", "index", "value", "key"]).to_string();
                let vlit = g.lit(vk, 2);
                env.vars.push((vname.clone(), vk));
                let mk = if g.tape.chance(1, 2) { want } else { *g.tape.pick(&[Num, Str, Bool, ArrNum]) };
                let mut mbody = g.expr(mk, 2, &env);
                if position == 5 {
                    // the macro reads a selection that is made between its two uses
                    mbody = Expr::call("default", vec![Expr::Sel("A".into()), mbody]);
                }
                env.macros.push(("m".to_string(), mk));
                let e = if position == 5 { Expr::Mac("m".into()) } else { g.expr(want, 3, &env) };
                let n = 2 + g.tape.below(4);
                let records = (0..n).map(|_| g.record()).collect();
                CasePreset { var: (vname, vlit), mac: ("m".to_string(), mbody), e, position, records }
            })
            .boxed()
    }
    fn check(&self, c: &CasePreset) -> CaseResult {
        let sp = Spell::CANON;
        let mut st: Stack = vec![(c.var.0.clone(), Bound::VarLit(c.var.1.clone())), (c.mac.0.clone(), Bound::Macro(c.mac.1.clone()))];
        let mut fuel = 20_000;
        let s = match expand(&c.e, &mut st, &mut fuel) {
            Ok(s) => s,
            Err(m) => return CaseResult::Discard(m),
        };
        let opt = |e: &Expr| -> Vec<String> {
            let t = print(e, &sp);
            match c.position {
                0 => vec![format!("--split-by={}", t)],
                1 => vec![format!("--filter={}", t)],
                2 => vec![format!("--sort-by={} DESC", t)],
                3 => vec![format!("--group-by={}", t)],
                5 => vec![format!("--select={} = x0", t), "--select=.n = A".into(), format!("--select={} = x1", t)],
                _ => vec![format!("--select={} = x", t), "--select=.n = n".into()],
            }
        };
        let mut a1 = vec![format!("--set={}={}", c.var.0, c.var.1), format!("--set=@{}={}", c.mac.0, print(&c.mac.1, &sp))];
        a1.extend(opt(&c.e));
        let a2 = opt(&s);
        let input: Vec<u8> = c.records.join("\n").into_bytes();
        let o1 = run(&a1, &input);
        let o2 = run(&a2, &input);
        if o1.res.is_panic() || o2.res.is_panic() {
            return CaseResult::Fail(format!("panic: {} / {}", o1.res.short(), o2.res.short()));
        }
        if !o2.res.is_ok() {
            return CaseResult::Fail(format!("the substituted configuration is rejected: {} args {:?}", o2.res.short(), a2));
        }
        if o1.res != o2.res || o1.stdout != o2.stdout {
            return CaseResult::Fail(format!(
                "with --set bindings {:?} prints {} {}, with the bindings substituted by hand {:?} prints {}",
                a1,
                o1.res.short(),
                esc_trunc(&o1.stdout, 300),
                a2,
                esc_trunc(&o2.stdout, 300)
            ));
        }
        let uses = mentions(&c.e, Some(&c.var.0), Some(&c.mac.0));
        let effect = match c.position {
            0 | 1 => !o1.stdout.is_empty(),
            3 => o1.stdout.len() > 3,
            _ => o1.stdout.len() > 3,
        };
        CaseResult::Pass(
            Info::new(uses && effect)
                .class(["in_split_by", "in_filter", "in_sort_by", "in_group_by", "in_select", "macro_before_and_after_the_selection_it_reads"][c.position as usize % 6])
                .class_if(uses, "uses_binding")
                .class_if(c.mac.1.any(&|x| matches!(x, Expr::Ctx(_))), "macro_reads_the_input_context")
                .class_if(effect, "option_has_an_effect")
                .obs(json!({"args": a1, "substituted": canon(&s)})),
        )
    }
}

// ---------------------------------------------------------------- the chain of parents, at depth

/// D nested `(map .sub ..)` bodies, optionally an n-stage pipe in the innermost one and a
/// binding around the last expression, which lists `^`x k `.tag` for k = 0 .. D + n + 4. Every
/// level carries its own tag, so the list must name, in order, the pipe's earlier stage values,
/// then every enclosing level from the innermost to the top-level input (what lies beyond is not
/// documented and not compared). (The
/// pipe makes its own input visible twice - an artefact the documentation neither promises
/// nor excludes - so consecutive repetitions are folded before comparing.)
#[derive(Clone, Debug, Serialize, Deserialize)]
pub struct CaseDeep {
    pub depth: u8,
    /// 0 = no pipe; n >= 2 = pipe with n stages, the last of which is the list
    pub stages: u8,
    /// 0 none, 1 (set "v" 1 ..), 2 (define "m" . ..), 3 both
    pub wrap: u8,
}

pub struct C12Deep;
impl Check for C12Deep {
    type Case = CaseDeep;
    fn name(&self) -> &'static str {
        "C12.deep_parents"
    }
    fn cases(&self, tier: Tier) -> u64 {
        tier.pick(600, 6_000)
    }
    fn strategy(&self, t: Tier) -> BoxedStrategy<CaseDeep> {
        let max_d: u8 = t.pick(40, 120);
        (prop_oneof![3 => 1u8..12, 2 => 12u8..24, 1 => 24u8..max_d], prop_oneof![Just(0u8), Just(2u8), Just(3u8), Just(4u8), Just(6u8)], 0u8..8).prop_map(|(depth, stages, wrap)| CaseDeep { depth, stages, wrap }).boxed()
    }
    fn check(&self, c: &CaseDeep) -> CaseResult {
        let d = c.depth.max(1) as usize;
        let n = c.stages as usize;
        // input: {"tag":"top","sub":[{"tag":"L1","sub":[{"tag":"L2",...}]}]}
        // (every list holds a decoy sibling in front of the real element: a frame that leaks from one
        // element to the next shows as a wrong parent)
        let mut input = format!("{{\"tag\":\"L{}\",\"sub\":[]}}", d);
        for i in (1..d).rev() {
            input = format!("{{\"tag\":\"L{}\",\"sub\":[{{\"tag\":\"decoy{}\",\"sub\":[]}},{}]}}", i, i, input);
        }
        input = format!("{{\"tag\":\"top\",\"sub\":[{{\"tag\":\"decoy0\",\"sub\":[]}},{}]}}", input);
        let k_max = d + n + 4;
        let items: Vec<String> = (0..=k_max).map(|k| if k == 0 { "(default .tag \"none\")".to_string() } else { format!("(default {}.tag \"none\")", "^".repeat(k)) }).collect();
        let mut last = format!("(push [] {})", items.join(" "));
        if c.wrap & 1 == 1 {
            last = format!("(set \"v\" 1 {})", last);
        }
        if c.wrap & 2 == 2 {
            last = format!("(define \"m\" . {})", last);
        }
        let mut body = if n >= 2 {
            let stages: Vec<String> = (1..n).map(|i| format!("(put {{}} \"tag\" (concat .tag \"p{}\"))", i)).collect();
            format!("(| {} {})", stages.join(" "), last)
        } else {
            last
        };
        for level in 0..d {
            // wrap bit 2: every other level is a flat_map whose body is a one-element list
            body = if c.wrap & 4 == 4 && level % 2 == 0 { format!("(flat_map .sub (push [] {}))", body) } else { format!("(map .sub {})", body) };
        }
        let args = vec![format!("--select={} = x", body)];
        let o = run(&args, input.as_bytes());
        if !o.res.is_ok() {
            return CaseResult::Fail(format!("run failed: {} (depth {}, {} stages)", o.res.short(), d, n));
        }
        let rows = match rows_of(&o) {
            Ok(r) => r,
            Err(e) => return CaseResult::Fail(e),
        };
        // unwrap the D singleton lists
        let mut v = match rows.first().and_then(|r| r.get("x").cloned()) {
            Some(v) => v,
            None => return CaseResult::Fail(format!("the expression gave nothing (depth {}, {} stages, wrap {}): {}", d, n, c.wrap, trunc(&body, 300))),
        };
        for _ in 0..d {
            v = match v {
                RVal::Arr(mut a) if a.len() == 2 => a.remove(1),
                other => return CaseResult::Fail(format!("expected {} nested two-element lists (decoy, real), found {} (depth {}, {} stages)", d, trunc(&other.to_json(), 200), d, n)),
            };
        }
        let RVal::Arr(list) = v else { return CaseResult::Fail("the innermost value is not the list".into()) };
        let mut got: Vec<String> = list.iter().map(|x| if let RVal::Str(s) = x { s.clone() } else { x.to_json() }).collect();
        got.dedup();
        let mut exp: Vec<String> = Vec::new();
        if n >= 2 {
            let mut t = format!("L{}", d);
            let mut vals = Vec::new();
            for i in 1..n {
                t = format!("{}p{}", t, i);
                vals.push(t.clone());
            }
            exp.extend(vals.into_iter().rev());
        }
        for i in (1..=d).rev() {
            exp.push(format!("L{}", i));
        }
        exp.push("top".into());
        // what a `^` beyond the top-level input refers to is not documented: only the chain
        // up to and including the top-level input is compared
        got.truncate(exp.len());
        if got != exp {
            return CaseResult::Fail(format!("the chain of parents seen at depth {} ({} pipe stages, wrap {}) is {:?}, expected {:?} (consecutive repetitions folded)", d, n, c.wrap, got, exp));
        }
        CaseResult::Pass(Info::new(d >= 2).class_if(n >= 2, "inside_a_pipe").class_if(c.wrap & 3 != 0, "under_a_binding").class_if(c.wrap & 4 == 4, "flat_map_levels").class_if(d > 16, "deeper_than_16").class_if(d > 32, "deeper_than_32").obs(json!({"depth": d, "stages": n, "chain": got.len()})))
    }
}

// ---------------------------------------------------------------- --set values are closed

/// `--set n=v` binds n to the value of v, and v sees nothing: not the input, and not the
/// other --set variables, whatever the order of the options. So `--set a=A --set b=E(:a)`
/// must bind b as `--set b=E(:never_bound)` does, in both orders.
#[derive(Clone, Debug, Serialize, Deserialize)]
pub struct CasePresetValue {
    pub a: String,
    pub template: u8,
    pub fallback: String,
    pub a_first: bool,
    /// the other binding is a macro (`--set @a=..`) instead of a variable
    pub other_is_macro: bool,
}

pub struct C12PresetValue;
impl C12PresetValue {
    fn value_expr(c: &CasePresetValue, var: &str) -> String {
        let v = if c.other_is_macro { format!("@{}", var) } else { format!(":{}", var) };
        match c.template % 7 {
            0 => format!("(default {} {})", v, c.fallback),
            1 => format!("(default (+ {} 1) {})", v, c.fallback),
            2 => format!("(push [] (default {} {}))", v, c.fallback),
            3 => format!("(default (get {} 0) {})", v, c.fallback),
            4 => format!("(default (stringify {}) {})", v, c.fallback),
            5 => format!("(put {{}} \"k\" (default {} {}))", v, c.fallback),
            _ => format!("(default (size {}) (size {}) {})", v, v, c.fallback),
        }
    }
}
impl Check for C12PresetValue {
    type Case = CasePresetValue;
    fn name(&self) -> &'static str {
        "C12.preset_value"
    }
    fn cases(&self, tier: Tier) -> u64 {
        tier.pick(8_000, 200_000)
    }
    fn strategy(&self, _t: Tier) -> BoxedStrategy<CasePresetValue> {
        let lit = prop::sample::select(vec!["1", "0", "-2.5", "\"s\"", "\"\"", "true", "false", "null", "[1,2]", "[]", "{\"k\":1}", "{}", "[[3]]", "18446744073709551615"]).prop_map(|s| s.to_string());
        (lit.clone(), 0u8..7, lit, any::<bool>(), prop::bool::weighted(0.25)).prop_map(|(a, template, fallback, a_first, other_is_macro)| CasePresetValue { a, template, fallback, a_first, other_is_macro }).boxed()
    }
    fn check(&self, c: &CasePresetValue) -> CaseResult {
        let set_a = if c.other_is_macro { format!("--set=@a={}", c.a) } else { format!("--set=a={}", c.a) };
        let with = format!("--set=b={}", Self::value_expr(c, "a"));
        let without = format!("--set=b={}", Self::value_expr(c, "never_bound"));
        let sel = "--select=:b = b".to_string();
        let a1 = if c.a_first { vec![set_a.clone(), with.clone(), sel.clone()] } else { vec![with.clone(), set_a.clone(), sel.clone()] };
        let a2 = if c.a_first { vec![with.clone(), set_a.clone(), sel.clone()] } else { vec![set_a.clone(), with.clone(), sel.clone()] };
        let a3 = vec![set_a.clone(), without.clone(), sel.clone()];
        let input = b"{\"x\":1}\n[2]\n";
        let (o1, o2, o3) = (run(&a1, input), run(&a2, input), run(&a3, input));
        if o1.res.is_panic() || o2.res.is_panic() || o3.res.is_panic() {
            return CaseResult::Fail(format!("panic: {} / {} / {} (args {:?})", o1.res.short(), o2.res.short(), o3.res.short(), a1));
        }
        if o1.res != o2.res || o1.stdout != o2.stdout {
            return CaseResult::Fail(format!("the order of two --set options changes the result: {:?} gives {} {}; {:?} gives {} {}", a1, o1.res.short(), esc_trunc(&o1.stdout, 200), a2, o2.res.short(), esc_trunc(&o2.stdout, 200)));
        }
        if o1.res != o3.res || o1.stdout != o3.stdout {
            return CaseResult::Fail(format!("a --set value saw another --set binding: {:?} gives {} {}; with a name that is never bound {:?} gives {} {}", a1, o1.res.short(), esc_trunc(&o1.stdout, 200), a3, o3.res.short(), esc_trunc(&o3.stdout, 200)));
        }
        CaseResult::Pass(Info::new(o1.res.is_ok()).class_if(c.other_is_macro, "other_binding_is_a_macro").class_if(!o1.res.is_ok(), "rejected_in_all_three_forms").obs(json!({"args": a1, "stdout": esc_trunc(&o1.stdout, 120)})))
    }
}

pub fn run_all(ctx: &mut Ctx) {
    ctx.rule = "(subst) expression e (depth <= 4, type-directed, uses ^ inside functional arguments) over a bound variable (literal of any kind) and a bound macro (expression that may use the variable, `.` and `^`), nested set/define incl. shadowing, optional --split-by in front, e at --select position 1..4; oracle: e under (set (define ..)), (define (set ..)) and --set/--set @ must give, per record, exactly the value of the harness' AST-level substitution (all macros inlined at the use site, the variable replaced by its literal, inner set forms kept). (pipe) (| a b) and (| a b c) must equal b applied to a's value via map over [a] (`.` = value, `^` = input) and via --split-by=[a] --select=b. (selects) k copies of one expression interleaved with other selections after optional --split-by/--filter must agree per row. non-trivial = the binding is used and a result exists and (binding used under a lambda or after split or not first select) / stage reads ^ or three stages / expression reads ^ and yields a value".into();
    ctx.assumptions = vec![
        "macro bodies are evaluated at the use site (as the documentation's (define ..) examples show); generated macros are never recursive".into(),
        "deeper parents (^^ and beyond) inside pipe stages are unspecified and not generated".into(),
    ];
    C12Subst.run(ctx);
    C12Pipe.run(ctx);
    ctx.rule.push_str(". (preset_positions) --set v=literal and --set @m=expression used inside the expression of --split-by, --filter, --sort-by, --group-by or --select: the run must print exactly what the same option prints with the bindings substituted by hand");
    C12Selects.run(ctx);
    C12Preset.run(ctx);
    ctx.rule.push_str(". (set_value) (set n X e) with an input-dependent X must equal (set n <the value --select shows for X on that record, as a literal> e), and be nothing when X is nothing");
    C12SetValue.run(ctx);
    ctx.rule.push_str(". (preset_value) --set a=A (or @a=A) next to --set b=E(:a) for seven closed templates E: b must be bound as with a name that is never bound, in both option orders");
    C12PresetValue.run(ctx);
    ctx.rule.push_str(". (deep_parents) 1..40 (120 thorough) nested map (or alternately flat_map) bodies over lists that hold a decoy sibling in front of the real element, optionally a 2..6-stage pipe in the innermost one and set/define around the last expression: the values of . ^ ^^ ... must name the pipe's earlier stage values, then every enclosing level up to the top-level input");
    C12Deep.run(ctx);
}

pub fn checks() -> Vec<Box<dyn DynCheck>> {
    vec![Box::new(C12Subst), Box::new(C12Pipe), Box::new(C12Selects), Box::new(C12Preset), Box::new(C12SetValue), Box::new(C12PresetValue), Box::new(C12Deep)]
}
