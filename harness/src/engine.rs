//! Check driver: sharded proptest runs, enumerations, shrinking, findings/replay files,
//! known-finding triage, evidence (DESIGN §1).

use proptest::strategy::{BoxedStrategy, Strategy, ValueTree};
use proptest::test_runner::{Config, RngAlgorithm, TestCaseError, TestError, TestRng, TestRunner};
use serde::de::DeserializeOwned;
use serde::{Deserialize, Serialize};
use serde_json::{json, Value};
use std::collections::hash_map::DefaultHasher;
use std::collections::{BTreeMap, HashSet};
use std::fmt::Debug;
use std::hash::{Hash, Hasher};
use std::path::{Path, PathBuf};
use std::sync::atomic::{AtomicBool, Ordering};
use std::sync::Mutex;
use std::time::{Duration, Instant};

pub const SHARDS: usize = 16;

#[derive(Clone, Copy, Debug, PartialEq, Eq)]
pub enum Tier {
    Quick,
    Thorough,
}
impl Tier {
    pub fn pick<T>(&self, q: T, t: T) -> T {
        match self {
            Tier::Quick => q,
            Tier::Thorough => t,
        }
    }
    pub fn name(&self) -> &'static str {
        match self {
            Tier::Quick => "quick",
            Tier::Thorough => "thorough",
        }
    }
}

#[derive(Clone, Debug, Default)]
pub struct Info {
    pub nontrivial: bool,
    pub classes: Vec<&'static str>,
    /// short description of what was observed (goes into samples)
    pub observed: Option<Value>,
    /// additional executions this case performed beyond the first (e.g. one per fault offset)
    pub weight: u64,
}
impl Info {
    pub fn new(nontrivial: bool) -> Self {
        Info { nontrivial, classes: vec![], observed: None, weight: 0 }
    }
    pub fn class(mut self, c: &'static str) -> Self {
        self.classes.push(c);
        self
    }
    pub fn class_if(mut self, cond: bool, c: &'static str) -> Self {
        if cond {
            self.classes.push(c);
        }
        self
    }
    pub fn weight(mut self, w: u64) -> Self {
        self.weight = w;
        self
    }
    pub fn obs(mut self, v: Value) -> Self {
        self.observed = Some(v);
        self
    }
}

#[derive(Clone, Debug)]
pub enum CaseResult {
    Pass(Info),
    /// failure fully explained by the known-finding signature `key`
    Known { key: &'static str, what: String, info: Info },
    Fail(String),
    /// case outside the property's domain (generator artefact); counted, never a violation
    Discard(String),
}

pub trait Check: Sync {
    type Case: Serialize + DeserializeOwned + Clone + Debug + Send + 'static;
    fn name(&self) -> &'static str;
    fn strategy(&self, tier: Tier) -> BoxedStrategy<Self::Case>;
    fn cases(&self, tier: Tier) -> u64;
    fn check(&self, case: &Self::Case) -> CaseResult;
}

/// object-safe wrapper so that `--replay` can dispatch by name
pub trait DynCheck: Sync {
    fn name(&self) -> &'static str;
    fn replay(&self, case: &Value) -> Result<CaseResult, String>;
    fn run(&self, ctx: &mut Ctx);
}

impl<C: Check> DynCheck for C {
    fn name(&self) -> &'static str {
        Check::name(self)
    }
    fn replay(&self, case: &Value) -> Result<CaseResult, String> {
        let c: C::Case = serde_json::from_value(case.clone()).map_err(|e| format!("cannot decode case for {}: {}", Check::name(self), e))?;
        Ok(self.check(&c))
    }
    fn run(&self, ctx: &mut Ctx) {
        run_check(self, ctx)
    }
}

#[derive(Clone, Debug, Serialize, Deserialize)]
pub struct ReplayFile {
    pub property: String,
    pub check: String,
    pub case: Value,
    #[serde(default)]
    pub note: String,
}

#[derive(Clone, Debug)]
pub struct KnownFinding {
    pub property: String,
    pub key: String,
    pub text: String,
}

pub fn load_known(root: &Path) -> Vec<KnownFinding> {
    let mut v = Vec::new();
    let Ok(s) = std::fs::read_to_string(root.join("KNOWN_FINDINGS.txt")) else { return v };
    for line in s.lines() {
        let line = line.trim();
        if let Some(rest) = line.strip_prefix("finding:") {
            let mut property = String::new();
            let mut key = String::new();
            let mut text = Vec::new();
            for w in rest.split_whitespace() {
                if let Some(p) = w.strip_prefix("property=") {
                    if property.is_empty() {
                        property = p.to_string();
                        continue;
                    }
                }
                if let Some(k) = w.strip_prefix("key=") {
                    if key.is_empty() {
                        key = k.to_string();
                        continue;
                    }
                }
                text.push(w);
            }
            v.push(KnownFinding { property, key, text: text.join(" ") });
        }
    }
    v
}

#[derive(Default)]
pub struct CheckStats {
    pub evaluations: u64,
    pub discarded: u64,
    pub nontrivial_hashes: HashSet<u64>,
    pub classes: BTreeMap<&'static str, u64>,
    pub samples: Vec<(u64, Value)>,
    pub excluded_known: BTreeMap<&'static str, (u64, String)>,
    pub exhaustive: Option<String>,
    /// non-trivial cases that are distinct by construction (enumeration indices), counted
    /// instead of hashed when an enumeration is too large for a hash set
    pub extra_distinct: u64,
}

pub struct Violation {
    pub check: String,
    pub msg: String,
    pub replay: PathBuf,
}

pub struct Ctx {
    pub root: PathBuf,
    pub property: String,
    pub tier: Tier,
    pub seed: u64,
    pub known: Vec<KnownFinding>,
    pub stats: BTreeMap<String, CheckStats>,
    pub violations: Vec<Violation>,
    pub known_printed: HashSet<String>,
    pub started: Instant,
    pub inconclusive: Vec<String>,
    pub assumptions: Vec<String>,
    pub level: &'static str,
    pub rule: String,
    /// scale factor on case counts (env JV_SCALE, for experiments)
    pub scale: f64,
}

pub fn hash_str(s: &str) -> u64 {
    let mut h = DefaultHasher::new();
    s.hash(&mut h);
    h.finish()
}

fn seed_bytes(seed: u64, name: &str, shard: usize) -> [u8; 32] {
    let mut out = [0u8; 32];
    for i in 0..4 {
        let mut h = DefaultHasher::new();
        (seed, name, shard as u64, i as u64, 0x6a61776bu32).hash(&mut h);
        out[i * 8..i * 8 + 8].copy_from_slice(&h.finish().to_le_bytes());
    }
    out
}

fn shorten(v: Value) -> Value {
    let s = v.to_string();
    if s.len() <= 3000 {
        v
    } else {
        let mut e = 3000;
        while !s.is_char_boundary(e) {
            e -= 1;
        }
        Value::String(format!("{}…(truncated, {} bytes)", &s[..e], s.len()))
    }
}

impl Ctx {
    pub fn new(root: PathBuf, property: &str, tier: Tier, seed: u64) -> Ctx {
        let known = load_known(&root);
        let scale = std::env::var("JV_SCALE").ok().and_then(|s| s.parse().ok()).unwrap_or(1.0);
        Ctx {
            root,
            property: property.to_string(),
            tier,
            seed,
            known,
            stats: BTreeMap::new(),
            violations: vec![],
            known_printed: HashSet::new(),
            started: Instant::now(),
            inconclusive: vec![],
            assumptions: vec![],
            level: "exploration",
            rule: String::new(),
            scale,
        }
    }

    pub fn is_known(&self, key: &str) -> Option<&KnownFinding> {
        self.known.iter().find(|k| k.property == self.property && k.key == key)
    }

    pub fn write_finding(&self, check: &str, case: &Value, note: &str) -> PathBuf {
        let rf = ReplayFile { property: self.property.clone(), check: check.to_string(), case: case.clone(), note: note.to_string() };
        let txt = serde_json::to_string_pretty(&rf).unwrap();
        let dir = self.root.join("findings");
        let _ = std::fs::create_dir_all(&dir);
        let path = dir.join(format!("{}-{:016x}.json", check.replace('.', "-"), hash_str(&case.to_string())));
        let _ = std::fs::write(&path, txt);
        path
    }

    pub fn violation(&mut self, check: &str, case: &Value, msg: &str) {
        let path = self.write_finding(check, case, msg);
        VIOLATION_PRINTED.store(true, Ordering::SeqCst);
        println!("VIOLATION property={} replay={}", self.property, path.display());
        println!("  check={} {}", check, crate::runner::trunc(msg, 2000));
        self.violations.push(Violation { check: check.to_string(), msg: msg.to_string(), replay: path });
    }

    pub fn known_line(&mut self, key: &str, what: &str) {
        if self.known_printed.insert(key.to_string()) {
            let text = self.is_known(key).map(|k| k.text.clone()).unwrap_or_default();
            println!("KNOWN-FINDING: property={} key={} {} (e.g. {})", self.property, key, text, crate::runner::trunc(what, 300));
        }
    }

    /// Handle one concrete result outside proptest (replays, enumerations, directed cases).
    pub fn record(&mut self, check: &str, case: &Value, r: CaseResult) {
        let known_listed = match &r {
            CaseResult::Known { key, .. } => self.is_known(key).is_some(),
            _ => false,
        };
        let st = self.stats.entry(check.to_string()).or_default();
        st.evaluations += 1;
        match r {
            CaseResult::Pass(info) => {
                let h = hash_str(&case.to_string());
                for c in &info.classes {
                    *st.classes.entry(c).or_default() += 1;
                }
                if info.nontrivial {
                    st.nontrivial_hashes.insert(h);
                    if st.samples.len() < 4 {
                        st.samples.push((h, shorten(json!({"check": check, "case": case, "observed": info.observed}))));
                    }
                }
            }
            CaseResult::Discard(_) => {
                st.discarded += 1;
            }
            CaseResult::Known { key, what, info } => {
                if known_listed {
                    let e = st.excluded_known.entry(key).or_insert((0, what.clone()));
                    e.0 += 1;
                    for c in &info.classes {
                        *st.classes.entry(c).or_default() += 1;
                    }
                    self.known_line(key, &what);
                } else {
                    self.violation(check, case, &format!("[unlisted signature {}] {}", key, what));
                }
            }
            CaseResult::Fail(msg) => {
                self.violation(check, case, &msg);
            }
        }
    }

    pub fn finish(&mut self) -> i32 {
        for p in HARNESS_PANICS.lock().unwrap().drain(..).take(3) {
            self.inconclusive.push(p);
        }
        let wall = self.started.elapsed().as_secs_f64();
        let mut evaluations = 0u64;
        let mut distinct = 0u64;
        let mut samples: Vec<Value> = Vec::new();
        let mut per_check = serde_json::Map::new();
        let mut excluded = serde_json::Map::new();
        let mut exhaustive_subspaces: Vec<Value> = Vec::new();
        for (name, st) in &self.stats {
            evaluations += st.evaluations;
            distinct += st.nontrivial_hashes.len() as u64 + st.extra_distinct;
            let mut ss = st.samples.clone();
            ss.sort_by_key(|x| x.0);
            for (_, s) in ss.into_iter().take(4) {
                samples.push(s);
            }
            let classes: serde_json::Map<String, Value> = st.classes.iter().map(|(k, v)| (k.to_string(), json!(v))).collect();
            per_check.insert(
                name.clone(),
                json!({"evaluations": st.evaluations, "distinct_nontrivial": st.nontrivial_hashes.len() as u64 + st.extra_distinct, "discarded": st.discarded, "classes": classes}),
            );
            for (k, (n, what)) in &st.excluded_known {
                excluded.insert(format!("{}:{}", name, k), json!({"count": n, "example": what}));
            }
            if let Some(e) = &st.exhaustive {
                exhaustive_subspaces.push(json!({"check": name, "space": e}));
            }
        }
        let ev = json!({
            "property_id": self.property,
            "tier": self.tier.name(),
            "seed": self.seed,
            "level": self.level,
            "coverage": {
                "evaluations": evaluations,
                "distinct_nontrivial": distinct,
                "rule": self.rule,
                "samples": samples,
                "per_check": per_check,
                "excluded_known": excluded,
                "exhaustive_subspaces": exhaustive_subspaces,
                "exhaustive": false,
                "inconclusive": self.inconclusive,
            },
            "assumptions": self.assumptions,
            "wall_s": (wall * 1000.0).round() / 1000.0,
            "violations": self.violations.len(),
        });
        let dir = self.root.join("evidence");
        let _ = std::fs::create_dir_all(&dir);
        let path = dir.join(format!("{}.json", self.property));
        if let Err(e) = std::fs::write(&path, serde_json::to_string_pretty(&ev).unwrap()) {
            eprintln!("cannot write evidence {}: {}", path.display(), e);
            return 2;
        }
        println!(
            "{} tier={} seed={} evaluations={} distinct_nontrivial={} violations={} wall={:.1}s",
            self.property,
            self.tier.name(),
            self.seed,
            evaluations,
            distinct,
            self.violations.len(),
            wall
        );
        if !self.violations.is_empty() {
            1
        } else if !self.inconclusive.is_empty() {
            for i in &self.inconclusive {
                println!("INCONCLUSIVE: {}", i);
            }
            2
        } else {
            0
        }
    }
}

struct ShardOut {
    stats: CheckStats,
    failure: Option<(Value, String)>,
    known: Vec<(&'static str, String)>,
}

// watchdog slots: (started, check name, case json)
pub static WATCH: Mutex<Vec<Option<(Instant, String, String)>>> = Mutex::new(Vec::new());
pub static STOP: AtomicBool = AtomicBool::new(false);

// ---- abort reporting: what each shard is working on, readable from a signal handler ----
pub const SLOT_CAP: usize = 1 << 17;
pub struct Slot {
    pub len: std::sync::atomic::AtomicUsize,
    pub buf: std::cell::UnsafeCell<[u8; SLOT_CAP]>,
}
unsafe impl Sync for Slot {}
#[allow(clippy::declare_interior_mutable_const)]
const EMPTY_SLOT: Slot = Slot { len: std::sync::atomic::AtomicUsize::new(0), buf: std::cell::UnsafeCell::new([0u8; SLOT_CAP]) };
pub static SLOTS: [Slot; SHARDS] = [EMPTY_SLOT; SHARDS];
thread_local! {
    pub static MY_SHARD: std::cell::Cell<usize> = const { std::cell::Cell::new(usize::MAX) };
}
static ABORT_PROPERTY: Mutex<String> = Mutex::new(String::new());
/// per shard: milliseconds since process start at which the case in SLOTS[shard] began (0 = idle)
#[allow(clippy::declare_interior_mutable_const)]
const ZERO_U64: std::sync::atomic::AtomicU64 = std::sync::atomic::AtomicU64::new(0);
pub static SLOT_STARTED: [std::sync::atomic::AtomicU64; SHARDS] = [ZERO_U64; SHARDS];
static PROCESS_START: std::sync::OnceLock<Instant> = std::sync::OnceLock::new();
fn now_ms() -> u64 {
    PROCESS_START.get_or_init(Instant::now).elapsed().as_millis() as u64 + 1
}
/// the case of this shard is over (enumeration loops call this when they finish)
pub fn slot_idle(shard: usize) {
    SLOT_STARTED[shard % SHARDS].store(0, Ordering::SeqCst);
}
static ABORT_DIR: std::sync::OnceLock<std::ffi::CString> = std::sync::OnceLock::new();

/// remember the case this shard is about to run as a complete replay file
pub fn slot_set(shard: usize, property: &str, check: &str, case_json: &str) {
    MY_SHARD.with(|c| c.set(shard));
    let txt = format!("{{\"property\":\"{}\",\"check\":\"{}\",\"case\":{},\"note\":\"the process aborted (SIGABRT) while running this case\"}}", property, check, case_json);
    let b = txt.as_bytes();
    let slot = &SLOTS[shard % SHARDS];
    if b.len() <= SLOT_CAP {
        slot.len.store(0, Ordering::SeqCst);
        unsafe {
            std::ptr::copy_nonoverlapping(b.as_ptr(), slot.buf.get() as *mut u8, b.len());
        }
        slot.len.store(b.len(), Ordering::SeqCst);
    } else {
        slot.len.store(0, Ordering::SeqCst);
    }
    SLOT_STARTED[shard % SHARDS].store(now_ms(), Ordering::SeqCst);
}

extern "C" fn on_abort(_sig: libc::c_int) {
    // async-signal-safe calls only: open / write / _exit
    unsafe {
        let shard = MY_SHARD.try_with(|c| c.get()).unwrap_or(usize::MAX);
        let w = |fd: i32, b: &[u8]| {
            libc::write(fd, b.as_ptr() as *const libc::c_void, b.len());
        };
        if shard < SHARDS {
            let slot = &SLOTS[shard];
            let n = slot.len.load(Ordering::SeqCst);
            if n > 0 {
                if let Some(dir) = ABORT_DIR.get() {
                    // <root>/findings/C05-abort-<shard>.json
                    let mut path = [0u8; 512];
                    let d = dir.as_bytes();
                    let tail = b"/abort-case-";
                    let mut k = 0;
                    for x in d.iter().chain(tail.iter()) {
                        if k < 480 {
                            path[k] = *x;
                            k += 1;
                        }
                    }
                    path[k] = b'a' + (shard as u8 % 26);
                    k += 1;
                    for x in b".json" {
                        path[k] = *x;
                        k += 1;
                    }
                    path[k] = 0;
                    let fd = libc::open(path.as_ptr() as *const libc::c_char, libc::O_CREAT | libc::O_WRONLY | libc::O_TRUNC, 0o644);
                    if fd >= 0 {
                        w(fd, std::slice::from_raw_parts(slot.buf.get() as *const u8, n));
                        libc::close(fd);
                        if ABORT_IS_VIOLATION.load(Ordering::SeqCst) {
                            w(1, b"VIOLATION property=C05 replay=");
                            w(1, &path[..k]);
                            w(1, b"\n  the process aborted while running this case (abort, stack overflow or allocation failure)\n");
                            libc::_exit(1);
                        }
                        if VIOLATION_PRINTED.load(Ordering::SeqCst) {
                            w(1, b"note: after the violation above the process aborted (allocation failure or stack overflow) while running the case saved in ");
                            w(1, &path[..k]);
                            w(1, b"\n");
                            libc::_exit(1);
                        }
                        w(1, b"INCONCLUSIVE: the process aborted (allocation failure or stack overflow) while running the case saved in ");
                        w(1, &path[..k]);
                        w(1, b"\n");
                        libc::_exit(2);
                    }
                }
            }
        }
        w(1, b"INCONCLUSIVE: the process received SIGABRT outside a running case\n");
        libc::_exit(2);
    }
}

static ABORT_IS_VIOLATION: AtomicBool = AtomicBool::new(false);
/// a VIOLATION line has been printed by this process (an abort afterwards must not turn the
/// exit status into "inconclusive")
pub static VIOLATION_PRINTED: AtomicBool = AtomicBool::new(false);

/// Every property: an abort is reported with the case that was running. For C05 an abort inside
/// jawk is a violation of "never panics, aborts or loops forever"; elsewhere it is inconclusive.
pub fn install_abort_reporter_for(root: &Path, violation: bool) {
    ABORT_IS_VIOLATION.store(violation, Ordering::SeqCst);
    install_abort_reporter(root);
}

pub fn install_abort_reporter(root: &Path) {
    let dir = root.join("findings");
    let _ = std::fs::create_dir_all(&dir);
    let _ = ABORT_DIR.set(std::ffi::CString::new(dir.to_str().unwrap_or("/tmp")).unwrap());
    unsafe {
        libc::signal(libc::SIGABRT, on_abort as *const () as usize);
    }
    let _ = &ABORT_PROPERTY;
}

fn watch_set(shard: usize, v: Option<(Instant, String, String)>) {
    let mut w = WATCH.lock().unwrap();
    if w.len() <= shard {
        w.resize(shard + 1, None);
    }
    w[shard] = v;
}

fn tally(st: &mut CheckStats, name: &str, h: u64, json_case: &str, info: &Info) {
    st.evaluations += info.weight;
    for c in &info.classes {
        *st.classes.entry(c).or_default() += 1;
    }
    if info.nontrivial && st.nontrivial_hashes.insert(h) {
        // keep the 3 first and the 3 smallest-hash non-trivial cases
        let keep_first = st.nontrivial_hashes.len() <= 2;
        let worst = st.samples.iter().map(|s| s.0).max().unwrap_or(u64::MAX);
        if keep_first || st.samples.len() < 4 || h < worst {
            let case: Value = serde_json::from_str(json_case).unwrap_or(Value::Null);
            let v = shorten(json!({"check": name, "case": case, "observed": info.observed}));
            if st.samples.len() >= 4 && !keep_first {
                if let Some(pos) = st.samples.iter().position(|s| s.0 == worst) {
                    st.samples.remove(pos);
                }
            }
            st.samples.push((h, v));
        }
    }
}

pub static HARNESS_PANICS: Mutex<Vec<String>> = Mutex::new(Vec::new());

pub fn run_check<C: Check>(chk: &C, ctx: &mut Ctx) {
    let name = Check::name(chk);
    let total = ((chk.cases(ctx.tier) as f64) * ctx.scale).ceil() as u64;
    let per = (total + SHARDS as u64 - 1) / SHARDS as u64;
    let tier = ctx.tier;
    let known_keys: Vec<String> = ctx.known.iter().filter(|k| k.property == ctx.property).map(|k| k.key.clone()).collect();
    let seed = ctx.seed;
    let prop_owned = ctx.property.clone();
    let prop_name: &str = &prop_owned;
    let failed_any = AtomicBool::new(false);
    let outs: Vec<ShardOut> = std::thread::scope(|s| {
        let mut hs = Vec::new();
        for shard in 0..SHARDS {
            let known_keys = &known_keys;
            let failed_any = &failed_any;
            hs.push(
                std::thread::Builder::new()
                    .stack_size(256 << 20)
                    .spawn_scoped(s, move || {
                        let mut out = ShardOut { stats: CheckStats::default(), failure: None, known: vec![] };
                        let strat = chk.strategy(tier);
                        let cfg = Config { cases: per as u32, failure_persistence: None, max_shrink_iters: 4000, max_global_rejects: 1 << 30, max_local_rejects: u32::MAX, ..Config::default() };
                        let rng = TestRng::from_seed(RngAlgorithm::ChaCha, &seed_bytes(seed, name, shard));
                        let mut runner = TestRunner::new_with_rng(cfg, rng);
                        let shrinking = std::cell::Cell::new(false);
                        let st = std::cell::RefCell::new(&mut out);
                        let r = runner.run(&strat, |case| {
                            if failed_any.load(Ordering::Relaxed) && !shrinking.get() {
                                return Ok(());
                            }
                            let js = serde_json::to_string(&case).unwrap();
                            slot_set(shard, prop_name, name, &js);
                            watch_set(shard, Some((Instant::now(), name.to_string(), js.clone())));
                            // a panic of jawk is caught inside the runner and is a result like any other;
                            // a panic that escapes `check` is the harness' own and must never be
                            // reported as a violation
                            let res = match std::panic::catch_unwind(std::panic::AssertUnwindSafe(|| chk.check(&case))) {
                                Ok(r) => r,
                                Err(_) => {
                                    HARNESS_PANICS.lock().unwrap().push(format!("{}: the check itself panicked on case {}", name, crate::runner::trunc(&js, 600)));
                                    CaseResult::Discard("harness panic".into())
                                }
                            };
                            watch_set(shard, None);
                            slot_idle(shard);
                            let mut o = st.borrow_mut();
                            match res {
                                CaseResult::Pass(info) => {
                                    if !shrinking.get() {
                                        o.stats.evaluations += 1;
                                        tally(&mut o.stats, name, hash_str(&js), &js, &info);
                                    }
                                    Ok(())
                                }
                                CaseResult::Discard(_) => {
                                    if !shrinking.get() {
                                        o.stats.evaluations += 1;
                                        o.stats.discarded += 1;
                                    }
                                    Ok(())
                                }
                                CaseResult::Known { key, what, info } => {
                                    if known_keys.iter().any(|k| k == key) {
                                        if !shrinking.get() {
                                            o.stats.evaluations += 1;
                                            let e = o.stats.excluded_known.entry(key).or_insert((0, what.clone()));
                                            e.0 += 1;
                                            for c in &info.classes {
                                                *o.stats.classes.entry(c).or_default() += 1;
                                            }
                                            if !o.known.iter().any(|k| k.0 == key) {
                                                o.known.push((key, what));
                                            }
                                        }
                                        Ok(())
                                    } else {
                                        if !shrinking.get() {
                                            o.stats.evaluations += 1;
                                        }
                                        shrinking.set(true);
                                        failed_any.store(true, Ordering::Relaxed);
                                        Err(TestCaseError::fail(format!("[unlisted signature {}] {}", key, what)))
                                    }
                                }
                                CaseResult::Fail(msg) => {
                                    if !shrinking.get() {
                                        o.stats.evaluations += 1;
                                    }
                                    shrinking.set(true);
                                    failed_any.store(true, Ordering::Relaxed);
                                    Err(TestCaseError::fail(msg))
                                }
                            }
                        });
                        drop(st);
                        match r {
                            Ok(()) => {}
                            Err(TestError::Fail(reason, case)) => {
                                let v = serde_json::to_value(&case).unwrap();
                                out.failure = Some((v, reason.message().to_string()));
                            }
                            Err(TestError::Abort(reason)) => {
                                out.failure = Some((Value::Null, format!("proptest aborted: {}", reason.message())));
                            }
                        }
                        out
                    })
                    .unwrap(),
            );
        }
        hs.into_iter().map(|h| h.join().expect("shard thread panicked (harness bug)")).collect()
    });
    let mut failures = Vec::new();
    for o in outs {
        let st = ctx.stats.entry(name.to_string()).or_default();
        st.evaluations += o.stats.evaluations;
        st.discarded += o.stats.discarded;
        st.nontrivial_hashes.extend(o.stats.nontrivial_hashes);
        for (k, v) in o.stats.classes {
            *st.classes.entry(k).or_default() += v;
        }
        st.samples.extend(o.stats.samples);
        st.samples.sort_by_key(|s| s.0);
        st.samples.dedup_by_key(|s| s.0);
        st.samples.truncate(6);
        for (k, (n, w)) in o.stats.excluded_known {
            let e = st.excluded_known.entry(k).or_insert((0, w));
            e.0 += n;
        }
        for (k, w) in o.known {
            ctx.known_line(k, &w);
        }
        if let Some(f) = o.failure {
            failures.push(f);
        }
    }
    // report distinct shrunk failures (at most 3)
    let mut seen = HashSet::new();
    for (case, msg) in failures {
        if case.is_null() {
            ctx.inconclusive.push(format!("{}: {}", name, msg));
            continue;
        }
        if seen.insert(case.to_string()) && seen.len() <= 3 {
            ctx.violation(name, &case, &msg);
        }
    }
}

/// Enumerate `total` indexed cases over the shards; `f(idx)` builds and checks one case and
/// returns (case json producer, result). Used for the exhaustive sub-spaces.
pub fn run_enum<F>(ctx: &mut Ctx, name: &'static str, total: u64, space: &str, f: F)
where
    F: Fn(u64) -> (Box<dyn Fn() -> Value>, CaseResult) + Sync,
{
    let failed_any = AtomicBool::new(false);
    let known_keys: Vec<String> = ctx.known.iter().filter(|k| k.property == ctx.property).map(|k| k.key.clone()).collect();
    struct EOut {
        stats: CheckStats,
        failures: Vec<(Value, String)>,
        known: Vec<(&'static str, String)>,
    }
    let outs: Vec<EOut> = std::thread::scope(|s| {
        let mut hs = Vec::new();
        for shard in 0..SHARDS {
            let f = &f;
            let failed_any = &failed_any;
            let known_keys = &known_keys;
            hs.push(
                std::thread::Builder::new()
                    .stack_size(64 << 20)
                    .spawn_scoped(s, move || {
                        let mut o = EOut { stats: CheckStats::default(), failures: vec![], known: vec![] };
                        let mut idx = shard as u64;
                        while idx < total {
                            if failed_any.load(Ordering::Relaxed) {
                                break;
                            }
                            let (mk, res) = match std::panic::catch_unwind(std::panic::AssertUnwindSafe(|| f(idx))) {
                                Ok(x) => x,
                                Err(_) => {
                                    HARNESS_PANICS.lock().unwrap().push(format!("{}: the check itself panicked on enumeration index {}", name, idx));
                                    let b: Box<dyn Fn() -> Value> = Box::new(|| Value::Null);
                                    (b, CaseResult::Discard("harness panic".into()))
                                }
                            };
                            o.stats.evaluations += 1;
                            match res {
                                CaseResult::Pass(info) => {
                                    for c in &info.classes {
                                        *o.stats.classes.entry(c).or_default() += 1;
                                    }
                                    if info.nontrivial {
                                        // enumeration indices are distinct by construction
                                        o.stats.nontrivial_hashes.insert(idx);
                                        if o.stats.samples.len() < 2 {
                                            o.stats.samples.push((idx, shorten(json!({"check": name, "case": mk(), "observed": info.observed}))));
                                        }
                                    }
                                }
                                CaseResult::Discard(_) => o.stats.discarded += 1,
                                CaseResult::Known { key, what, .. } => {
                                    if known_keys.iter().any(|k| k == key) {
                                        let e = o.stats.excluded_known.entry(key).or_insert((0, what.clone()));
                                        e.0 += 1;
                                        if !o.known.iter().any(|k| k.0 == key) {
                                            o.known.push((key, what));
                                        }
                                    } else {
                                        failed_any.store(true, Ordering::Relaxed);
                                        o.failures.push((mk(), format!("[unlisted signature {}] {}", key, what)));
                                    }
                                }
                                CaseResult::Fail(msg) => {
                                    failed_any.store(true, Ordering::Relaxed);
                                    o.failures.push((mk(), msg));
                                }
                            }
                            idx += SHARDS as u64;
                        }
                        o
                    })
                    .unwrap(),
            );
        }
        hs.into_iter().map(|h| h.join().expect("enum shard panicked (harness bug)")).collect()
    });
    let mut failures = Vec::new();
    let complete = !failed_any.load(Ordering::Relaxed);
    for o in outs {
        let st = ctx.stats.entry(name.to_string()).or_default();
        st.evaluations += o.stats.evaluations;
        st.discarded += o.stats.discarded;
        st.nontrivial_hashes.extend(o.stats.nontrivial_hashes);
        for (k, v) in o.stats.classes {
            *st.classes.entry(k).or_default() += v;
        }
        st.samples.extend(o.stats.samples);
        st.samples.truncate(4);
        for (k, (n, w)) in o.stats.excluded_known {
            let e = st.excluded_known.entry(k).or_insert((0, w));
            e.0 += n;
        }
        if complete {
            st.exhaustive = Some(format!("{} ({} cases, complete)", space, total));
        }
        for (k, w) in o.known {
            ctx.known_line(k, &w);
        }
        failures.extend(o.failures);
    }
    // smallest (by JSON length) failure first; report at most 2
    failures.sort_by_key(|f| f.0.to_string().len());
    for (case, msg) in failures.into_iter().take(2) {
        ctx.violation(name, &case, &msg);
    }
}

/// Generate one value from a strategy deterministically (used by directed generators).
pub fn sample_strategy<T: Debug>(s: &BoxedStrategy<T>, seed: u64, name: &str, n: usize) -> Vec<T> {
    let rng = TestRng::from_seed(RngAlgorithm::ChaCha, &seed_bytes(seed, name, 999));
    let mut runner = TestRunner::new_with_rng(Config { failure_persistence: None, ..Config::default() }, rng);
    (0..n).map(|_| s.new_tree(&mut runner).unwrap().current()).collect()
}

pub fn start_watchdog(property: String, root: PathBuf) {
    let limit: u64 = std::env::var("JV_WATCHDOG_S").ok().and_then(|s| s.parse().ok()).unwrap_or(60);
    std::thread::spawn(move || loop {
        std::thread::sleep(Duration::from_millis(500));
        let mut hung: Option<(String, String)> = None;
        {
            let w = WATCH.lock().unwrap();
            for slot in w.iter().flatten() {
                if slot.0.elapsed().as_secs() > limit {
                    hung = Some((slot.1.clone(), slot.2.clone()));
                }
            }
        }
        if hung.is_none() {
            // enumeration loops do not use the WATCH table; they publish their case in SLOTS
            let now = now_ms();
            for shard in 0..SHARDS {
                let t = SLOT_STARTED[shard].load(Ordering::SeqCst);
                if t != 0 && now.saturating_sub(t) > limit * 1000 {
                    let n = SLOTS[shard].len.load(Ordering::SeqCst);
                    if n > 0 {
                        let bytes = unsafe { std::slice::from_raw_parts(SLOTS[shard].buf.get() as *const u8, n) }.to_vec();
                        if let Ok(rf) = serde_json::from_slice::<ReplayFile>(&bytes) {
                            hung = Some((rf.check.clone(), rf.case.to_string()));
                        }
                    }
                }
            }
        }
        if let Some((check, js)) = hung {
            let case: Value = serde_json::from_str(&js).unwrap_or(Value::Null);
            let rf = ReplayFile { property: property.clone(), check: check.clone(), case, note: format!("case did not finish within {} s", limit) };
            let dir = root.join("findings");
            let _ = std::fs::create_dir_all(&dir);
            let path = dir.join(format!("{}-hang-{:016x}.json", check.replace('.', "-"), hash_str(&js)));
            let _ = std::fs::write(&path, serde_json::to_string_pretty(&rf).unwrap());
            // isolated re-run
            let exe = std::env::current_exe().unwrap();
            let mut child = std::process::Command::new(exe)
                .arg("--root")
                .arg(&root)
                .arg("--replay")
                .arg(&path)
                .env("JV_WATCHDOG_S", "100000")
                .spawn()
                .expect("spawn replay child");
            let t0 = Instant::now();
            let finished = loop {
                if let Ok(Some(_)) = child.try_wait() {
                    break true;
                }
                if t0.elapsed().as_secs() > 2 * limit {
                    let _ = child.kill();
                    break false;
                }
                std::thread::sleep(Duration::from_millis(200));
            };
            if !finished && (property == "C05" || property == "C14" || property == "C16") {
                println!("VIOLATION property={} replay={}", property, path.display());
                println!("  check={} the case does not terminate (watchdog {} s, isolated re-run {} s)", check, limit, 2 * limit);
                std::process::exit(1);
            }
            println!("INCONCLUSIVE: watchdog: a case of {} ran longer than {} s (replay {})", check, limit, path.display());
            std::process::exit(2);
        }
    });
}

pub fn vjson<T: Serialize>(t: &T) -> Value {
    serde_json::to_value(t).unwrap()
}

/// Monotone index mapping for shrink-friendly choices.
pub fn pick_idx(x: u16, len: usize) -> usize {
    if len == 0 {
        0
    } else {
        ((x as usize) * len) >> 16
    }
}

pub fn boxed<T: Debug, S: Strategy<Value = T> + 'static>(s: S) -> BoxedStrategy<T> {
    s.boxed()
}
