//! C11 Stateless pipelines are record-local: out(A.B) = out(A).out(B).
//!
//! Metamorphic, jawk vs jawk: the pipeline is run once on every pool value alone; for every
//! generated index sequence over the pool the output of the concatenated input must be the
//! header (if any) followed by the per-value outputs in sequence order, byte for byte.

use crate::engine::*;
use crate::epipe::*;
use crate::expr::*;
use crate::gen::{can_touch, BytesS, Mix};
use crate::runner::*;
use proptest::collection::vec;
use proptest::prelude::*;
use serde::{Deserialize, Serialize};
use serde_json::json;

#[derive(Clone, Debug, Serialize, Deserialize)]
pub struct Case11 {
    pub pipe: EPipe,
    pub style: u8,
    pub cache: usize,
    /// JSON texts of the pool values
    pub pool: Vec<String>,
    pub seqs: Vec<Vec<usize>>,
    pub gap_seed: u64,
}

pub fn decode_case(tape: &[u32], style: u8, cache: usize, seq_raw: &[Vec<u16>], gap_seed: u64) -> Case11 {
    let mut g = Gen::new(tape, GenCfg { ill: 2, exclude: vec!["exec", "trigger", "now", "env"], ..GenCfg::default() });
    let (pipe, _) = EPipe::decode(&mut g, 3, 3);
    let np = 2 + g.tape.below(5);
    let mut pool = Vec::new();
    for _ in 0..np {
        if g.tape.chance(1, 6) {
            let k = *g.tape.pick(LEAF_KINDS);
            pool.push(g.lit(k, 2));
        } else {
            pool.push(g.record());
        }
    }
    if g.tape.chance(1, 12) {
        // one pool value that prints as more than 4 KiB / 8 KiB (output buffers), a bare string
        // or a record with a long member
        let n = [4200usize, 8300, 12000][g.tape.below(3)];
        let long = "w".repeat(n);
        let v = if g.tape.chance(1, 2) { format!("\"{}\"", long) } else { format!("{{\"s\":\"{}\",\"n\":1}}", long) };
        let at = g.tape.below(pool.len() + 1);
        pool.insert(at, v);
    }
    let seqs = seq_raw.iter().map(|s| s.iter().map(|x| pick_idx(*x, pool.len())).collect()).collect();
    Case11 { pipe, style, cache, pool, seqs, gap_seed }
}

/// regex-focused cases: patterns and subjects come from the data, drawn from a pool of
/// near-duplicates (whitespace, case, long common prefixes), and a cache is configured
pub fn regex_case(tape: &[u32], style: u8, seq_raw: &[Vec<u16>], gap_seed: u64) -> Case11 {
    // (the last five: the same subject under patterns with one, two and three groups, so that a
    // later record asks for a group the earlier record's pattern does not have)
    const PATS: &[&str] = &["a", "a ", " a", "A", "ab", "ba", "a+", "a+ ", "^a", "^a ", "aaaaaaaaaaaaaaaab", "aaaaaaaaaaaaaaaac", "(?i)a", "[0-9", "b", "(a)", "(a)(b)", "(a)(b)?(a)?", "(b)(a)", "((a)(b))"];
    const SUBJ: &[&str] = &["a", "a ", " a", "A", "ab", "ba", "b", "aaaaaaaaaaaaaaaab", "aaaaaaaaaaaaaaaac", ""];
    let mut t = Tape::new(tape);
    let m = |s: &str, p: Expr| Expr::call("match", vec![Expr::key(0, s), p]);
    let re = Expr::key(0, "re");
    let mut pipe = EPipe { sets: vec![], split: None, filter: None, selects: vec![] };
    match t.below(5) {
        4 => {
            for g in 0..4 {
                pipe.selects.push((Expr::call("extract_regex_group", vec![Expr::key(0, "s"), re.clone(), Expr::lit(&g.to_string())]), format!("g{}", g)));
            }
        }
        0 => pipe.selects.push((m("s", re.clone()), "m".into())),
        1 => {
            pipe.filter = Some(m("s", re.clone()));
            pipe.selects.push((Expr::key(0, "s"), "s".into()));
        }
        2 => {
            pipe.selects.push((Expr::call("extract_regex_group", vec![Expr::key(0, "s"), re.clone(), Expr::lit("0")]), "g".into()));
            pipe.selects.push((m("t", re.clone()), "m".into()));
        }
        _ => {
            pipe.split = Some(Expr::key(0, "subjects"));
            pipe.selects.push((Expr::call("match", vec![Expr::dot(), Expr::key(1, "re")]), "m".into()));
        }
    }
    let np = 2 + t.below(5);
    let mut pool = Vec::new();
    let js = |x: &str| {
        let mut o = String::new();
        crate::rjson::write_json_string(x, &mut o);
        o
    };
    for _ in 0..np {
        let (a, b, c, p) = (t.pick_s(SUBJ), t.pick_s(SUBJ), t.pick_s(SUBJ), t.pick_s(PATS));
        pool.push(format!("{{\"s\":{},\"t\":{},\"subjects\":[{},{}],\"re\":{}}}", js(a), js(b), js(c), js(a), js(p)));
    }
    let seqs = seq_raw.iter().map(|s| s.iter().map(|x| pick_idx(*x, pool.len())).collect()).collect();
    Case11 { pipe, style, cache: [1usize, 2, 3, 64][t.below(4)], pool, seqs, gap_seed }
}

/// one very long sequence (tens of KiB of input) over a pool of values with long tokens:
/// whatever is buffered, counted or cached per run gets exercised across many refills
pub fn long_case(tape: &[u32], style: u8, gap_seed: u64) -> Case11 {
    let mut t = Tape::new(tape);
    let mut pipe = EPipe { sets: vec![], split: None, filter: None, selects: vec![] };
    match t.below(3) {
        0 => {}
        1 => {
            pipe.filter = Some(Expr::call("number?", vec![Expr::dot()]));
            pipe.selects.push((Expr::call("+", vec![Expr::dot(), Expr::lit("1")]), "next".into()));
        }
        _ => pipe.selects.push((Expr::call("stringify", vec![Expr::dot()]), "s".into())),
    }
    let toks = ["123456789012345", "9876543210.12345", "\"abcdefghij klmnop\"", "{\"key\":[1,2,{\"x\":\"y\"}]}", "1", "[]", "\"\\u00e9t\\u00e9 \u{65e5}\u{672c}\"", "-77777777777", "true", "[12345678,87654321]"];
    let np = 2 + t.below(5);
    let pool: Vec<String> = (0..np).map(|_| t.pick_s(&toks).to_string()).collect();
    let n = 1200 + t.below(3000);
    let mut m = Mix(gap_seed ^ 0xabc);
    let seq: Vec<usize> = (0..n).map(|_| m.below(pool.len() as u64) as usize).collect();
    Case11 { pipe, style: style % 6, cache: 0, pool, seqs: vec![seq], gap_seed }
}

fn concat_input(pool: &[String], seq: &[usize], seed: u64) -> Vec<u8> {
    let mut m = Mix(seed);
    let mut out = String::new();
    let ws = [" ", "\n", "\t", "\r\n", "  \n", "\n\n"];
    for (i, idx) in seq.iter().enumerate() {
        let t = &pool[*idx];
        if i > 0 {
            let prev = &pool[seq[i - 1]];
            if !(m.chance(1, 3) && can_touch(prev, t)) {
                out.push_str(ws[m.below(ws.len() as u64) as usize]);
            }
        } else if m.chance(1, 4) {
            out.push('\n');
        }
        out.push_str(t);
    }
    if m.chance(1, 2) {
        out.push('\n');
    }
    out.into_bytes()
}

pub struct C11Local;
impl Check for C11Local {
    type Case = Case11;
    fn name(&self) -> &'static str {
        "C11.local"
    }
    fn cases(&self, tier: Tier) -> u64 {
        tier.pick(60_000, 1_500_000)
    }
    fn strategy(&self, _t: Tier) -> BoxedStrategy<Case11> {
        (any::<u8>(), vec(any::<u32>(), 0..400), 0u8..8, prop::sample::select(vec![0usize, 0, 1, 2, 64]), vec(vec(any::<u16>(), 0..20), 1..5), any::<u64>())
            .prop_map(|(which, tape, style, cache, seqs, gs)| {
                if which % 6 == 0 {
                    regex_case(&tape, style.min(5), &seqs, gs)
                } else if which % 29 == 1 {
                    long_case(&tape, style, gs)
                } else {
                    decode_case(&tape, style, cache, &seqs, gs)
                }
            })
            .boxed()
    }
    fn check(&self, case: &Case11) -> CaseResult {
        let mut args = case.pipe.args(&Spell::CANON);
        args.extend(style_args(case.style));
        if case.cache > 0 {
            args.push(format!("--regular-expression-cache-size={}", case.cache));
        }
        // header = output on the empty input; a configuration that is rejected is out of domain
        let empty = run(&args, b"");
        match &empty.res {
            Res::Ok => {}
            Res::Panic(m) => return CaseResult::Fail(format!("panic on empty input: {}", m)),
            other => return CaseResult::Discard(format!("configuration rejected: {}", other.short())),
        }
        let header = empty.stdout.clone();
        let mut outs: Vec<Vec<u8>> = Vec::new();
        for v in &case.pool {
            let o = run(&args, v.as_bytes());
            if !o.res.is_ok() {
                return CaseResult::Fail(format!("run on the single value {} failed: {}", trunc(v, 200), o.res.short()));
            }
            if !o.stdout.starts_with(&header) {
                return CaseResult::Fail(format!("output for the single value {} does not start with the header {}", trunc(v, 200), esc(&header)));
            }
            outs.push(o.stdout[header.len()..].to_vec());
        }
        let mut multi = 0;
        for (si, seq) in case.seqs.iter().enumerate() {
            let input = concat_input(&case.pool, seq, case.gap_seed.wrapping_add(si as u64));
            let o = run(&args, &input);
            if !o.res.is_ok() {
                return CaseResult::Fail(format!("run on sequence {:?} failed: {}", seq, o.res.short()));
            }
            let mut exp = header.clone();
            for i in seq {
                exp.extend_from_slice(&outs[*i]);
            }
            if o.stdout != exp {
                return CaseResult::Fail(format!(
                    "output of the concatenated input differs from the concatenation of the per-value outputs for sequence {:?}: expected {} got {} (input {})",
                    seq,
                    esc_trunc(&exp, 400),
                    esc_trunc(&o.stdout, 400),
                    esc_trunc(&input, 300)
                ));
            }
            let mut d: Vec<usize> = seq.clone();
            d.sort();
            d.dedup();
            if d.len() >= 2 && d.len() < seq.len() {
                multi += 1;
            }
        }
        let line_count = |b: &[u8]| b.iter().filter(|c| **c == b'\n').count();
        let uneven = outs.iter().any(|o| line_count(o) != 1 || o.is_empty());
        let distinct_outs = {
            let mut v = outs.clone();
            v.sort();
            v.dedup();
            v.len()
        };
        let nt = case.pipe.stages() >= 2 && multi >= 1 && distinct_outs >= 2;
        let regex = case.pipe.any_expr(&|e| matches!(e, Expr::Call { f, .. } if f == "match" || f == "extract_regex_group"));
        CaseResult::Pass(
            Info::new(nt)
                .class(match case.style {
                    0..=4 => "json",
                    5 | 6 => "text",
                    _ => "csv",
                })
                .class_if(case.pipe.split.is_some(), "split")
                .class_if(case.pipe.filter.is_some(), "filter")
                .class_if(!case.pipe.sets.is_empty(), "set")
                .class_if(regex, "regex")
                .class_if(regex && case.cache > 0, "regex_with_cache")
                .class_if(case.pool.first().map(|p| p.starts_with("{\"s\":")).unwrap_or(false) && case.pool[0].contains("\"subjects\":"), "regex_focused")
                .class_if(case.pipe.any_expr(&|e| matches!(e, Expr::Sel(_))), "back_reference")
                .class_if(uneven, "some_value_yields_0_or_many_rows")
                .class_if(!header.is_empty(), "header")
                .class_if(case.seqs.iter().any(|q| q.len() > 1000), "long_sequence")
                .class_if(case.pool.iter().any(|p| p.len() > 4096), "value_larger_than_4KiB")
                .weight((case.pool.len() + case.seqs.len()) as u64)
                .obs(json!({"args": args, "outs": outs.iter().take(3).map(|o| esc_trunc(o, 120)).collect::<Vec<_>>()})),
        )
    }
}

pub fn run_all(ctx: &mut Ctx) {
    ctx.rule = "pipelines of --set (variables and macros), --split-by, --filter, 0..3 --select with generated expressions (type-directed over the 108 pure functions, no & selectors, /name/ back-references allowed) x 8 output styles (json x4, text x2, csv) x regex cache sizes {0,1,2,64} x a pool of 1..6 input values x 1..4 index sequences (length 0..19, with repetition, random legal separators incl. touching); oracle: out(sequence) == header ++ concat(out(single value)) byte for byte. non-trivial = >= 2 stages, a sequence with >= 2 distinct and >= 1 repeated pool value, and >= 2 distinct per-value outputs".into();
    ctx.assumptions = vec!["metamorphic (jawk vs jawk): the single-value run defines what a value's rows are; the header is the output on the empty input".into()];
    C11Local.run(ctx);
}

pub fn checks() -> Vec<Box<dyn DynCheck>> {
    vec![Box::new(C11Local)]
}

#[allow(dead_code)]
fn _unused(_: BytesS) {}
