#!/bin/bash
# run a check against a scratch source tree (default: worktree of the pinned commit at /tmp/jawk-orig)
# usage: tools/on-orig.sh [-s SRC] Cxx [args]
SRC=/tmp/jawk-orig
if [ "$1" = "-s" ]; then SRC="$2"; shift 2; fi
T=/tmp/jv-alt-$(echo "$SRC" | md5sum | cut -c1-8)
mkdir -p "$T"
rsync -a --delete --exclude target /verif/harness "$T/" 
cp /verif/KNOWN_FINDINGS.txt "$T/"; rm -rf "$T/replays"; cp -r /verif/replays "$T/replays"
ln -sfn "$SRC" "$T/.jawk-src"
( cd "$T/harness" && CARGO_NET_OFFLINE=true cargo build --release -q 2> "$T/build.log" ) || { echo BUILD FAILED; tail -20 "$T/build.log"; exit 2; }
case " $* " in *" C20 "*)
  ( cd "$SRC" && cargo build --release -q --offline --bin jawk --target-dir "$T/jawk-bin" 2>> "$T/build.log" ) || { echo BIN BUILD FAILED; exit 2; }
  export JAWK_BIN="$T/jawk-bin/release/jawk";;
esac
"$T/harness/target/release/jv" --root "$T" "$@"
