#!/usr/bin/env python3
"""Mechanical mutation sweep (a complement to the sub-agent seeding of DESIGN.md §12).

For each sampled one-token mutation of /repo/src (operators below) in a scratch worktree:
  1. the tree must compile and the unedited test suite must pass (otherwise the mutant is of no
     interest here: the tests already decide it),
  2. the quick checks of all twenty properties are run against the mutated tree, stopping at
     the first VIOLATION.
A mutant that survives step 2 is either equivalent, outside every property's quantifier, or a
missing generator class / oracle - that triage is done by hand and recorded in DESIGN.md.

usage: tools/mutate.py --lane K --of N --seed S --count M [--files glob,glob] [--log file]
Lanes work on disjoint slices of one shuffled list of mutation sites, each in its own worktree
(/tmp/mutwork/wt-K) with its own copy of the harness (/tmp/mutwork/h-K); remove /tmp/mutwork afterwards.
"""
import argparse,glob,os,random,re,subprocess,sys,time,json,shutil,fnmatch

ap=argparse.ArgumentParser()
ap.add_argument('--lane',type=int,default=0); ap.add_argument('--of',type=int,default=1)
ap.add_argument('--seed',type=int,default=1); ap.add_argument('--count',type=int,default=20)
ap.add_argument('--files',default=''); ap.add_argument('--log',default='/tmp/mutwork/results.jsonl')
ap.add_argument('--list',action='store_true')
a=ap.parse_args()

SKIP={'src/selection_help.rs','src/additional_help.rs','src/build_docs.rs','src/functions/proccess/exec.rs',
      'src/functions/proccess/trigger.rs','src/functions/string/env.rs','src/functions/time/now.rs'}
ORDER_FN='C04 C05 C13 C19 C03 C12 C11 C02 C08 C07 C10 C09 C18 C15 C01 C06 C17 C16 C14 C20'.split()
ORDER_CORE='C03 C01 C02 C05 C08 C07 C09 C10 C06 C17 C16 C14 C15 C18 C12 C13 C11 C04 C19 C20'.split()

# (regex on code outside string literals, replacement)
OPS=[(r'==','!='),(r'!=','=='),(r'<=','<'),(r'>=','>'),(r' < ',' <= '),(r' > ',' >= '),
     (r'&&','||'),(r'\|\| ','&& '),(r' \+ 1\b',' + 2'),(r' - 1\b',' - 2'),(r' \+ ',' - '),(r' - ',' + '),(r' \* ',' / '),
     (r'\btrue\b','false'),(r'\bfalse\b','true'),(r'if !','if '),(r'Ordering::Less','Ordering::Greater'),
     (r'Ordering::Greater','Ordering::Less'),(r'\.rev\(\)',''),(r'\.min\(','.max('),(r'\.max\(','.min('),
     (r', 0\)',', 1)'),(r', 1\)',', 0)'),(r'\b0\b','1'),(r'\b1\b','2'),(r'\b2\b','3'),
     (r'\.is_empty\(\)','.is_empty() == false'),(r'\+= 1','+= 2'),(r'\.first\(\)','.last()'),(r'\.last\(\)','.first()'),
     (r'pop_front','pop_back'),(r'pop_back','pop_front'),(r'push_front','push_back'),(r'push_back','push_front'),
     (r'\.saturating_sub\(','.wrapping_sub('),(r'checked_add','wrapping_add'),(r' as usize',' as u32 as usize'),
     (r'\.floor\(\)','.ceil()'),(r'\.ceil\(\)','.floor()'),(r'\.round\(\)','.trunc()'),(r'\.abs\(\)',''),
     (r'\.chars\(\)\.count\(\)','.len()'),(r'\.\.=','..'),(r'^(\s*)(self\.|[a-z_]+\.)[a-z_\.]+\([^;]*\);$',r'\1;'),(r'\.skip\(','.take('),(r'\.take\(','.skip(')]

def code_mask(text):
    """per character: True where the character is code (not in a string / char literal / comment)"""
    n=len(text); mask=[True]*n; i=0
    while i<n:
        c=text[i]
        if c=='/' and text.startswith('//',i):
            j=text.find('\n',i); j=n if j<0 else j
            for k in range(i,j): mask[k]=False
            i=j; continue
        if c=='/' and text.startswith('/*',i):
            j=text.find('*/',i+2); j=n if j<0 else j+2
            for k in range(i,j): mask[k]=False
            i=j; continue
        if c=='r' and re.match(r'r#*"',text[i:i+6]) and (i==0 or not (text[i-1].isalnum() or text[i-1]=='_')):
            h=len(re.match(r'r(#*)"',text[i:i+6]).group(1)); end='"'+'#'*h
            j=text.find(end,i+2+h); j=n if j<0 else j+len(end)
            for k in range(i,j): mask[k]=False
            i=j; continue
        if c=='"':
            j=i+1
            while j<n and text[j]!='"':
                j+=2 if text[j]=='\\' else 1
            j=min(n,j+1)
            for k in range(i,j): mask[k]=False
            i=j; continue
        if c=="'":
            m=re.match(r"'(\\.[^']*|[^'\\])'",text[i:i+12])
            if m:
                for k in range(i,i+m.end()): mask[k]=False
                i+=m.end(); continue
        i+=1
    return mask

def code_spans_unused(line):
    """spans of the line that are outside string literals and before a // comment"""
    spans=[];i=0;n=len(line);start=0;ins=False
    while i<n:
        c=line[i]
        if ins:
            if c=='\\': i+=2; continue
            if c=='"': ins=False; start=i+1
        else:
            if c=='"': spans.append((start,i)); ins=True
            elif c=='/' and i+1<n and line[i+1]=='/': spans.append((start,i)); return spans
            elif c=="'" and i+2<n and (line[i+2]=="'" or (line[i+1]=='\\' and i+3<n and line[i+3]=="'")):
                spans.append((start,i)); i+= 3 if line[i+2]=="'" else 4; start=i; continue
        i+=1
    if not ins: spans.append((start,n))
    return spans

def sites():
    out=[]
    files=sorted(glob.glob('/repo/src/**/*.rs',recursive=True))
    pats=[p for p in a.files.split(',') if p]
    for f in files:
        rel=os.path.relpath(f,'/repo')
        if rel in SKIP: continue
        if pats==['core']:
            if rel.startswith('src/functions/'): continue
        elif pats and not any(fnmatch.fnmatch(rel,p) for p in pats): continue
        text=open(f).read(); mask=code_mask(text)
        lines=text.split('\n'); offs=[0]
        for l in lines: offs.append(offs[-1]+len(l)+1)
        isfn=rel.startswith('src/functions/') and not rel.endswith('mod.rs') and rel!='src/functions/all.rs'
        instr=False
        for ln,l in enumerate(lines):
            if '#[cfg(test)]' in l: break
            if isfn and re.match(r'\s*\.add_(description_line|alias|example)\(',l): break
            s=l.strip()
            if not s or s.startswith('//') or s.startswith('use ') or s.startswith('#['): continue
            spans=[];st=None
            for ci in range(len(l)+1):
                ok=ci<len(l) and mask[offs[ln]+ci]
                if ok and st is None: st=ci
                if not ok and st is not None: spans.append((st,ci)); st=None
            for (a0,b0) in spans:
                seg=l[a0:b0]
                for oi,(rx,rep) in enumerate(OPS):
                    for m in re.finditer(rx,seg):
                        # skip generics / arrows / closures for the comparison operators
                        ctx=seg[max(0,m.start()-2):m.end()+2]
                        if rx in (r'<=',r'>=') and ('=>' in ctx): continue
                        if rx==r' > ' and '->' in seg[max(0,m.start()-2):m.end()]: continue
                        out.append((rel,ln,a0+m.start(),a0+m.end(),m.expand(rep),oi))
    return out

def sh(cmd,cwd=None,timeout=1800,env=None):
    p=subprocess.run(cmd,shell=True,cwd=cwd,stdout=subprocess.PIPE,stderr=subprocess.STDOUT,timeout=timeout,env=env)
    return p.returncode,p.stdout.decode(errors='replace')

S=sites()
random.Random(a.seed).shuffle(S)
# at most 3 mutants per (file, line) and spread over files: round-robin by file
byfile={}
for s in S: byfile.setdefault(s[0],[]).append(s)
rr=[];k=0
while any(byfile.values()):
    for f in sorted(byfile):
        if byfile[f]: rr.append(byfile[f].pop(0))
S=rr
if a.list:
    print(len(S),'sites in',len(set(s[0] for s in S)),'files'); sys.exit(0)
mine=[s for i,s in enumerate(S) if i%a.of==a.lane][:a.count]

W=f'/tmp/mutwork/wt-{a.lane}'; H=f'/tmp/mutwork/h-{a.lane}'
os.makedirs('/tmp/mutwork',exist_ok=True)
sh(f'git -C /repo worktree remove --force {W}');
rc,o=sh(f'git -C /repo worktree add -q --detach {W} HEAD'); assert rc==0,o
os.makedirs(H,exist_ok=True)
sh(f'rsync -a --delete --exclude target /verif/harness {H}/ && cp /verif/KNOWN_FINDINGS.txt {H}/ && rm -rf {H}/replays && cp -r /verif/replays {H}/replays && ln -sfn {W} {H}/.jawk-src')
env=dict(os.environ,CARGO_NET_OFFLINE='true')
for (rel,ln,c0,c1,rep,oi) in mine:
    path=os.path.join(W,rel)
    sh('git checkout -q -- .',cwd=W)
    lines=open(path).read().split('\n')
    old=lines[ln]; lines[ln]=old[:c0]+rep+old[c1:]
    open(path,'w').write('\n'.join(lines))
    rec=dict(file=rel,line=ln+1,old=old.strip(),new=lines[ln].strip(),op=OPS[oi][0][:24]+' -> '+rep.strip())
    t0=time.time()
    rc,o=sh('cargo build --offline -q 2>&1',cwd=W,env=env)
    if rc!=0: rec['result']='does-not-compile'
    else:
        rc,o=sh('cargo test --workspace --no-fail-fast --offline 2>&1 | grep -E "^test result|FAILED|panicked" | head -20',cwd=W,env=env,timeout=900)
        failed=sum(int(x) for x in re.findall(r'(\d+) failed',o))
        if failed or 'test result' not in o: rec['result']='killed-by-tests'
        else:
            rc,o=sh(f'cd {H}/harness && cargo build --release -q 2>&1',env=env)
            if rc!=0: rec['result']='harness-build-failed'; rec['out']=o[-400:]
            else:
                order=ORDER_FN if rel.startswith('src/functions/') else ORDER_CORE
                rec['result']='SURVIVED'; rec['ran']=[]
                for p in order:
                    e=dict(env)
                    if p=='C20':
                        rc,o=sh(f'cargo build --release -q --offline --bin jawk --target-dir {H}/jawk-bin 2>&1 | tail -3',cwd=W,env=env)
                        e['JAWK_BIN']=f'{H}/jawk-bin/release/jawk'
                    try: rc,o=sh(f'{H}/harness/target/release/jv --root {H} {p} --tier quick',env=e,timeout=600)
                    except subprocess.TimeoutExpired: rc,o=2,'TIMEOUT'
                    rec['ran'].append(f'{p}:{rc}')
                    if rc==1 and 'VIOLATION' in o:
                        ck=re.findall(r'check=(C\d\d\.[a-z_]+)',o)
                        rec['result']='caught'; rec['by']=p; rec['check']=ck[0] if ck else None; break
                    if rc not in (0,1): rec.setdefault('inconclusive',[]).append(p+':'+o[-200:])
    rec['secs']=int(time.time()-t0)
    with open(a.log,'a') as f: f.write(json.dumps(rec)+'\n')
    print(rec['result'],rel,ln+1,rec['op'],rec.get('by',''),rec['secs'],flush=True)
sh('git checkout -q -- .',cwd=W)
sh(f'git -C /repo worktree remove --force {W}'); shutil.rmtree(H,ignore_errors=True)
