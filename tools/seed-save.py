#!/usr/bin/env python3
"""Copy evaluated seeded changes into /verif/seeded/<Cxx-mN>/ with a meta.json.
usage: seed-save.py <out-dir-of-agent> <start-number> <results-log>... [--note key=text]"""
import json,os,re,shutil,glob,sys
args=[a for a in sys.argv[1:] if not a.startswith('--note=')]
notes=dict(a[7:].split('=',1) for a in sys.argv[1:] if a.startswith('--note='))
src,start,logs=args[0],int(args[1]),args[2:]
res={}
for lg in logs:
    for l in open(lg,errors='replace'):
        m=re.match(r'(out-\w+)/(m\d) prop=(C\d\d) tests\(pass/fail\)=(\d+)/(\d+) demo\(patched\)=(\d) demo\(clean\)=(\d) :: (.*)',l)
        if m: res.setdefault((m.group(1),m.group(2)),[]).append(dict(tests_pass=int(m.group(4)),tests_fail=int(m.group(5)),demo_patched=int(m.group(6)),demo_clean=int(m.group(7)),run=m.group(8).strip()[:600]))
base=os.path.basename(src.rstrip('/'))
for i,d in enumerate(sorted(glob.glob(src+'/m*'))):
    meta=json.load(open(os.path.join(d,'meta.json')))
    prop=meta.get('property',base[4:7]); m=os.path.basename(d)
    if start>0: name=f'{prop}-m{start+i}'
    else:
        # start 0: next free number of that property (free-form rounds mix properties)
        n=1
        while os.path.exists(f'/verif/seeded/{prop}-m{n}'): n+=1
        name=f'{prop}-m{n}'
    dst=f'/verif/seeded/{name}'; os.makedirs(dst,exist_ok=True)
    for f in ('patch.diff','demo.sh'): shutil.copy(os.path.join(d,f),dst)
    rr=res.get((base,m),[{}])
    out=dict(property=prop, summary=meta.get('summary'), needs=meta.get('needs'), author="independent sub-agent given only property texts (and, in rounds b and c, one-line summaries of earlier seeded changes to avoid) and a scratch worktree", author_verified=meta.get('verified'),
             confirmed_by_me=dict(how="tools/seed-eval.sh (scratch worktree of /repo HEAD + patch.diff; unedited test suite; demo.sh on patched and unchanged tree; quick checks against the patched tree)", **{k:v for k,v in rr[-1].items() if k!='run'}),
             detection=dict(runs=[x.get('run') for x in rr], note=notes.get(m)))
    json.dump(out,open(os.path.join(dst,'meta.json'),'w'),indent=1)
    print(name, rr[-1].get('run','')[:80])
