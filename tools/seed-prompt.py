import json,sys
pid=sys.argv[1]; n=sys.argv[2] if len(sys.argv)>2 else 'a'
for l in open('/verif/properties.jsonl'):
    p=json.loads(l)
    if p['id']==pid: break
wt=f"/tmp/seedwork/wt-{pid}{n}"
out=f"/tmp/seedwork/out-{pid}{n}"
print(f"""You are helping to evaluate a test-suite's blind spots for the Rust project yift/jawk (an AWK-like CLI for streams of JSON values). You have your own scratch git worktree of the project at {wt} (already created; work ONLY there; never touch /repo or /verif, and do not read anything under /verif). Everything is offline: use `cargo build --offline` / `cargo test --workspace --no-fail-fast --offline` inside {wt} (the first build takes about a minute).

Here is a semantic property that the project is supposed to satisfy:

ID: {p['id']}
TITLE: {p['title']}
STATEMENT: {p['statement']}
QUANTIFIER: {p['quantifier']['text']}
WHY THE EXISTING TESTS CANNOT SETTLE IT: {p['why_tests_cant']}
CODE ANCHORS: {json.dumps(p['anchors'].get('mechanism'), indent=1)}

Your task: produce TWO different, independent, realistic source changes (bugs a developer could plausibly introduce in a refactoring or "optimisation") to the code in {wt}/src that each BREAK this property, while the project still compiles and the existing test suite (`cargo test --workspace --no-fail-fast --offline`, 158 tests) still passes completely. Prefer subtle changes that need something specific to manifest — an unusual input, a particular combination of options, a multi-step sequence, a boundary value, a fault at a particular point, or two cooperating sites that each look fine alone — NOT changes that ordinary use would expose at once (e.g. do not break every run). The two changes should be in different code sites / different mechanisms. Do not add any cfg flags; just change behaviour.

For each change i in (1, 2):
 1. make the change in the worktree (starting from a clean `git checkout -- .` state for each, so the two patches are independent and each applies to HEAD alone),
 2. run the full existing test suite and confirm that all tests pass,
 3. write a demonstration: a small shell script `demo.sh` that takes the path of a jawk source tree as $1, builds it (`cargo build --offline --manifest-path $1/Cargo.toml`), runs the binary `$1/target/debug/jawk` on a concrete input / options, and exits 0 if the property holds on that input and 1 if it is violated. It must exit 1 with your change applied and exit 0 on the unchanged tree (verify both; NEVER use `git stash` - the stash is shared between worktrees of other people; save your change with `git diff > /some/file`, restore the unchanged tree with `git checkout -- .`, and re-apply with `git apply /some/file`).
 4. save into {out}/m<i>/ : `patch.diff` (output of `git diff` in the worktree, relative to HEAD), `demo.sh`, and `meta.json` with keys: property (\"{p['id']}\"), summary (one sentence: what was changed), needs (what specific input/option combination/sequence is needed for the violation to manifest), verified (what commands you ran and what you observed: tests pass with the change, demo fails with the change, demo passes without).

At the end leave the worktree clean (`git checkout -- .`) and reply with a short summary of the two changes (files, what they need to manifest) and the paths written. Do not spend time on anything else.""")
