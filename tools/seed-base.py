#!/usr/bin/env python3
"""Record in every seeded/*/meta.json the newest /repo commit its patch.diff applies to
(key "applies_to"): the repository moved on (fix: commits) after some changes were written."""
import json,glob,os,subprocess,tempfile,shutil
commits=subprocess.check_output(['git','-C','/repo','log','--format=%h','-n','40']).decode().split()
wt=tempfile.mkdtemp(prefix='seedbase-',dir='/tmp'); os.rmdir(wt)
subprocess.check_call(['git','-C','/repo','worktree','add','-q','--detach',wt,'HEAD'])
try:
    cache={}
    for f in sorted(glob.glob('/verif/seeded/*/meta.json')):
        d=json.load(open(f)); patch=os.path.join(os.path.dirname(f),'patch.diff')
        found=None
        for c in commits:
            subprocess.check_call(['git','-C',wt,'checkout','-q','--detach',c])
            if subprocess.call(['git','-C',wt,'apply','--check',patch],stderr=subprocess.DEVNULL)==0:
                found=c; break
        if d.get('applies_to')!=found:
            d['applies_to']=found; json.dump(d,open(f,'w'),indent=1)
        print(os.path.basename(os.path.dirname(f)),found)
finally:
    subprocess.call(['git','-C','/repo','worktree','remove','--force',wt])
