#!/usr/bin/env python3
"""Regenerate /verif/MANIFEST.json from the table below (keeps it schema-valid at all times)."""
import json, os
ROOT = os.path.dirname(os.path.dirname(os.path.abspath(__file__)))
props = [json.loads(l) for l in open(os.path.join(ROOT, "properties.jsonl"))]

# id -> (category, technique, level text, level note, design ref)
CLAIMED = {
 "C01": ("exploration",
         "property-based testing (proptest): generated value sequences x independent conforming spellings, round-trip oracle through an independent strict RFC 8259 reader; shrunk replay files",
         "Generated-input search: every generated conforming stream must come out as one row per value, in order, denoting the same value under the harness' own strict reader. Exploration is the right level: the property quantifies over an infinite input space and the oracle is a cheap round-trip, so tens of thousands (quick) to a million (thorough) structured cases per run plus a coverage-guided libFuzzer target give far more reach than examples, but no proof of absence.",
         "Trusted: the harness' strict reader (differentially tested against serde_json), Rust std's decimal->double conversion, proptest's generators. Known finding astral-escape-5hex is excluded by signature and counted.",
         "DESIGN.md §3 C01"),
 "C02": ("exploration",
         "property-based testing (proptest): generated values and expression results x style x --utf8-strings x row separator; validity predicate via independent strict reader + style-shape predicate on the token stream + cross-style metamorphic relation + feed-back fixpoint",
         "Generated-input search against a validity predicate (not an expected text): each row must strict-parse to the value being output, be framed by the separator, have the whitespace shape of its style, the three styles must agree after deleting whitespace tokens, and jawk must reproduce its own output byte for byte. 100k (quick) to 1.5M (thorough) configurations; exploration level because the space of values x configurations is unbounded.",
         "Trusted: strict reader; the pretty-shape predicate is deliberately lenient (any constant indentation unit, empty collections unconstrained). Known finding astral-escape-5hex excluded by signature (rewrite the 5/6-hex escape of exactly the astral characters of the expected value, then the whole predicate must pass).",
         "DESIGN.md §3 C02"),
 "C07": ("exploration",
         "property-based testing (proptest) with a reference stable sort over a finite key universe; exhaustive check of the order axioms over all pairs and triples of the universe using comparison matrices obtained from jawk",
         "Order axioms (totality, antisymmetry w.r.t. =, transitivity, consistency of < <= > >= = !=, agreement with the specified type ranks and per-type orders) are checked exhaustively over a 108-value universe; --sort-by and the six sort functions are checked on generated sequences against a reference stable lexicographic sort (exact id order, so permutation, order, stability, multi-key and direction are decided together).",
         "Trusted: the harness' spec comparator; the order between two *different* objects is taken from jawk's own matrix after it passed the axioms (unspecified by the documentation). Universe restricted as the quantifier says (|n| < 2^53 or non-integral, no -0, no member-order permutations).",
         "DESIGN.md §3 C07"),
 "C08": ("exploration",
         "metamorphic property-based testing (jawk with limits vs jawk without, sliced by the harness) on generated pipelines and record streams, plus exhaustive enumeration of all streams up to length 4/5 over 4 keys x 8 pipelines x all 56 (skip,take) pairs",
         "rows(P with --skip S --take T) must equal rows(P without)[S..S+T] byte for byte; with --group-by/--merge the single output must equal the documented grouping of that slice and must be emitted exactly once. Exhaustive for the small sub-space, random exploration (ties at the cut, multi-key sorts, unique, split, filter, select) beyond it.",
         "Trusted: the unlimited run is the reference (its own correctness is C03/C07/C09/C10's subject).",
         "DESIGN.md §3 C08"),
 "C09": ("exploration",
         "metamorphic/model-based property-based testing: the grouped output is compared with the documented grouping (a 15-line model) applied to the rows the same pipeline prints without grouping",
         "Exactly one output row; keys = distinct string keys in first-seen order; arrays in arrival order; non-string/absent keys dropped; empty collection emitted when nothing survives; json (3 styles) and text output. 40k (quick) / 800k (thorough) generated (records, pipeline) pairs including explicitly generated empty inputs.",
         "Trusted: the ungrouped run defines the surviving rows; the group key is read from the printed row.",
         "DESIGN.md §3 C09"),
 "C10": ("exploration",
         "property-based testing against a first-occurrence-filter model under jawk's own = relation (matrix over the universe, itself checked exhaustively to be an equivalence agreeing with structural/numeric equality)",
         "out(--unique) must be exactly the first-occurrence filter of out(without) under = on the list of selected values (absent only equals absent), for 0..3 selections over pools rich in equal-but-differently-spelled values.",
         "Trusted: reference equality of the harness; universe restricted as the quantifier says.",
         "DESIGN.md §3 C10"),
 "C05": ("exploration",
         "exhaustive enumeration of all byte strings up to length 5/6 over a 24-byte JSON alphabet, mutation-based random byte strings, stratified type-directed expression generation with ill-typed arguments and boundary numbers, directed sweeps (byte offsets in multi-byte strings, strftime specifiers); crash oracle = catch_unwind + SIGABRT reporter + watchdog",
         "Every explored (input bytes, policy, pipeline) and (expression, position, input) must make go() return Ok or Err: no panic, no abort, no hang. Exhaustive for the stated byte sub-space, exploration beyond it.",
         "Trusted: release semantics (overflow checks off); allocation-size arguments kept within the bound the property states (<= 10^4); watchdog 60 s + isolated re-run decides 'hang'.",
         "DESIGN.md §3 C05"),
 "C06": ("exploration",
         "differential property-based testing: generated streams with garbage tokens at every gap x 4 policies x 8 pipelines, compared with the noise-free run of the same pipeline plus placement rules for error: lines",
         "Noise must not change rows (ignore), must add >= 1 error: line per malformed region on exactly the chosen stream and in the right slot (stdout/stderr), and must stop the run with exactly the rows of the preceding values (panic). A clean stream yields no report under any policy.",
         "Trusted: the noise-free run as the reference for the rows; error reports are single lines starting with error:.",
         "DESIGN.md §3 C06"),
 "C11": ("exploration",
         "metamorphic property-based testing (jawk on a concatenated input vs the concatenation of jawk's outputs on the single values) over generated stateless pipelines with type-directed generated expressions",
         "For generated pipelines of --set/--split-by/--filter/--select (expressions over the 108 pure functions) in 8 output styles and 4 regex cache sizes, the output for every generated sequence over a pool of values (repetitions, permutations, concatenations are all such sequences) must be header ++ the per-value outputs in order, byte for byte.",
         "Trusted: the single-value run defines a value's rows; header = output on the empty input.",
         "DESIGN.md §3 C11"),
 "C12": ("exploration",
         "metamorphic property-based testing against AST-level substitution done by the harness (macros inlined at the use site, variables replaced by their literal), plus pipe = map-over-singleton and repeated-select agreement relations",
         "Per record the bound forms (set/define nested both ways, --set, --set @) must equal the harness-substituted expression; (| a b [c]) must equal b applied to a's value with the input as parent (two independent formulations); k copies of one expression among other selections (after --split-by/--filter) must agree.",
         "Trusted: the harness' substitution function (60 lines, unit-tested); macros are never recursive; ^^ inside pipe stages not generated (unspecified).",
         "DESIGN.md §3 C12"),
 "C13": ("exploration",
         "metamorphic property-based testing: the per-record value shown by --select is the reference for what --filter/--sort-by/--group-by/--split-by/--set do with the same expression; alias, separator, padding, dot-sugar and regex-cache-size variants must give byte-identical output (regex results also compared with the regex crate); /name/ compared with a variable binding",
         "One generated expression, five option positions plus macro and variable: kept ids, sorted ids (specified total order, stable), grouping, split elements and macro/variable values must all follow from the --select values. Every alias of every pure function is enumerated with generated arguments; spelling variants and cache sizes 0,1,2,3,64 must not change a byte.",
         "Trusted: the stage models (filter = value is true, sort = C07 order, group = string keys first-seen, split = array elements), the regex crate as reference engine; order between different objects not checked.",
         "DESIGN.md §3 C13"),
 "C14": ("exploration",
         "property-based testing with an instrumented endless reader (byte budget oracle, no clock) and a FIFO fed by a counting writer thread",
         "For every generated streaming pipeline in front of --take and every finite prefix followed by an endless stream of qualifying values, jawk must return Ok with exactly the rows of a finite reference run while pulling fewer bytes than a fixed budget past the value that produced the last row. Liveness turned into a bounded safety check.",
         "Trusted: the finite reference run for the rows; budget = reference length + 64 KiB (+ pipe and BufReader capacity for the FIFO).",
         "DESIGN.md §3 C14"),
 "C15": ("exploration",
         "property-based testing: csv output read back by an independent RFC 4180 reader (round-trip per field, by type), text output compared byte for byte with a reference renderer written from the option help texts",
         "For generated rows of 1..5 selections over all JSON types, absent values and strings full of quotes, commas, CR/LF, every csv record must have exactly N fields, the header must be the selection names, and every field must give back its value by the documented convention; text rows must be exactly what the separator/prefix/postfix/escape/keyword options describe.",
         "Trusted: the harness' csv reader (40 lines) and text renderer; nested values in text mode are restricted to strings with a unique concise JSON spelling, numbers in text mode to those with one plain decimal spelling.",
         "DESIGN.md §3 C15"),
 "C16": ("fault_enumeration",
         "fault injection enumerated over every byte offset of generated inputs and of their fault-free outputs (reads: 7 error kinds, Interrupted and short reads before; writes: short writes and Interrupted before; flush-only failure)",
         "Per generated (input, policy, pipeline) every read offset and every write offset is tried: never a panic, result Err (never Ok), accepted output is a prefix of the fault-free output and justified by the bytes before the fault; exactly fault_free[..k] accepted for write faults.",
         "Trusted: a failing descriptor keeps failing; inputs <= 400 bytes.",
         "DESIGN.md §3 C16"),
 "C17": ("exploration",
         "metamorphic property-based testing over deliveries (chunk schedules, stdin vs file, partitions into files at arbitrary offsets) plus an exact model of &index / &index-in-file / &file-name and a containment/contiguity predicate for the reported positions",
         "All deliveries give identical output; a joint multi-file run equals the concatenation of the single-file runs; indices and file names are exact; every (line, col) pair maps through the line-feed positions to a byte range containing the value's text and contiguous with its neighbour.",
         "Trusted: ASCII-only content for position checks; temp files under the harness target directory.",
         "DESIGN.md §3 C17"),
 "C18": ("exploration",
         "property-based testing: generated valid configurations (twin must be accepted) x 15 kinds of single corruption in a random option position and argument order; instrumented stdin factory and FIFO watcher detect any I/O before the rejection",
         "Every corrupted configuration must return Err with empty stdout, the stdin factory never invoked and the input file never opened; the uncorrupted twin must run.",
         "Trusted: only corruptions that are invalid by the documented grammar are generated (arity table of 30 functions transcribed from the sources).",
         "DESIGN.md §3 C18"),
 "C19": ("exploration",
         "property-based testing: digit-exact round trip of boundary and random 64-bit integers through 49 non-arithmetic routes; differential testing of the number-as-string functions against exact big-integer arithmetic (num-bigint) with three spellings per operand",
         "Every integer of [-2^63, 2^64) that enters a non-arithmetic route must come out with the same digits (ordered list, or multiset where the route reorders); + - * abs normalise and the six comparisons on decimal strings of up to 60 digits must equal exact arithmetic whatever the spelling, and normalise must map equal values to one string.",
         "Trusted: num-bigint; digit runs are extracted textually from stdout.",
         "DESIGN.md §3 C19"),
 "C20": ("exploration",
         "differential property-based testing of the real executable (spawned with pipes, closed pipe, /dev/full) against the in-process library run of the same arguments",
         "Exit status 0 iff the library run is Ok and all output could be written; stdout/stderr byte-identical to the library's streams on success; non-zero status with a message on stderr on failure; nothing on stdout for invalid configurations.",
         "Trusted: the in-process run as reference for data; no timing-dependent variant.",
         "DESIGN.md §3 C20"),
}
NOT_YET = "not claimed in this commit: the check is designed in DESIGN.md §3 but not yet built"

checks = []
na = []
for p in props:
    pid = p["id"]
    if pid in CLAIMED:
        cat, tech, text, note, ref = CLAIMED[pid]
        checks.append({
            "property_id": pid,
            "quick_cmd": f"./check {pid} --tier quick",
            "thorough_cmd": f"./check {pid} --tier thorough",
            "evidence_file": f"/verif/evidence/{pid}.json",
            "replay_cmd_template": "./check --replay {path}",
            "engine": "jv",
            "level_claimed": {"category": cat, "text": text, "design_ref": ref},
            "level_note": note,
            "technique": tech,
        })
    else:
        na.append({"property_id": pid, "reason": NOT_YET})

m = {
 "version": 1,
 "setup_cmd": "cd /verif && ln -sfn /repo .jawk-src && cd harness && CARGO_NET_OFFLINE=true cargo build --release 2>&1 | tail -3",
 "hooks": {
   "guard": "none (no source hooks: every check drives the public API jawk::Cli + jawk::go, or the built binary)",
   "enable": "nothing to enable; the harness depends on /repo as a cargo path dependency and rebuilds it from the working tree on every check",
   "baseline_off_cmd": "cd /repo && cargo test --workspace --no-fail-fast --offline",
   "source_commits": [],
   "add_only": True,
 },
 "engines": [
   {"name": "jv", "path": "/verif/harness", "serves_properties": sorted(CLAIMED), "kind_free_text": "Rust binary: proptest strategies + explicit oracles (strict JSON reader, reference models, metamorphic relations), 16 fixed shards seeded from VERIF_SEED, shrinking to replay files"},
 ],
 "checks": checks,
 "not_applicable": na,
 "notes": "Exit codes: 0 held, 1 VIOLATION printed, 2 inconclusive (build failure / watchdog). Known findings: /verif/KNOWN_FINDINGS.txt. Replay files of repaired defects and known findings: /verif/replays (replayed first by every tier).",
}
json.dump(m, open(os.path.join(ROOT, "MANIFEST.json"), "w"), indent=1)
print("claimed:", sorted(CLAIMED), "not claimed:", [x["property_id"] for x in na])
