#!/bin/bash
# sensitivity: run check(s) against HEAD of /repo with ONE fix commit reverted (scratch worktree, removed afterwards)
# usage: tools/revert-test.sh <commit> Cxx [args...]
C="$1"; shift
W=/tmp/jawk-rev-$C
git -C /repo worktree remove --force "$W" 2>/dev/null
git -C /repo worktree add -q --detach "$W" HEAD || exit 2
( cd "$W" && git revert -n "$C" >/dev/null 2>&1 ) || { echo "revert of $C does not apply"; git -C /repo worktree remove --force "$W"; exit 2; }
/verif/tools/on-orig.sh -s "$W" "$@"
rc=$?
T=/tmp/jv-alt-$(echo "$W" | md5sum | cut -c1-8)
mkdir -p /tmp/revert-findings && cp -r "$T/findings/." /tmp/revert-findings/ 2>/dev/null
rm -rf "$T"
git -C /repo worktree remove --force "$W"
exit $rc
