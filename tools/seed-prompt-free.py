#!/usr/bin/env python3
"""Prompt for a free-form blind seeding round: all twenty property texts, a focus area, one-line
summaries of every earlier seeded change (to avoid repeats), a scratch worktree. Nothing from /verif
but the property texts and those summaries.
usage: seed-prompt-free.py <tag> <focus text> [n_changes]"""
import json,sys,glob,os
tag=sys.argv[1]; focus=sys.argv[2]; n=int(sys.argv[3]) if len(sys.argv)>3 else 2
props=[json.loads(l) for l in open('/verif/properties.jsonl')]
wt=f"/tmp/seedwork/wt-{tag}"; out=f"/tmp/seedwork/out-{tag}"
ptxt="\n\n".join(f"{p['id']} - {p['title']}\nSTATEMENT: {p['statement']}\nQUANTIFIER: {p['quantifier']['text']}" for p in props)
summ=[]
for f in sorted(glob.glob('/verif/seeded/*/meta.json')):
    d=json.load(open(f)); summ.append(f"- [{d.get('property')}] {(d.get('summary') or '').strip().replace(chr(10),' ')[:200]}")
print(f"""You are helping to evaluate a test-suite's blind spots for the Rust project yift/jawk (an AWK-like CLI for streams of JSON values). You have your own scratch git worktree of the project at {wt} (already created; work ONLY there; never touch /repo or /verif, and do not read anything under /verif). Everything is offline: use `cargo build --offline` / `cargo test --workspace --no-fail-fast --offline` inside {wt} (the first build takes about a minute). Never use `git stash` (the stash is shared between worktrees of other people): save a change with `git diff > /some/file`, restore the unchanged tree with `git checkout -- .`, re-apply with `git apply /some/file`.

The project is supposed to satisfy these twenty semantic properties:

{ptxt}

A randomised, property-based harness already checks these properties with generated inputs (streams, expressions, option combinations, injected faults), mostly on small to medium inputs with a few large-scale families. Your task: produce {n} different, independent, realistic source changes (bugs a developer could plausibly introduce in a refactoring, an "optimisation", a small feature, or a careless fix) to the code in {wt}/src that each BREAK one of the properties above, while the project still compiles and the existing test suite (`cargo test --workspace --no-fail-fast --offline`, 158 tests) still passes completely. Each change must need something specific to manifest - an unusual input, a particular combination of options, a multi-step sequence, a boundary value, a fault at a particular point, scale, or two cooperating sites that each look fine alone - NOT something ordinary use would expose at once. The violation must be inside the QUANTIFIER of the property you name (read it carefully: e.g. integers beyond 2^53 are outside the ordering property, surrogate pairs and characters beyond U+FFFF are outside the printing properties). Do not add cfg flags or environment variables; just change behaviour.

FOCUS for your changes: {focus}

These changes were already made by others - do NOT repeat them or close variants of them; look for mechanisms and code sites that are not in this list:
{chr(10).join(summ)}

For each change i in 1..{n}:
 1. start from a clean tree (`git checkout -- .`), make the change (so that each patch applies to HEAD alone),
 2. run the full existing test suite and confirm that all tests pass,
 3. write a demonstration: a small shell script `demo.sh` that takes the path of a jawk source tree as $1, builds it (`cargo build --offline --manifest-path $1/Cargo.toml`), runs the binary `$1/target/debug/jawk` on a concrete input / options, and exits 0 if the property holds on that input and 1 if it is violated. It must exit 1 with your change applied and exit 0 on the unchanged tree (verify both),
 4. save into {out}/m<i>/ : `patch.diff` (output of `git diff` in the worktree, relative to HEAD), `demo.sh`, and `meta.json` with keys: property (the id, e.g. "C07"), summary (one sentence: what was changed), needs (what specific input / option combination / sequence is needed for the violation to manifest), verified (what commands you ran and what you observed: tests pass with the change, demo fails with the change, demo passes without).

At the end leave the worktree clean (`git checkout -- .`) and reply with a short summary of the changes (property, files, what they need to manifest) and the paths written. Do not spend time on anything else.""")
