#!/bin/bash
# Evaluate seeded changes: for each <dir> (containing patch.diff, demo.sh, meta.json)
#   1. scratch worktree of /repo HEAD + patch: the unedited test suite must pass
#   2. demo.sh must exit 1 on the patched tree and 0 on the unchanged tree
#   3. run the quick check(s) of the property (or of the properties given with -p) against the patched tree
# usage: tools/seed-eval.sh [-p "C01 C02"] [-t tier] <dir>...     (results appended to $SEED_LOG, default /tmp/seedwork/results.txt)
PROPS=""; TIER=quick
while getopts "p:t:" o; do case $o in p) PROPS="$OPTARG";; t) TIER="$OPTARG";; esac; done; shift $((OPTIND-1))
LOG=${SEED_LOG:-/tmp/seedwork/results.txt}
W=/tmp/seval-wt
CLEAN=/tmp/seval-clean
git -C /repo worktree remove --force $W 2>/dev/null; git -C /repo worktree remove --force $CLEAN 2>/dev/null
git -C /repo worktree add -q --detach $W HEAD || exit 2
git -C /repo worktree add -q --detach $CLEAN HEAD || exit 2
for D in "$@"; do
  D=$(readlink -f "$D")
  P=$(python3 -c "import json,sys; print(json.load(open('$D/meta.json'))['property'])" 2>/dev/null)
  [ -n "$PROPS" ] && PP="$PROPS" || PP="$P"
  ( cd $W && git checkout -q -- . && git clean -fdq -e target && git apply "$D/patch.diff" ) || { echo "$D: PATCH-DOES-NOT-APPLY" | tee -a $LOG; continue; }
  T=$( cd $W && cargo test --workspace --no-fail-fast --offline 2>&1 | grep -E "^test result" | awk '{p+=$4; f+=$6} END {print p"/"f}')
  bash "$D/demo.sh" $W >/dev/null 2>&1; DM=$?
  bash "$D/demo.sh" $CLEAN >/dev/null 2>&1; DC=$?
  R=""
  for q in $PP; do
    OUT=$(/verif/tools/on-orig.sh -s $W $q --tier $TIER 2>&1); rc=$?
    V=$(echo "$OUT" | grep -c "^VIOLATION")
    CK=$(echo "$OUT" | grep -A1 "^VIOLATION" | grep "check=" | head -2 | sed 's/^ *//' | cut -c1-220 | tr '\n' ' ')
    R="$R $q:rc=$rc,viol=$V [$CK]"
  done
  echo "$(basename $(dirname $D))/$(basename $D) prop=$P tests(pass/fail)=$T demo(patched)=$DM demo(clean)=$DC ::$R" | tee -a $LOG
done
( cd $W && git checkout -q -- . )
git -C /repo worktree remove --force $W; git -C /repo worktree remove --force $CLEAN
rm -rf /tmp/jv-alt-$(echo "$W" | md5sum | cut -c1-8)
