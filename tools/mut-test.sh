#!/bin/bash
# run check(s) against /repo HEAD + a patch, in a scratch worktree that is removed afterwards
# usage: tools/mut-test.sh <patch.diff> Cxx [args]   (several properties: run once per property)
P="$(readlink -f "$1")"; shift
W=/tmp/jawk-mut-$$
git -C /repo worktree add -q --detach "$W" HEAD || exit 2
( cd "$W" && git apply "$P" ) || { echo "patch does not apply"; git -C /repo worktree remove --force "$W"; exit 2; }
/verif/tools/on-orig.sh -s "$W" "$@"
rc=$?
T=/tmp/jv-alt-$(echo "$W" | md5sum | cut -c1-8)
rm -rf "$T"
git -C /repo worktree remove --force "$W"
exit $rc
