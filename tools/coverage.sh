#!/bin/bash
# Which lines of jawk do the quick checks reach? (diagnostic, not a check)
# Builds the harness with -C instrument-coverage (nightly, for its llvm-tools), runs every
# property's quick tier at JV_SCALE=0.3 and prints the per-file summary for /repo/src.
# usage: tools/coverage.sh [outdir]      (scratch directory, default /tmp/jv-cov; remove it afterwards)
OUT=${1:-/tmp/jv-cov}; mkdir -p $OUT/root
T=$(dirname $(find ~/.rustup/toolchains/nightly-x86_64-unknown-linux-gnu -name llvm-cov | head -1))
cd /verif/harness && RUSTFLAGS="-C instrument-coverage" CARGO_NET_OFFLINE=true cargo +nightly build --release --target-dir $OUT/target 2>&1 | tail -1
cp /verif/KNOWN_FINDINGS.txt $OUT/root/; cp -r /verif/replays $OUT/root/
for p in $(seq -f "C%02g" 1 20); do
  JV_SCALE=${JV_SCALE:-0.3} JAWK_BIN=/verif/harness/target/jawk-bin/release/jawk LLVM_PROFILE_FILE="$OUT/$p-%p.profraw" $OUT/target/release/jv --root $OUT/root $p --tier quick 2>&1 | tail -1
done
$T/llvm-profdata merge -sparse $OUT/*.profraw -o $OUT/all.profdata
$T/llvm-cov report $OUT/target/release/jv -instr-profile=$OUT/all.profdata --ignore-filename-regex='(registry|rustc|harness/src)' 2>/dev/null | awk 'NF>10 {printf "%-60s lines %6s missed %6s\n", $1, $8, $9}' | sed 's#.*/src/##' | sort -k5 -n -r
echo "zero-count lines: $T/llvm-cov show $OUT/target/release/jv -instr-profile=$OUT/all.profdata <file>"
